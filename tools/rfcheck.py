#!/usr/bin/env python3
"""rfcheck.py <patch> <PID>...  : run checks on a scratch copy with the patch applied, one extraction; print rc + violations/broken"""
import json, os, shutil, subprocess, sys, tempfile
VERIF = os.path.dirname(os.path.dirname(os.path.abspath(__file__)))
patch = os.path.abspath(sys.argv[1]); pids = sys.argv[2:]
scratch = tempfile.mkdtemp(prefix="qlrf.")
try:
    tree = os.path.join(scratch, "repo")
    subprocess.run(["rsync", "-a", "--exclude", "_build", "--exclude", ".git", "/repo/", tree + "/"], check=True)
    r = subprocess.run(["patch", "-p1", "--no-backup-if-mismatch", "-s", "-f", "-i", patch], cwd=tree, stdout=subprocess.PIPE, stderr=subprocess.STDOUT, text=True)
    if r.returncode != 0:
        print("patch does not apply", r.stdout[:300]); sys.exit(3)
    env = dict(os.environ, VERIF_REPO=tree, VERIF_EVIDENCE_DIR=os.path.join(scratch, "ev"), VERIF_REPORT_DIR=os.path.join(scratch, "rep"), VERIF_CACHE_DIR=os.path.join(scratch, "cache"), VERIF_SELFTEST_CHILD="1")
    for pid in pids:
        r = subprocess.run([os.path.join(VERIF, "verif"), "check", pid, "--tier", "quick"], env=env, stdout=subprocess.PIPE, stderr=subprocess.STDOUT, text=True)
        print("%s rc=%d" % (pid, r.returncode))
        for l in r.stdout.splitlines():
            if "violated" in l and l.startswith("  ") or "ANALYSIS-BROKEN" in l or "Traceback" in l or "Error" in l:
                print("    " + l.strip()[:330])
finally:
    shutil.rmtree(scratch, ignore_errors=True)
