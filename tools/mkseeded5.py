#!/usr/bin/env python3
"""stores the fifth round of independently seeded changes (/tmp/seed5_out/<PID>/{A,B}) as /verif/seeded/<PID>{I,J}.
Three deliveries are not stored as seeds: after the /repo fix 88e8259 (hidden rotated files are listed) their demonstrations pass,
i.e. the property holds with them; they are kept as behaviour-preserving changes equivalents/RH1_R{1,2,3}.patch instead."""
import json, os, shutil, subprocess, sys, re
ROOT = "/tmp/seed5_out"
VERIF = os.path.dirname(os.path.dirname(os.path.abspath(__file__)))
ORIGIN = "independent sub-agent given only the property text, the eight earlier changes' one-line summaries (to avoid repeats) and a scratch worktree (nothing from /verif)"
NOT_SEEDS = {}
NEEDS4 = {
"C01I": ("append(list) / Pipeline(list) skip nulls with `return` instead of `continue`", "a list containing a null handler followed by real ones: everything behind the null is silently dropped"),
"C01J": ("setAttributes() returns early for an empty argument (copied from the correct guard in updateAttributes)", "scoped sub-pipeline adding an attribute to a message that had none: the restore to the empty set does nothing and the attribute leaks to siblings"),
"C02I": ("PrettyFormatter::format caches the time text per second in function-local statics", "two independently locked pipelines formatting at once with records of different seconds: one gets the other's time / the shared QString is written concurrently"),
"C02J": ("PrettyFormatter forgets a thread when it finishes via a QThread::finished functor", "a thread that logged finishes while another producer is in format(): the thread table is mutated outside every lock (heap corruption)"),
"C03I": ("bounded backlog with back-pressure: process() sleeps while 8192 messages are pending", "a burst that outruns a slow sink by more than 8192 messages: log calls block on the sinks, and with them every other producer"),
"C03J": ("stall heuristic in the shutdown drain: gives up when nothing finished for 3 s and resets the pending count", "a sink call longer than 3 s during the stop: queued messages are discarded with the worker"),
"C04I": ("the thread object is no longer re-homed to the application's thread before the aboutToQuit connection", "moveToOwnThread() called from a secondary thread without an event loop: the quit hook never runs, exec() returns with the backlog undelivered"),
"C04J": ("Logger::resetOwnThread() override installs the previous Qt handler while the worker is being stopped", "another thread logging while the backlog drains: its messages go to the previous handler and never reach the sinks"),
"C05I": ("calculateCRC32 rewritten (std::array table from a lambda; crc ^= buffer[i] with a plain char)", "compression on and a rotated file containing a byte >= 0x80: the gzip trailer carries a wrong CRC-32 and readers reject the archive"),
"C05J": ("RotatingFileSink::send builds the record once and writes it with write(const char *)", "a record containing U+0000: cut at the NUL, its newline lost, the next record glued on"),
"C06I": ("LogMessage::m_time initialised with currentDateTimeUtc() (formatters convert back to local)", "RotationDaily, N >= 2, restart while the local date differs from the UTC date: rotated names are not monotone and retention deletes a newer file"),
"C06J": ("start-up 'finish pending compression' removes a plain rotated file whenever a .gz sibling exists", "killed inside compressFile() (empty .gz next to the original), restart: the only complete copy is deleted, also with N <= 0"),
"C07I": ("a fatal record bypasses the rotation check", "QtFatalMsg record arriving when the active file has less room than the record: the file exceeds the limit with several records"),
"C07J": ("the size arithmetic of checkSizeRotation is done in int", "limit within one record of INT_MAX, or an existing active file of 2 GiB and more: the sum wraps and the file is never rotated again"),
"C08I": ("the file size is read once per message and reused after the daily check", "RotationDaily + size limit + Compression, first record of a new day with a nearly full file: the fresh empty file is rotated too and compressed into an invalid archive"),
"C08J": ("'compression does not pay off' early return in compressFile() after the header was written", "incompressible or tiny rotated content: a 10-byte header-only .gz stays next to the uncompressed file"),
"C09I": ("the message's day cached with a 24-hour window", "daily rotation in a time zone with DST, a record in the first hour after the 23-hour day: it is filed under the previous day"),
"C09J": ("the directory listing pre-filtered with a QDir name filter built from the unescaped base name", "base name containing [ ] * or ? (worker[1].log): no rotated file is found, index 1 is reused"),
"C10I": ("retention list kept in memory; a failed rename still appends the target name", "full bounded retention and one failed rename: the oldest real rotated file is deleted although nothing was rotated"),
"C10J": ("maxFileCount classified through an enum; negative counts become a bounded limit of 0", "maxFileCount = -1 ('unlimited'): every rotation ends with all rotated files deleted"),
"C11I": ("messageHandler hands messages to the previous handler once QCoreApplication::closingDown()", "a fatal message after ~QCoreApplication has started: not written to the file sinks, nothing flushed"),
"C11J": ("rotate() returns early on a failed rename, after the close and before the reopen", "a rename that fails while the file stays writable (NAME_MAX, read-only directory): every later record, the fatal one included, goes to a closed device"),
"C12I": ("the placeholder text is cut at the first space before the dispatch", "an attribute name or unknown placeholder containing a space: `%{request id}` looks up `request`, `%{no such thing}` is reproduced as `%{no}`"),
"C12J": ("AttributeToken keeps the pending remove-after count in a mutable member that is never cleared", "a long-lived formatter, a message without the attribute followed by one with it: literal text after the placeholder stays chopped"),
"C13I": ("allAttributes() inserts file/function/category only when the pointer is non-null", "a message with a null source-location pointer: the built-in keys are missing from the record"),
"C13J": ("setAttribute() skips the write when the stored value compares equal (QVariant ==)", "an attribute overwritten with an equal-comparing value of another type (1 -> true, '404' -> 404): the old value and type are serialised"),
"C14I": ("conditional blocks kept on a QStack; %{endif} pops unconditionally", "a pattern with one %{endif} too many: pop on an empty stack (write into the shared null vector)"),
"C14J": ("format() looks ahead past the end of the token list for the remove-after follower", "a pattern ending in %{attr?,M} and a message without the attribute: QList::at(count) and a virtual call through the garbage"),
"C15I": ("plain-category rules moved into a hash; rule order taken from container sizes", "two plain rules for one category followed by an overlapping wildcard rule with the opposite verdict: the wildcard, though last, is skipped"),
"C15J": ("type suffix recognised through stringToQtMsgType(), whose table also knows 'fatal'", "a rule whose category ends in .fatal: it becomes a typed rule on QtFatalMsg"),
"C16I": ("scoped pipelines ask their leading filters ahead of the snapshot, then again in the main loop", "a DuplicateFilter among the leading filters of a sub-pipeline: every message is compared with itself and dropped"),
"C16J": ("LogMessage chops one trailing line break from the text at construction", "texts differing only in a final newline, or an expression looking at the end of the text: duplicate / regexp filters decide on another text"),
"C17I": ("class set hoisted into a shared non-const static that call sites extend with operator<<", "an appendAttrHandler anywhere in the process, then two appendFilter calls: new filters are placed in front of the existing ones"),
"C17J": ("class sets derived from the enumeration with HandlerTypeCount = 5 (Pipeline = 5 falls out)", "setFormatter on a pipeline with nested pipelines and no sink: the formatter lands behind them"),
"C18I": ("the event object becomes a member reused between calls; `logger` is not removed for category `default`", "one formatter, a named-category message followed by a default-category one: the second event carries the first one's logger"),
"C18J": ("Sentry's 64-character logger limit applied to the shared category variable", "a category longer than 64 characters: fingerprint[1] is cut too and distinct categories merge"),
"C19I": ("INI front-end clamps max_file_count to at least 1", "max_file_count = 0 or negative ('keep everything'): becomes 'never rotate', the live file grows without bound"),
"C19J": ("INI front-end refuses a group that childGroups() does not list", "nested group name, empty group name or a file without a [logger] section: the logger is installed with an empty pipeline and swallows every record"),
"C20I": ("a usage example with #include \"qtlogger.h\" added to a doc comment in utils.h", "single header compiled with QTLOGGER_SYSLOG/NETWORK/SDJOURNAL: the generator expanded the include inside the comment, the optional sinks' declarations are gone"),
"C20J": ("gzip header/trailer written through packed structs with an unbalanced #pragma pack(push, 1)", "header-only program with two source files and a padded type declared after the include: the type is laid out packed in one file only"),
}
first = {}
cur = None
for l in open("/tmp/seed5_first.txt"):
    m = re.match(r"== (C\d\d)/([AB])", l)
    if m:
        cur = "%s/%s" % m.groups()
    m = re.search(r"rc=(\d) status=(\w+)", l)
    if m and cur and cur not in first:
        first[cur] = {"1": "detected", "2": "undecided", "0": "missed"}[m.group(1)]
head = subprocess.run(["git", "-C", "/repo", "rev-parse", "--short", "HEAD"], stdout=subprocess.PIPE, text=True).stdout.strip()
n = 0
for pid in ["C%02d" % i for i in range(1, 21)]:
    for v, nv in (("A", "I"), ("B", "J")):
        key = "%s/%s" % (pid, v)
        src = "%s/%s" % (ROOT, key)
        if key in NOT_SEEDS:
            continue
        sid = pid + nv
        ver = open(src + "/verify.txt").read()
        assert "apply: ok" in ver and "build: ok" in ver and "100% tests passed" in ver and re.search(r"demo with change: exit [1-9]", ver) and "demo without change: exit 0" in ver, key
        dst = os.path.join(VERIF, "seeded", sid)
        if os.path.exists(dst):
            shutil.rmtree(dst)
        os.makedirs(dst)
        shutil.copy(src + "/patch.diff", dst + "/patch.diff")
        shutil.copytree(src + "/demo", dst + "/demo", ignore=shutil.ignore_patterns("build*", "*.o", "_build", "__pycache__"))
        if os.path.exists(src + "/notes.md"):
            shutil.copy(src + "/notes.md", dst + "/notes.md")
        vhead_repo = ver.split("/repo HEAD ")[1].split()[0]
        what, needs_ = NEEDS4[sid]
        meta = {"id": sid, "round": 5, "breaks_property": pid, "origin": ORIGIN, "change": what, "needs_to_manifest": needs_,
                "first_verdict_of_my_checks": first.get(key, "?"),
                "confirmed_by_me": {"how": "tools/seedverify.sh: scratch worktree of /repo HEAD %s, git apply, cmake -DQTLOGGER_NO_EXAMPLES=ON + build, ctest (18 programs = the 349 QtTest functions), demo/demo.sh with the change (must fail) and after git checkout (must pass); worktree removed" % vhead_repo,
                                    "log": ver.strip().splitlines()}}
        if os.path.exists(src + "/patch.orig.diff"):
            meta["rebased"] = "the delivered patch was written against an earlier /repo HEAD; re-created on %s and re-verified" % vhead_repo
        json.dump(meta, open(dst + "/meta.json", "w"), indent=1)
        n += 1
for key, name in NOT_SEEDS.items():
    body = open("%s/%s/patch.diff" % (ROOT, key)).read()
    title = open("%s/%s/notes.md" % (ROOT, key)).readline().strip("# \n")
    open(os.path.join(VERIF, "equivalents", name + ".patch"), "w").write(
        "# kind: equivalent\n# why: delivered in seeding round 4 as a breaking change (%s); its demonstration relied on rotated files of a hidden log file not being listed, which /repo 88e8259 repaired: with the repaired listing the rename target never exists and the change leaves behaviour unchanged\n" % title + body)
print("stored", n, "seeds;", len(NOT_SEEDS), "equivalents")
