#!/usr/bin/env python3
"""run checks against a seeded change on a scratch copy of /repo: seedcheck.py <patch.diff> <PID> [<PID>...]"""
import os, sys, json
VERIF = os.path.dirname(os.path.dirname(os.path.abspath(__file__)))
sys.path.insert(0, VERIF)
from engine.selftest import run_patch
patch = os.path.abspath(sys.argv[1])
for pid in sys.argv[2:]:
    r = run_patch(pid, patch)
    print("%s rc=%s status=%s" % (pid, r.get("rc"), r["status"]))
    for v in r.get("violations", [])[:6]:
        print("    ", v)
    if r.get("detail"):
        print("    detail:", r["detail"])
