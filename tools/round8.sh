#!/bin/bash
# round7.sh <PID>... : confirm the two delivered changes of each property (seedverify) and run all twenty checks against each
for P in "$@"; do
  for V in A B; do
    [ -f /tmp/seed8_out/$P/$V/patch.diff ] || { echo "== $P/$V: no patch"; continue; }
    SEEDROOT=/tmp/seed8_out SEEDTAG=r8 /verif/tools/seedverify.sh $P $V
    echo "== $P/$V: $(grep -c 'apply: ok' /tmp/seed8_out/$P/$V/verify.txt) apply, $(grep -c 'build: ok' /tmp/seed8_out/$P/$V/verify.txt) build, $(grep -o '100% tests passed' /tmp/seed8_out/$P/$V/verify.txt | head -1), $(grep 'demo with' /tmp/seed8_out/$P/$V/verify.txt), $(grep 'demo without' /tmp/seed8_out/$P/$V/verify.txt)"
    python3 /verif/tools/rfcheck.py /tmp/seed8_out/$P/$V/patch.diff C01 C02 C03 C04 C05 C06 C07 C08 C09 C10 C11 C12 C13 C14 C15 C16 C17 C18 C19 C20 2>&1 | grep -v WARNING | grep -v "rc=0" > /tmp/seed8_out/$P/$V/static.txt
    cat /tmp/seed8_out/$P/$V/static.txt | cut -c1-400
  done
done
