#!/usr/bin/env python3
"""stores the seventh round of independently seeded changes (/tmp/seed7_out/<PID>/{A,B}) as /verif/seeded/<PID>{M,N}."""
import json, os, shutil, subprocess, sys, re
ROOT = "/tmp/seed7_out"
VERIF = os.path.dirname(os.path.dirname(os.path.abspath(__file__)))
ORIGIN = "independent sub-agent given only the property text, the twelve earlier changes' one-line summaries (to avoid repeats) and a scratch worktree (nothing from /verif)"
NOT_SEEDS = {}
NEEDS4 = {
"C01M": ("operator<<(Logger *, const Pipeline &) rebuilds the pipeline from handlers() instead of copying it (Handler gets Q_DISABLE_COPY)", "`logger << Pipeline({attr, formatter, sinkA}, /*scoped*/ true)` followed by a sibling sink: the scoped flag is lost, the sibling gets sinkA's text and attributes"),
"C01N": ("OwnThreadHandler::process hands the message over with std::move (new LogMessage move constructor)", "an OwnThreadHandler<Pipeline> as an inner node, moved to its own thread, with a formatter in front and a sink behind it: the sink gets the raw message"),
"C02M": ("IODeviceSink::send queues the write into the device's thread when the device is sequential and lives elsewhere", "a socket / FIFO device and producers on two threads, one of them the device's own: records overtake each other, queued ones are lost without an event loop"),
"C02N": ("JsonFormatter keeps its QJsonObject between records (new member), instance() untouched", "two independently locked pipelines that both use JsonFormatter::instance() with overlapping format() calls: mixed records, heap corruption"),
"C03M": ("Logger::flush() override: in asynchronous mode resetOwnThread(), flush, moveToOwnThread()", "one thread inside flush(), another logging meanwhile: the whole pipeline runs in the producer's thread"),
"C03N": ("~OwnThreadHandler removes the posted events and zeroes the pending counter before the stop", "a Logger destroyed with a backlog and no earlier resetOwnThread(): the queued messages never reach a sink"),
"C04M": ("the 10 ms polling of the drain becomes a QWaitCondition woken with wakeOne() when the counter hits zero", "two overlapping stops while a backlog is in flight: one is woken, the other sleeps forever"),
"C04N": ("free-running accepted / delivered counters; the stop waits only for what was accepted when it started", "a producer logging while the stop waits: messages accepted later are discarded with the worker on quit()"),
"C05M": ("findRotatedFiles sorts in two std::sort passes (by index, then by day)", "more than 16 rotated files of one day at a retention pass: the order within the day is lost, newer files are deleted while older ones are kept"),
"C05N": ("the day of the active file is stamped and read back in UTC, every other date stays local", "a restart at an hour where the local date differs from the UTC date plus rotations before and after: a rotated file gets a neighbouring day's name, records read back out of order"),
"C06M": ("generateRotatedFileName / findNextIndexForDate use baseName()/completeSuffix(), findRotatedFiles keeps completeBaseName()/suffix()", "a log file name with two or more dots (svc.err.log) and N >= 2: retention never finds the files it produces"),
"C06N": ("the retention pattern accepts .gz only when this sink compresses", "a run with Compression, then a run without it on the same file: the earlier archives are invisible to retention, 2N-1 files stay"),
"C07M": ("the constructor replaces a size limit of 1..7 by 0 ('looks like an Options value')", "a limit L of 1..7 bytes and two records that together exceed it: the active file collects every record"),
"C07N": ("rotate() sets m_activeFileIsNew, checkSizeRotation() returns early while it is set", "two consecutive records of which the first triggers a size rotation: the flag survives to the second, whose check is skipped (60, 60, 60 with L = 100 gives 120 bytes)"),
"C08M": ("compressFile() reads the rotated file through readFileContents(), which answers an empty array when the open fails", "a failing read-only open of the renamed file (EMFILE / EACCES) while the .gz opens: an 18-byte archive gzip rejects, the original removed"),
"C08N": ("the CRC-32 is kept incrementally while writing, fed with toUtf8() while the file receives toLocal8Bit()", "Compression, a non-UTF-8 locale codec and a non-ASCII character: the trailer CRC does not match the data"),
"C09M": ("flush() stamps the day as noon UTC instead of a local time", "a zone at UTC+12 or more, records of day D flushed on D+1, restart with daily rotation: D and D+1 share app.log"),
"C09N": ("rotateIfNeeded() returns early for an empty active file, before m_currentLogDate = messageDate", "daily rotation, an empty active file, a first record created before midnight and delivered after it, one more record of the new day: the days share a file"),
"C10M": ("with Compression the active file is moved aside as <file>.rotating and compressed from there; compressFile() returns early when the .gz cannot be created", "one failed creation of a .gz and a further rotation in the same process: the .rotating generation is silently replaced"),
"C10N": ("both directory readers pre-filter the listing with the QDir name filter `<base>.*`", "a log file called worker[1].log with Compression and two rotations on one day: index 1 is reused, the previous archive is truncated"),
"C11M": ("the flush on fatal moves into a virtual hook called from OwnThreadHandler::process's synchronous branch", "a QTLOGGER_NO_THREAD build with a file sink and qFatal(): Logger derives from SimplePipeline there and never reaches the hook"),
"C11N": ("RotatingFileSink::send returns early when the file is closed or QFileDevice::error() is set", "one transient write failure (ENOSPC, EFBIG) during size(): the sticky error disables the sink, every later record and the fatal one are dropped"),
"C12M": ("%{time ...} / %{shortfile ...} matched by a prefix helper that no longer requires the end of the name or a blank", "a custom attribute whose name starts with time or shortfile (%{timestamp}, %{time_ms:0>8}): printed as a time / file token"),
"C12N": ("format() loses its length estimate and result.reserve()", "a pattern that expands to nothing for a message (only %{if-...} blocks of other types): the null result counts as unformatted, sinks print the raw message"),
"C13M": ("the finished JSON text is passed through normalized(NormalizationForm_C)", "text that is not NFC (e + U+0301, U+212B) or a control character followed by a combining mark: values altered, invalid JSON"),
"C13N": ("toJsonValue() sends the meta types Long..SChar through toLongLong(); the range contains QMetaType::Float", "a float attribute with a fractional part: 36.6f becomes 37"),
"C14M": ("parseFormatSpec no longer clamps the width of truncate-only specs", "%{message:1500000000!}: the length estimate equals the width, QString::reserve() throws std::bad_alloc"),
"C14N": ("%{func} results cached in a QHash keyed by QByteArray::fromRawData(lmsg.function())", "a non-literal function text that is released, then a second message with the same text at another address: memcmp on the dangling key"),
"C15M": ("a trailing .* of a rule is compiled as 'stem plus optional subtree'", "a category exactly equal to the stem of a stem.* rule: net.*=false drops net"),
"C15N": ("the constructor cuts the rule text at the last line that starts like an unconditional rule (*=...), without checking the value", "a malformed line such as *=on behind well-formed rules: ignored by the parser, but it took every earlier rule with it"),
"C16M": ("the LogMessage copy constructor deep-copies the texts with QString::fromUtf16(str.utf16())", "asynchronous mode or a queued signal sink and a text with U+0000 or a leading U+FEFF: the filters behind the copy decide on another text"),
"C16N": ("Logger::processMessage takes the verdict of a leading LevelFilter before the message is constructed, skipping attribute handlers", "a SeqNumberAttr in front of the LevelFilter and messages below the threshold: survivors are numbered 0,1,2 instead of 1,4,7"),
"C17M": ("typed calls made while process() runs are recorded in a QMultiMap and applied afterwards", "two same-class typed insertions from inside one process() call: applied newest first, insertion order lost"),
"C17N": ("insertBetweenNearLeft/Right rewritten as bit operations on a quint32 position mask (Pipeline::positionsOf)", "a pipeline of more than 32 handlers with the class boundary behind index 32: sinks reversed, a formatter among the filters"),
"C18M": ("the Sentry timestamp is written with toString(\"yyyy-MM-dd'T'HH:mm:ss.zzz'Z'\")", "a process locale with its own digits (ar_EG, fa_IR, ne_NP): the timestamp is not ISO-8601"),
"C18N": ("SentryFormatter caches the category string in a QHash keyed by the category pointer", "two categories at one address (queued copies in asynchronous mode, a reused buffer): logger and fingerprint carry an earlier message's category"),
"C19M": ("the colour mode is evaluated in the ColoredConsole base-class constructor; isTty() gets a default", "stdout_color=true on a real terminal: the virtual call from the base constructor never reaches the sinks' overrides, Auto means no colours"),
"C19N": ("LogMessage::isFormatted() changed from !isNull() to !isEmpty()", "a message_pattern of conditional sections only and a record none applies to: the raw text appears on every output"),
"C20M": ("ColorMode::Auto honours NO_COLOR / CLICOLOR_FORCE, read into two dynamically initialised namespace-scope constants", "a console sink created from a static initialiser before main() in a static-library build: initialised after the program's globals there, before them header-only"),
"C20N": ("QTLOGGER_CONFIG support registered with Q_COREAPP_STARTUP_FUNCTION in configure.cpp", "a header-only program of two source files with the variable set: one registrar per including file, every record twice"),
}
FIRST = {"C01/A": "missed", "C01/B": "missed", "C02/A": "detected", "C02/B": "missed", "C03/A": "missed", "C03/B": "detected", "C04/A": "detected", "C04/B": "detected", "C05/A": "missed", "C05/B": "detected",
         "C06/A": "detected", "C06/B": "detected", "C07/A": "missed", "C07/B": "missed", "C08/A": "detected", "C08/B": "undecided", "C09/A": "missed", "C09/B": "detected", "C10/A": "detected", "C10/B": "missed",
         "C11/A": "detected", "C11/B": "missed", "C12/A": "detected", "C12/B": "missed", "C13/A": "detected", "C13/B": "missed", "C14/A": "detected", "C14/B": "undecided", "C15/A": "undecided", "C15/B": "undecided",
         "C16/A": "missed", "C16/B": "missed", "C17/A": "detected", "C17/B": "undecided", "C18/A": "detected", "C18/B": "detected", "C19/A": "missed", "C19/B": "missed", "C20/A": "missed", "C20/B": "missed"}
first = FIRST
head = subprocess.run(["git", "-C", "/repo", "rev-parse", "--short", "HEAD"], stdout=subprocess.PIPE, text=True).stdout.strip()
n = 0
for pid in ["C%02d" % i for i in range(1, 21)]:
    for v, nv in (("A", "M"), ("B", "N")):
        key = "%s/%s" % (pid, v)
        src = "%s/%s" % (ROOT, key)
        if key in NOT_SEEDS or not os.path.exists(src + "/patch.diff"):
            continue
        sid = pid + nv
        ver = open(src + "/verify.txt").read()
        assert "apply: ok" in ver and "build: ok" in ver and "100% tests passed" in ver and re.search(r"demo with change: exit [1-9]", ver) and "demo without change: exit 0" in ver, key
        dst = os.path.join(VERIF, "seeded", sid)
        if os.path.exists(dst):
            shutil.rmtree(dst)
        os.makedirs(dst)
        shutil.copy(src + "/patch.diff", dst + "/patch.diff")
        shutil.copytree(src + "/demo", dst + "/demo", ignore=shutil.ignore_patterns("build*", "*.o", "_build", "__pycache__"))
        if os.path.exists(src + "/notes.md"):
            shutil.copy(src + "/notes.md", dst + "/notes.md")
        vhead_repo = ver.split("/repo HEAD ")[1].split()[0]
        what, needs_ = NEEDS4[sid]
        meta = {"id": sid, "round": 7, "breaks_property": pid, "origin": ORIGIN, "change": what, "needs_to_manifest": needs_,
                "first_verdict_of_my_checks": first.get(key, "?"),
                "confirmed_by_me": {"how": "tools/seedverify.sh: scratch worktree of /repo HEAD %s, git apply, cmake -DQTLOGGER_NO_EXAMPLES=ON + build, ctest (18 programs = the 349 QtTest functions), demo/demo.sh with the change (must fail) and after git checkout (must pass); worktree removed" % vhead_repo,
                                    "log": ver.strip().splitlines()}}
        if os.path.exists(src + "/patch.orig.diff"):
            meta["rebased"] = "the delivered patch was written against an earlier /repo HEAD; re-created on %s and re-verified" % vhead_repo
        json.dump(meta, open(dst + "/meta.json", "w"), indent=1)
        n += 1
for key, name in NOT_SEEDS.items():
    body = open("%s/%s/patch.diff" % (ROOT, key)).read()
    title = open("%s/%s/notes.md" % (ROOT, key)).readline().strip("# \n")
    open(os.path.join(VERIF, "equivalents", name + ".patch"), "w").write(
        "# kind: equivalent\n# why: delivered in seeding round 4 as a breaking change (%s); its demonstration relied on rotated files of a hidden log file not being listed, which /repo 88e8259 repaired: with the repaired listing the rename target never exists and the change leaves behaviour unchanged\n" % title + body)
print("stored", n, "seeds;", len(NOT_SEEDS), "equivalents")
