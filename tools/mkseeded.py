import json, os, shutil, subprocess
NEEDS = {
"C01A": ("Pipeline::process: `break` on rejection became `return true`, skipping the scoped restore", "a scoped child whose formatter/attribute handler runs before a rejecting filter, followed by a sibling or parent sink without its own formatter"),
"C01B": ("LogMessage::isFormatted(): isNull() -> isEmpty()", "a formatter that legitimately produces the empty string (redaction, conditional pattern) in front of a sink"),
"C02A": ("OwnThreadHandler::process: mutex released before the synchronous BaseHandler::process", "a bare own-thread pipeline (not a Logger) in synchronous mode and two threads overlapping in process()"),
"C02B": ("flush-on-fatal moved out of the locked processMessage() into messageHandler()", "a fatal message on one thread while another thread is inside a sink's send()"),
"C03A": ("LogMessage copy ctor keeps the caller's file/function pointers", "asynchronous mode, a caller-owned (non-static) file/function buffer that is reused before the worker delivers"),
"C03B": ("Worker::customEvent takes the hand-off mutex around the handler run", "a slow sink and a log call issued while that sink is busy"),
"C04A": ("resetOwnThread unlocks the mutex around wait()", "a producer logging between quit() and the thread finishing (logger thread busy with another event)"),
"C04B": ("pending count decremented before the handler run", "a stop while the last message is being delivered by a sink that needs > 3 s"),
"C05A": ("findNextIndexForDate returns 1 + the last match of a name-sorted listing", "compression on, >= 11 rotations on one day with indices 9 and 10 both present"),
"C05B": ("IODeviceSink::send writes text and newline separately, newline only if write() > 0", "an empty record anywhere in the history"),
"C06A": ("findRotatedFiles returns the name-sorted listing (no numeric order)", "N >= 2 and the rotation index crossing 9 -> 10 within one day"),
"C06B": ("shared regex helper loses QRegularExpression::escape for base name and suffix", "a base name containing a regex metacharacter and a look-alike foreign file in the directory"),
"C07A": ("added size measured in UTF-16 code units instead of bytes", "non-ASCII records under a UTF-8 locale near the limit"),
"C07B": ("size kept in a member counter that is never loaded from an existing file", "a restart over a non-empty log file without start-up rotation"),
"C08A": ("rotated file deflated in 1 MiB pieces concatenated into one gzip member", "a rotated file larger than 1 MiB"),
"C08B": ("compressFile relies on RAII: original removed while the .gz tail is still buffered", "process death between unlink of the original and the QFile destructor"),
"C09A": ("next index from the first match of a reverse name-sorted listing", ">= 10 rotations carrying the same date, then a day change"),
"C09B": ("init() runs the start-up rotation before dating the file", "restart with RotationOnStartup over a non-empty file last written on an earlier day"),
"C10A": ("compressFile: inputFile.remove() before the buffered output is closed", "crash between unlink and the flush of the .gz"),
"C10B": ("QSaveFile output whose commit() result is ignored before removing the original", "a failing rename/linkat when the .gz is published"),
"C11A": ("flush() short-circuits after the first sink whose flush fails (ok = ok && ...)", "two sinks, the earlier one failing to flush (/dev/full) at the fatal moment"),
"C11B": ("flush on fatal moved into IODeviceSink::send for fatal records; logger-level flush removed", "a filter in front of a file sink that rejects the fatal message after earlier records passed"),
"C12A": ("unterminated %{ : rest of the pattern copied as literal without %% processing", "a pattern with an unterminated %{ followed later by %%"),
"C12B": ("parseFormatSpec tests align-only before fill+align", "a fill character that is itself '<', '>' or '^'"),
"C13A": ("compact mode serialised by hand, member names not escaped", "compact mode and an attribute name containing a quote, backslash or control character"),
"C13B": ("uint attributes converted through toInt()", "a quint32 attribute >= 2^31"),
"C14A": ("literal runs copied up to the next '%' found with indexOf; a trailing '%' makes no progress", "a pattern whose last character is a lone '%' (constructor never returns)"),
"C14B": ("operator-keyword test factored into a helper that drops the pos == 8 special case", "a function text starting with 'operator' such as 'operator()' (func.at(-1))"),
"C15A": ("repeated selectors are merged into the first occurrence at parse time", ">= 3 rules: a selector twice with an overlapping opposite rule in between"),
"C15B": ("category pattern built with QRegularExpression::wildcardToRegularExpression", "category names containing '/', or rule text containing '?', '[' or ']'"),
"C16A": ("DuplicateFilter compares (length, qHash) instead of the text", "two consecutive different texts of equal length and equal 32-bit hash ('Aa'/'BB')"),
"C16B": ("RegExpFilter adds DontCaptureOption", "an expression with a numbered back-reference"),
"C17A": ("typed insertion = append + std::sort by class", "a pipeline of 17 or more handlers (libstdc++ introsort threshold)"),
"C17B": ("clear(type) = erase(std::partition(...))", "a pipeline with two or more handlers behind the cleared class (every setFormatter)"),
"C18A": ("event_id derived from the record (UUID v5) instead of random", "two identical records in the same millisecond"),
"C18B": ("slot helper writes routed attributes only when non-empty, extra still skips them", "a routed attribute (e.g. appversion) with an empty value"),
"C19A": ("installMessageHandler saves the displaced handler only when the logger newly becomes active", "two install/restore cycles on the same Logger"),
"C19B": ("ANSI stripping skipped for debug records", "one-line configure() with a path and a debug record with a named category or from a second thread"),
"C20A": ("qtlogger.h regenerated from an intermediate state of a two-site refactor", "header-only build and a record landing exactly on the size limit"),
"C20B": ("fix in src/ (all %{time} placeholders of a path) without regenerating qtlogger.h", "header-only build and a file path with two %{time} placeholders"),
}
matrix = json.load(open("/tmp/seed_out/matrix.json"))
head = subprocess.run(["git", "-C", "/repo", "rev-parse", "--short", "HEAD"], stdout=subprocess.PIPE, text=True).stdout.strip()
vhead = subprocess.run(["git", "-C", "/verif", "rev-parse", "--short", "HEAD"], stdout=subprocess.PIPE, text=True).stdout.strip()
for pid in ["C%02d" % i for i in range(1, 21)]:
    for v in "AB":
        src = "/tmp/seed_out/%s/%s" % (pid, v)
        sid = pid + v
        dst = "/verif/seeded/%s" % sid
        if os.path.exists(dst):
            shutil.rmtree(dst)
        os.makedirs(dst)
        shutil.copy(src + "/patch.diff", dst + "/patch.diff")
        shutil.copytree(src + "/demo", dst + "/demo", ignore=shutil.ignore_patterns("build*", "*.o", "_build"))
        if os.path.exists(src + "/notes.md"):
            shutil.copy(src + "/notes.md", dst + "/notes.md")
        ver = open(src + "/verify.txt").read()
        m = matrix["%s/%s" % (pid, v)]
        what, needs = NEEDS[sid]
        meta = {
            "id": sid, "breaks_property": pid, "origin": "independent sub-agent given only the property text and a scratch worktree (nothing from /verif)",
            "change": what, "needs_to_manifest": needs,
            "confirmed_by_me": {
                "how": "tools/seedverify.sh: scratch worktree of /repo HEAD %s, git apply, cmake -DQTLOGGER_NO_EXAMPLES=ON + build, ctest (18 programs = the 349 QtTest functions), demo/demo.sh with the change (must fail) and after git checkout (must pass); worktree removed" % head,
                "log": ver.strip().splitlines(),
            },
            "static_checks": {
                "at_verif_commit": vhead,
                "own_property": {"rc": m[pid]["rc"], "violated": m[pid]["keys"]},
                "also_reported_by": {p: x["keys"] for p, x in m.items() if p != pid and x["rc"] == 1},
                "cannot_decide": [p for p, x in m.items() if x["rc"] == 2],
            },
        }
        json.dump(meta, open(dst + "/meta.json", "w"), indent=1)
print("done")
