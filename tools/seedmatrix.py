#!/usr/bin/env python3
"""runs every check against every seeded change (scratch copy per seed, one extraction per seed):
   seedmatrix.py <seed-root> [-j N]  -> table seed x property with rc (1 = violation reported, 0 = silent, 2 = cannot decide)"""
import json, os, shutil, subprocess, sys, tempfile
from concurrent.futures import ThreadPoolExecutor
VERIF = os.path.dirname(os.path.dirname(os.path.abspath(__file__)))
root = sys.argv[1]
jobs = int(sys.argv[sys.argv.index("-j") + 1]) if "-j" in sys.argv else 4
PIDS = ["C%02d" % i for i in range(1, 21)]
seeds = []
for d in sorted(os.listdir(root)):
    if not os.path.isdir(os.path.join(root, d)):
        continue
    if os.path.exists(os.path.join(root, d, "patch.diff")):
        # flat layout (/verif/seeded/<PID><letter>/patch.diff)
        seeds.append((d[:3], d[3:], os.path.join(root, d, "patch.diff")))
        continue
    for v in sorted(os.listdir(os.path.join(root, d))):
        p = os.path.join(root, d, v, "patch.diff")
        if os.path.exists(p):
            seeds.append((d, v, p))

def run(seed):
    d, v, patch = seed
    scratch = tempfile.mkdtemp(prefix="qlseed.")
    try:
        tree = os.path.join(scratch, "repo")
        subprocess.run(["rsync", "-a", "--exclude", "_build", "--exclude", ".git", "/repo/", tree + "/"], check=True)
        r = subprocess.run(["patch", "-p1", "--no-backup-if-mismatch", "-s", "-f", "-i", patch], cwd=tree, stdout=subprocess.PIPE, stderr=subprocess.STDOUT, text=True)
        if r.returncode != 0:
            return seed, {"error": "patch does not apply"}
        env = dict(os.environ, VERIF_REPO=tree, VERIF_EVIDENCE_DIR=os.path.join(scratch, "ev"), VERIF_REPORT_DIR=os.path.join(scratch, "rep"), VERIF_CACHE_DIR=os.path.join(scratch, "cache"), VERIF_SELFTEST_CHILD="1")
        out = {}
        for pid in PIDS:
            r = subprocess.run([os.path.join(VERIF, "verif"), "check", pid, "--tier", "quick"], env=env, stdout=subprocess.PIPE, stderr=subprocess.STDOUT, text=True)
            keys = []
            rp = os.path.join(scratch, "rep", pid + ".json")
            if r.returncode == 1 and os.path.exists(rp):
                keys = [x.get("key", "") for x in json.load(open(rp))["violations"]]
            broken = [l[:200] for l in r.stdout.splitlines() if "ANALYSIS-BROKEN" in l][:2]
            out[pid] = {"rc": r.returncode, "keys": sorted(set(keys))[:4], "broken": broken}
            if os.path.exists(rp):
                os.remove(rp)
        own = out.get(d, {}).get("rc")
        print("done %s/%s own rc=%s others=%s undecided=%s" % (d, v, own, ",".join(p for p in PIDS if p != d and out[p]["rc"] == 1), ",".join(p for p in PIDS if out[p]["rc"] == 2)), flush=True)
        return seed, out
    finally:
        shutil.rmtree(scratch, ignore_errors=True)

with ThreadPoolExecutor(max_workers=jobs) as ex:
    results = list(ex.map(run, seeds))
table = {}
for (d, v, _), out in results:
    table["%s/%s" % (d, v)] = out
out_path = sys.argv[sys.argv.index("--out") + 1] if "--out" in sys.argv else os.path.join(root, "matrix.json")
json.dump(table, open(out_path, "w"), indent=1)
print("seed    own  others(rc=1)            cannot-decide(rc=2)")
for k, out in table.items():
    if "error" in out:
        print(k, out["error"]); continue
    own = k.split("/")[0]
    print("%-7s %-4s %-24s %s" % (k, out[own]["rc"] if own in out else "-", ",".join(p for p in PIDS if p != own and out[p]["rc"] == 1), ",".join(p for p in PIDS if out[p]["rc"] == 2)))
