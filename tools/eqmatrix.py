#!/usr/bin/env python3
"""runs, for every patch of the false-alarm corpus (equivalents/*.patch), the checks of the properties whose anchors it touches (equivalents/index.json):
   eqmatrix.py [-j N] [--out file] -> one line per patch with rc=1 (FALSE ALARM) / rc=2 (cannot decide) / does-not-apply; silent ones are counted"""
import json, os, shutil, subprocess, sys, tempfile
from concurrent.futures import ThreadPoolExecutor
VERIF = os.path.dirname(os.path.dirname(os.path.abspath(__file__)))
jobs = int(sys.argv[sys.argv.index("-j") + 1]) if "-j" in sys.argv else 4
ix = json.load(open(os.path.join(VERIF, "equivalents", "index.json")))
by_patch = {}
for pid, ps in ix.items():
    for p in ps:
        by_patch.setdefault(p, []).append(pid)

def run(item):
    patch, pids = item
    scratch = tempfile.mkdtemp(prefix="qleq.")
    try:
        tree = os.path.join(scratch, "repo")
        subprocess.run(["rsync", "-a", "--exclude", "_build", "--exclude", ".git", "/repo/", tree + "/"], check=True)
        r = subprocess.run(["patch", "-p1", "--no-backup-if-mismatch", "-s", "-f", "-i", os.path.join(VERIF, "equivalents", patch)], cwd=tree, stdout=subprocess.PIPE, stderr=subprocess.STDOUT, text=True)
        if r.returncode != 0:
            return patch, {"error": "does not apply"}
        env = dict(os.environ, VERIF_REPO=tree, VERIF_EVIDENCE_DIR=os.path.join(scratch, "ev"), VERIF_REPORT_DIR=os.path.join(scratch, "rep"), VERIF_CACHE_DIR=os.path.join(scratch, "cache"), VERIF_SELFTEST_CHILD="1")
        out = {}
        for pid in sorted(pids):
            r = subprocess.run([os.path.join(VERIF, "verif"), "check", pid, "--tier", "quick"], env=env, stdout=subprocess.PIPE, stderr=subprocess.STDOUT, text=True)
            lines = [l.strip()[:260] for l in r.stdout.splitlines() if (l.startswith("  ") and "violated" in l) or "ANALYSIS-BROKEN" in l or "Traceback" in l][:3]
            out[pid] = {"rc": r.returncode, "lines": lines}
        return patch, out
    finally:
        shutil.rmtree(scratch, ignore_errors=True)

with ThreadPoolExecutor(max_workers=jobs) as ex:
    res = dict(ex.map(run, sorted(by_patch.items())))
if "--out" in sys.argv:
    json.dump(res, open(sys.argv[sys.argv.index("--out") + 1], "w"), indent=1)
n_silent = n_alarm = n_und = n_na = 0
for patch, out in sorted(res.items()):
    if "error" in out:
        n_na += 1
        print("%-16s %s" % (patch, out["error"]))
        continue
    al = [p for p, v in out.items() if v["rc"] == 1]
    un = [p for p, v in out.items() if v["rc"] not in (0, 1)]
    if al:
        n_alarm += 1
    elif un:
        n_und += 1
    else:
        n_silent += 1
    for p in al + un:
        print("%-16s %s rc=%d %s" % (patch, p, out[p]["rc"], " | ".join(out[p]["lines"])[:300]))
print("patches: %d silent, %d with a FALSE ALARM, %d with a check that cannot decide, %d do not apply" % (n_silent, n_alarm, n_und, n_na))
