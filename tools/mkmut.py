"""helper to author mutant patches: mk(pid, name, [(file, old, new), ...], expect, why, kind)"""
import difflib, os, sys
REPO = "/repo"
VERIF = os.path.dirname(os.path.dirname(os.path.abspath(__file__)))

def mk(pid, name, edits, expect="", why="", kind="break"):
    if isinstance(edits, tuple):
        edits = [edits]
    out = ["# kind: %s\n" % kind, "# expect: %s\n" % expect, "# why: %s\n" % why]
    byfile = {}
    for f, old, new in edits:
        src = byfile.get(f)
        if src is None:
            src = open(os.path.join(REPO, f)).read()
        if src.count(old) != 1:
            raise SystemExit("%s/%s: pattern occurs %d times in %s: %r" % (pid, name, src.count(old), f, old[:60]))
        byfile[f] = src.replace(old, new)
    for f, new in byfile.items():
        a = open(os.path.join(REPO, f)).read().splitlines(keepends=True)
        b = new.splitlines(keepends=True)
        out += list(difflib.unified_diff(a, b, "a/" + f, "b/" + f))
    d = os.path.join(VERIF, "mutants", pid)
    os.makedirs(d, exist_ok=True)
    open(os.path.join(d, name + ".patch"), "w").writelines(out)
