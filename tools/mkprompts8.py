#!/usr/bin/env python3
"""round 8: writes one prompt per property for the seeding sub-agents (/tmp/seed8_prompts/<PID>.md) and creates their
scratch worktrees (/tmp/seed8_wt/<PID>).  The prompt contains the property text, one-line summaries of the changes earlier
agents delivered (to avoid repeats) and the delivery format - nothing about /verif's checks."""
import json, os, glob, subprocess, sys
VERIF = os.path.dirname(os.path.dirname(os.path.abspath(__file__)))
OUT = "/tmp/seed8_prompts"; WT = "/tmp/seed8_wt"; RES = "/tmp/seed8_out"
os.makedirs(OUT, exist_ok=True); os.makedirs(WT, exist_ok=True); os.makedirs(RES, exist_ok=True)
T = """You are helping to evaluate how well a project's quality gates catch subtle regressions. The project is
qtlogger (a Qt 5/6 logging library: handler pipeline of attribute handlers, filters, formatters and sinks, rotating
files, asynchronous logger thread). You have your OWN scratch git worktree of it at

    {wt}

Work ONLY inside that directory and under {res}. Do not read or write /repo or /verif (they are off limits: your
work must be independent of them). Do not commit anything; never run `git worktree` commands.

Build and test (offline, Qt 5.15, takes well under a minute):

    cmake -S {wt} -B {wt}/_build -G Ninja -DQTLOGGER_NO_EXAMPLES=ON && cmake --build {wt}/_build -j6
    ctest --test-dir {wt}/_build -j4 --timeout 900        # 18 test programs = 349 test functions, all pass

The single-header distribution `qtlogger.h` in the tree root is generated from the sources: after every source change
run `python3 tools/gen_qtlogger.h.py` in the tree root (look at the script for its usage / output path) so that
qtlogger.h is in step with your change and include it in your patch.

## The property

**{pid} - {title}**

{statement}

Quantifier: {quant}

## Your task

Produce TWO independent changes (call them A and B) to qtlogger's library sources, each of which

1. is realistic - something a maintainer could plausibly commit as a refactoring, optimisation, robustness fix, clean-up,
   portability change or small feature, with a plausible commit message; not sabotage that a reviewer would spot at once;
2. still compiles, and the complete existing test-suite still passes (all 18 ctest programs);
3. BREAKS the property above for some input / schedule / crash point / history / configuration in its quantifier;
4. needs something SPECIFIC to manifest - a particular interleaving, a crash or I/O fault at a particular point, a
   multi-step sequence of operations, an unusual input or option combination, or two cooperating sites that each look
   fine alone - NOT something ordinary use would expose at once;
5. uses a mechanism AND a site that differ from each other and from every earlier change listed below.

Prefer variety: a base class or header rather than the obvious function; a caller rather than the callee; a constructor,
destructor or default argument; a changed type, signedness or container; an added cache, fast path or early return; a
changed order of two statements; an error path; interaction with another feature of the library (async mode, scoped
pipelines, compression, retention, the INI front-end, header-only mode, QTLOGGER_NO_THREAD ...). Read the code the
property talks about carefully first; the best changes come from understanding exactly why today's code is right.

Earlier agents already delivered these changes for this property (do NOT repeat their mechanism or their exact site):

{earlier}

For each change deliver, under {res}/{pid}/A/ and {res}/{pid}/B/:

* `patch.diff` - `git diff` of the worktree against HEAD (sources + regenerated qtlogger.h), applying cleanly with
  `git apply` to a pristine checkout of HEAD;
* `demo/demo.sh` (executable) plus whatever sources it needs in `demo/` - usage `demo.sh <qtlogger source tree root>`.
  It must build its own small program (or QtTest) against the sources / headers of the tree given as `$1` in a fresh
  `mktemp -d` directory (g++ -std=c++17 with `pkg-config Qt5Core`, compiling the needed library .cpp files directly, or
  a small cmake project using `$1/src`), run it, remove the temporary directory, and exit 0 when the property holds and
  non-zero when it is broken. It must be deterministic (if it depends on a schedule, force the schedule with hooks in
  the demo itself - slow sinks, barriers, LD_PRELOAD, fault injection - not in the library), finish within 2 minutes,
  need no network, and print a short human-readable explanation of what it observed.
  It must FAIL (non-zero) on the tree with your change and PASS (0) on the pristine tree - check both yourself.
* `notes.md` - what the change does and its cover story, which clause of the property breaks and on which input /
  schedule / history, why the existing tests still pass, what exactly is needed for it to manifest.

After finishing A, restore the worktree (`git checkout -- . && git clean -fdq -e _build`) before starting B, so that each
patch is against pristine HEAD. Restore it again when you are done.

While reading the code: if you notice anything in the UNCHANGED code that already violates this property (a genuine
defect, with a concrete input or schedule), describe it in `{res}/{pid}/side_remarks.md` - that is valuable too.

Your final answer should be brief: for A and B one line each (site, mechanism, what it needs to manifest), and whether
you verified compile / tests / demo both ways.
"""
props = [json.loads(l) for l in open(os.path.join(VERIF, "properties.jsonl"))]
for p in props:
    pid = p["id"]
    earlier = []
    for d in sorted(glob.glob(os.path.join(VERIF, "seeded", pid + "?"))):
        m = json.load(open(d + "/meta.json"))
        earlier.append("* %s (needs: %s)" % (m["change"], m.get("needs_to_manifest", "?")))
    wt = "%s/%s" % (WT, pid)
    if not os.path.exists(wt):
        subprocess.run(["git", "-C", "/repo", "worktree", "add", "--detach", wt, "HEAD"], check=True, stdout=subprocess.DEVNULL, stderr=subprocess.DEVNULL)
    os.makedirs("%s/%s" % (RES, pid), exist_ok=True)
    open("%s/%s.md" % (OUT, pid), "w").write(T.format(wt=wt, res=RES, pid=pid, title=p["title"], statement=p["statement"],
                                                     quant=p["quantifier"]["text"], earlier="\n".join(earlier)))
print("prompts in", OUT)
