#!/bin/bash
# usage: seedverify.sh <ID> <A|B>   — confirms a seeded change independently: applies it to a scratch worktree of /repo,
# builds, runs the unedited test-suite, runs the demonstration with and without the change; removes the worktree.
ID=$1; V=$2
SRC=${SEEDROOT:-/tmp/seed_out}/$ID/$V
WT=/tmp/sv/${SEEDTAG:-r1}$ID$V
OUT=$SRC/verify.txt
mkdir -p /tmp/sv
git -C /repo worktree remove --force $WT >/dev/null 2>&1
git -C /repo worktree add --detach $WT HEAD >/dev/null 2>&1 || { echo "worktree failed" > $OUT; exit 2; }
{
echo "seed $ID/$V verified on $(date -u +%FT%TZ) against /repo HEAD $(git -C /repo rev-parse --short HEAD)"
if git -C $WT apply $SRC/patch.diff; then echo "apply: ok"; else echo "apply: FAILED"; fi
cmake -S $WT -B $WT/_build -G Ninja -DQTLOGGER_NO_EXAMPLES=ON >/dev/null 2>&1
if cmake --build $WT/_build -j8 >$WT/build.log 2>&1; then echo "build: ok"; else echo "build: FAILED"; tail -5 $WT/build.log; fi
ctest --test-dir $WT/_build -j4 --timeout 900 >$WT/ctest.log 2>&1
tail -3 $WT/ctest.log | tr '\n' ' '; echo
if grep -q "tests failed" $WT/ctest.log && ! grep -q "100% tests passed" $WT/ctest.log; then
  # one retry of failed tests (timing-sensitive thread tests under load)
  ctest --test-dir $WT/_build --rerun-failed --timeout 900 >$WT/ctest2.log 2>&1; echo "rerun-failed: $(tail -3 $WT/ctest2.log | tr '\n' ' ')"
fi
DEMO=$(ls $SRC/demo/demo.sh 2>/dev/null)
chmod +x $DEMO 2>/dev/null
( cd $SRC/demo && timeout 900 ./demo.sh $WT >$WT/demo_with.log 2>&1 ); echo "demo with change: exit $?"; tail -3 $WT/demo_with.log
git -C $WT checkout -- . ; git -C $WT clean -fdq -e _build -e build.log -e ctest.log -e ctest2.log -e demo_with.log
( cd $SRC/demo && timeout 900 ./demo.sh $WT >$WT/demo_without.log 2>&1 ); echo "demo without change: exit $?"; tail -2 $WT/demo_without.log
} > $OUT 2>&1
git -C /repo worktree remove --force $WT >/dev/null 2>&1
rm -rf $WT
