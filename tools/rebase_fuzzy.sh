#!/bin/bash
# rebase_fuzzy.sh <patch>: re-create a stored patch on /repo's HEAD when only line offsets / context moved: the source hunks (everything but the
# generated qtlogger.h) are applied with fuzz on a scratch worktree, the single header is regenerated, the patch file is rewritten. Exit 1 on rejects.
set -e
P=$(readlink -f "$1")
W=$(mktemp -d /tmp/rbf.XXXXXX); rmdir "$W"
git -C /repo worktree add -q -f --detach "$W" HEAD
trap 'git -C /repo worktree remove --force "$W" >/dev/null 2>&1; git -C /repo worktree prune' EXIT
cd "$W"
awk '/^diff --git a\/qtlogger.h/{skip=1} /^diff --git a\/(src|docs|tests|tools|examples|CMake|README)/{skip=0} !skip' "$P" | grep -v '^#' > /tmp/rbf_src.diff
if ! patch -p1 -F3 -f --no-backup-if-mismatch < /tmp/rbf_src.diff > /tmp/rbf.log 2>&1; then cat /tmp/rbf.log; echo "REJECTS $P"; exit 1; fi
python3 tools/gen_qtlogger.h.py >/dev/null 2>&1
git add -A
{ grep '^#' "$P" || true; git diff --cached HEAD; } > "$P.new"
mv "$P.new" "$P"
echo "rebased $P"
