#!/usr/bin/env python3
"""stores the fourth round of independently seeded changes (/tmp/seed4_out/<PID>/{A,B}) as /verif/seeded/<PID>{G,H}.
Three deliveries are not stored as seeds: after the /repo fix 88e8259 (hidden rotated files are listed) their demonstrations pass,
i.e. the property holds with them; they are kept as behaviour-preserving changes equivalents/RH1_R{1,2,3}.patch instead."""
import json, os, shutil, subprocess, sys, re
ROOT = "/tmp/seed4_out"
VERIF = os.path.dirname(os.path.dirname(os.path.abspath(__file__)))
ORIGIN = "independent sub-agent given only the property text, the six earlier changes' one-line summaries (to avoid repeats) and a scratch worktree (nothing from /verif)"
NOT_SEEDS = {"C05/A": "RH1_R1", "C06/B": "RH1_R2", "C10/B": "RH1_R3"}
NEEDS4 = {
"C01G": ("allAttributes() result cached in the message; the scoped restore does not invalidate the cache", "a scoped sub-pipeline that changes attributes and calls allAttributes() (JSON formatter), followed by another allAttributes() consumer with no attribute change in between"),
"C01H": ("per-element null check dropped from Pipeline::process (loop over qAsConst(m_handlers))", "a null handler in the list (operator<< / handlers() hand one in): it is dereferenced"),
"C02G": ("installMessageHandler() uninstalls the logger for a moment when called again", "a second installMessageHandler()/configure() while another thread logs between the two qInstallMessageHandler calls: the message goes to the previous handler"),
"C02H": ("LogMessage is registered as a meta-type only when a handler goes asynchronous", "synchronous logger, SignalSink with a receiver in another thread than the logging one: the queued signal cannot copy the message and it is lost"),
"C03G": ("PatternFormatter caches cleaned-up function names keyed by the source pointer", "asynchronous logger, %{func}, messages from different functions whose hand-off buffers are recycled by the allocator: a stale name is printed"),
"C03H": ("hand-off through QMetaObject::invokeMethod with the default (auto) connection type", "a log call issued from the logger's own thread in asynchronous mode: the sink runs inside the logging call, overtaking queued messages"),
"C04G": ("~Logger() stops the worker itself, under the logger lock, before deactivating", "logger destroyed in asynchronous mode with a backlog while a handler emits a Qt log message on the worker: the destructor never returns"),
"C04H": ("ownThread()/ownThreadIsRunning() read m_thread under the handler mutex", "a handler that queries ownThreadIsRunning() while it processes a record after asynchronous mode has ended: self-deadlock / blocked stop"),
"C05H": ("rotate() returns early when the rename fails (the active file is not reopened)", "a rotation whose rename fails (file name within 13 characters of NAME_MAX): every later record is written to a closed device and lost"),
"C06G": ("retention is skipped while today's rotation index is below the limit", "rotated files of an earlier date present and rotations under a new date: up to 2N-2 rotated files exist"),
"C07G": ("the rotating sink keeps the path it was constructed with (unexpanded %{time} placeholder) for rotation", "a path containing %{time ...}: no rotation ever succeeds and the active file grows past the limit"),
"C07H": ("generateRotatedFileName() joins name parts split at the first dot while the readers split at the last", "a log file name with two or more dots: rotated files are not found again, the index restarts, the rename fails, the file outgrows the limit"),
"C08G": ("gzip header gains FNAME whose length is taken from the QString, not from its UTF-8 encoding", "compression on and a non-ASCII file name: the header is truncated mid-name and the stream is not valid gzip"),
"C08H": ("leftover rotated files are compressed at start-up; an existing .gz is taken as proof of completion", "compression interrupted (partial .gz next to the original), restart with compression: the intact original is deleted, the partial .gz kept"),
"C09G": ("the name generator keeps a compound extension together (first-dot split) while the readers split at the last dot", "file name with two or more dots and two rotations on one date: the second rotation reuses index 1"),
"C09H": ("FileSink terminates a torn last line when it opens an existing file (a write before the start-up date is read)", "process killed mid-record, next start on a later day with daily / start-up rotation: yesterday's records are rotated under today's date"),
"C10G": ("retention 'compensates' for a file it could not delete by deleting the next one", "a single failed unlink of the oldest rotated file during cleanup: a newer rotated file is deleted although the limit was not exceeded by it"),
"C11G": ("OwnThreadHandler gains a public flush() (wait for the backlog) that silently overrides SimplePipeline::flush()", "any synchronous logger and qFatal: no sink is flushed before abort()"),
"C11H": ("one-line configure() hides the file sink inside a function handler (to strip colours for the file only)", "one-line configuration and qFatal: the file sink is in no handler list and is never flushed"),
"C12G": ("format() recomputes the remove-after count for tokens whose condition does not hold", "a conditional block ending in an absent %{attr?,M} followed by a literal, message type outside the condition: the literal loses M characters"),
"C12H": ("centre offset computed as width/2 - len/2", "^ alignment, even width, value of odd length: the odd fill character lands on the left"),
"C13G": ("the JSON object is a member kept between messages, reset only when the number of attributes changes", "two consecutive messages with equally many custom attributes under different names: the second record contains the first one's attribute"),
"C13H": ("the built-in `message` attribute is filled from formattedMessage()", "a formatter in front of the JSON formatter on the same message: `message` is the formatted text, the original is lost"),
"C14G": ("%{shortfile} compares and advances raw char pointers using qstrncmp with the base directory's size", "base directory containing a NUL and a file name equal to the part before it: read past the end of the file name"),
"C14H": ("identifier test replaced by a std::bitset<256> look-up indexed by a plain (signed) char", "a function signature with a byte >= 0x80 in front of ::operator: out-of-bounds read"),
"C15G": ("the rule separator is chosen once per rule text (';' or line break, not both)", "a rule text containing both separators (`a=false;b=false\\nc=false`, or a ';'-separated line ending in a line break): rules are glued together and dropped"),
"C15H": ("single-wildcard rules decided by startsWith(prefix) && endsWith(suffix) without a length test", "rule `ab*ba` and category `aba`: matched on overlapping characters"),
"C16G": ("filterLevel() merges adjacent level filters with qMax on the raw QtMsgType values", "filterLevel(QtInfoMsg).filterLevel(QtCriticalMsg): behaves as threshold info"),
"C16H": ("filter(regexp) answers plain-word expressions with startsWith/endsWith/contains/== instead of the regex engine", "`done$` against a message ending in a line break, `^`/`$` against a null text"),
"C17G": ("appendSink names HandlerType::Handler instead of AttrHandler in its left class set", "first appendSink on a pipeline holding only attribute handlers: the sink lands in front of them"),
"C17H": ("appendAttrHandler inserts at a cached count that clear(HandlerType) does not reset", "attribute handlers removed with clear(HandlerType::AttrHandler), then appendAttrHandler: the handler lands behind filters and formatter"),
"C18G": ("timestamp string cached across events while secsTo() == 0", "two messages less than a second apart straddling a second boundary: the second carries the first one's timestamp"),
"C18H": ("level helper replaced by qtMsgTypeToString(); the fingerprint reuses the unmapped name", "a QtCriticalMsg message: level `error`, fingerprint[0] `critical`"),
"C19G": ("INI fallback formatter built with PrettyFormatterPtr::create() (category column width 15) instead of PrettyFormatter::instance() (width 0)", "INI front-end without message_pattern, a record with a non-default category followed by one with a shorter one: extra padding that depends on history"),
"C19H": ("Logger::configureFromIniFile() delegates to the free function without forwarding the group", "Logger::configureFromIniFile(path, group) with a non-default group: the settings are ignored"),
"C20G": ("global logger kept in a Q_GLOBAL_STATIC in the file's unnamed namespace", "header-only program with two source files at -O1 and above: each file has its own Logger"),
"C20H": ("shared helper header included from two #ifdef-guarded source files; the generator keeps the first include only", "header-only with QTLOGGER_SYSLOG and without QTLOGGER_SDJOURNAL: qtlogger.h does not compile"),
}
first = {}
cur = None
for l in open("/tmp/seed4_first.txt"):
    m = re.match(r"== (C\d\d)/([AB])", l)
    if m:
        cur = "%s/%s" % m.groups()
    m = re.search(r"rc=(\d) status=(\w+)", l)
    if m and cur and cur not in first:
        first[cur] = {"1": "detected", "2": "undecided", "0": "missed"}[m.group(1)]
head = subprocess.run(["git", "-C", "/repo", "rev-parse", "--short", "HEAD"], stdout=subprocess.PIPE, text=True).stdout.strip()
n = 0
for pid in ["C%02d" % i for i in range(1, 21)]:
    for v, nv in (("A", "G"), ("B", "H")):
        key = "%s/%s" % (pid, v)
        src = "%s/%s" % (ROOT, key)
        if key in NOT_SEEDS:
            continue
        sid = pid + nv
        ver = open(src + "/verify.txt").read()
        assert "apply: ok" in ver and "build: ok" in ver and "100% tests passed" in ver and re.search(r"demo with change: exit [1-9]", ver) and "demo without change: exit 0" in ver, key
        dst = os.path.join(VERIF, "seeded", sid)
        if os.path.exists(dst):
            shutil.rmtree(dst)
        os.makedirs(dst)
        shutil.copy(src + "/patch.diff", dst + "/patch.diff")
        shutil.copytree(src + "/demo", dst + "/demo", ignore=shutil.ignore_patterns("build*", "*.o", "_build", "__pycache__"))
        if os.path.exists(src + "/notes.md"):
            shutil.copy(src + "/notes.md", dst + "/notes.md")
        vhead_repo = ver.split("/repo HEAD ")[1].split()[0]
        what, needs_ = NEEDS4[sid]
        meta = {"id": sid, "round": 4, "breaks_property": pid, "origin": ORIGIN, "change": what, "needs_to_manifest": needs_,
                "first_verdict_of_my_checks": first.get(key, "?"),
                "confirmed_by_me": {"how": "tools/seedverify.sh: scratch worktree of /repo HEAD %s, git apply, cmake -DQTLOGGER_NO_EXAMPLES=ON + build, ctest (18 programs = the 349 QtTest functions), demo/demo.sh with the change (must fail) and after git checkout (must pass); worktree removed" % vhead_repo,
                                    "log": ver.strip().splitlines()}}
        if os.path.exists(src + "/patch.orig.diff"):
            meta["rebased"] = "the delivered patch was written against an earlier /repo HEAD; re-created on %s and re-verified" % vhead_repo
        json.dump(meta, open(dst + "/meta.json", "w"), indent=1)
        n += 1
for key, name in NOT_SEEDS.items():
    body = open("%s/%s/patch.diff" % (ROOT, key)).read()
    title = open("%s/%s/notes.md" % (ROOT, key)).readline().strip("# \n")
    open(os.path.join(VERIF, "equivalents", name + ".patch"), "w").write(
        "# kind: equivalent\n# why: delivered in seeding round 4 as a breaking change (%s); its demonstration relied on rotated files of a hidden log file not being listed, which /repo 88e8259 repaired: with the repaired listing the rename target never exists and the change leaves behaviour unchanged\n" % title + body)
idx = json.load(open(os.path.join(VERIF, "equivalents", "index.json")))
for pid in ("C05", "C06", "C07", "C09", "C10"):
    for name in NOT_SEEDS.values():
        if name + ".patch" not in idx.setdefault(pid, []):
            idx[pid].append(name + ".patch")
json.dump(idx, open(os.path.join(VERIF, "equivalents", "index.json"), "w"), indent=1)
print("stored", n, "seeds;", len(NOT_SEEDS), "equivalents")
