#!/usr/bin/env python3
"""stores the eighth round of independently seeded changes (/tmp/seed8_out/<PID>/{A,B}) as /verif/seeded/<PID>{M,N}."""
import json, os, shutil, subprocess, sys, re
ROOT = "/tmp/seed8_out"
VERIF = os.path.dirname(os.path.dirname(os.path.abspath(__file__)))
ORIGIN = "independent sub-agent given only the property text, the fourteen earlier changes' one-line summaries (to avoid repeats) and a scratch worktree (nothing from /verif)"
NOT_SEEDS = {}
NEEDS4 = {
"C01O": ("Pipeline caches a 'may modify the message' flag kept up to date in the constructor, append, remove and clear; process() skips the scoped save / restore when it is false", "a scoped SortedPipeline filled only through the typed interface (insertBetweenNearLeft/Right insert through handlers(), bypassing the flag), followed by a sibling sink: the branch's text and attributes leak"),
"C01P": ("the scope handling of Pipeline::process becomes enterScope()/leaveScope() with the two saved values as Pipeline members", "a message that enters a scoped pipeline formatted, then one that enters it unformatted: the second gets the first one's text put back"),
"C02O": ("Logger::configure() installs the message handler before QtLogger::configure(this, ...) builds the pipeline", "a second thread logging during the first configure(): its message is accepted but never reaches the sink created by the same call; append() races with process()"),
"C02P": ("SeqNumberAttr takes the number from a process-wide atomic drawn in the LogMessage constructor", "two producers of which the one that built its record first enters process() second: the sinks see 1,0,2"),
"C03O": ("Sink::process() gets a recursion guard (m_sending) that discards a message delivered while send() is running", "asynchronous mode and a sink that runs a local event loop inside send(): the queued hand-off events are delivered inside it and dropped"),
"C03P": ("qRegisterMetaType<LogMessage> moves from the OwnThreadHandler constructor to the SignalSink constructor, spelled qRegisterMetaType<LogMessage>(\"LogMessage\")", "asynchronous mode with a SignalSink whose receiver lives in another thread: 'Cannot queue arguments of type QtLogger::LogMessage', nothing arrives"),
"C04O": ("the hand-off becomes a mutex-guarded std::deque plus one coalesced wake-up event; the worker re-takes m_mutex after its last decrement", "the stop's 10 ms poll landing between the last delivery and the worker's re-lock: resetOwnThread() holds the mutex across quit()/wait(), the two deadlock"),
"C04P": ("configure() starts with resetConfiguration(): pipeline->clear() before resetOwnThread()", "an asynchronous logger configured a second time while a backlog exists: the stop drains the backlog into an empty pipeline"),
"C05O": ("the directory of the rotated files is resolved once with QFileInfo::canonicalPath() (new m_baseDir)", "a log path whose last component is a symbolic link into another directory, a rotation, a restart: two index series in two directories, 14 of 24 records read back"),
"C05P": ("cached QRegularExpression members for the per-day patterns, invalidated only in checkDailyRotation()", "the active file's day changing without a daily rotation (restart with RotationOnStartup only), Compression, two more rotations: the stale pattern hands out the same index, each .gz overwrites the previous one"),
"C06O": ("the date part of the rotated name through a new rotatedDateString() that uses toString(\"yyyy-MM-dd\") instead of Qt::ISODate", "a process locale with non-Latin digits (ar_EG, fa_IR) and N >= 2: retention's \\d pattern never sees the sink's own files, the count grows without bound"),
"C06P": ("removeOldFiles() counts only successful removals and walks on up the list until that many files are gone", "one old rotated file that cannot be removed: a file among the N-1 newest is deleted in its place"),
"C07O": ("the next rotation index is remembered between rotations; a date later than the last rotation starts at 1 without listing the directory", "RotationDaily with a size limit and rotations dated D2, D1 (a late record), D2: index D2.1 is handed out twice, the rename is refused, the active file grows to 160 bytes at L = 100"),
"C07P": ("the INI front-end passes max_file_count + 1 to the sink ('the number of rotated files to keep')", "max_file_count = 0 (unlimited) with max_file_size > 0: the 0 becomes 1 = 'rotation disabled', the active file collects everything"),
"C08O": ("calculateCRC32() reads into a static char buffer[64 * 1024]", "two RotatingFileSinks with Compression in different threads whose CRC passes overlap: the trailer CRC belongs to other data"),
"C08P": ("when qCompress fails or does not shrink the content the file is written as deflate stored blocks of 64 * 1024 bytes", "incompressible content of at least 65536 bytes in one rotated file: LEN is a 16-bit field, a full block gets LEN = 0, the stream is invalid"),
"C09O": ("the final flush moves from ~RotatingFileSink to the base-class destructor ~FileSink, where the virtual flush() resolves to FileSink::flush()", "RotationDaily, small records of day D still buffered, the sink destroyed on D+1 without an explicit flush, restart on D+1: the day stamp is lost, D and D+1 share app.log"),
"C09P": ("RotatingFileSinkPrivate::flush() returns early when bytesToWrite() == 0, before the day stamp", "a record over 16 KiB (bypasses QFile's buffer) created on D and delivered after midnight as the last record before shutdown, restart on D+1"),
"C10O": ("compressFile() compresses in 4 MiB blocks, one qCompress() per block, the streams concatenated into one gzip member", "Compression with a rotated file larger than 4 MiB: a gzip reader stops after the first block, the original has been unlinked (45100 of 120000 records readable)"),
"C10P": ("generation-aware retention: findRotatedGenerations() keeps generations in a QMap keyed by the string <date>.<index>", "a bounded file count and at least ten rotations of one day: D.10 sorts before D.2, the file just rotated is taken for the oldest and deleted"),
"C11O": ("flush() becomes a virtual of Handler; Pipeline::flush() forwards to its handlers without the null check process() has", "a null HandlerPtr entry in front of the file sink (Pipeline{...} with an optional handler that is off) and a fatal message: SIGSEGV before FileSink::flush()"),
"C11P": ("file sinks with the same path share one QFile through a table of weak pointers; ~FileSink() still closes it", "a second sink for the same path created while the first is alive, then one of them destroyed (re-applied settings): every later record, the fatal one included, goes to a closed device"),
"C12O": ("FileToken, ShortFileToken, FunctionToken and CategoryToken return before applyPadding() when the value is null or empty", "a message without source context (QT_NO_MESSAGELOGCONTEXT, QML) and a width spec: %{file:<12}|%{line:>4} loses its columns"),
"C12P": ("%{appname} and %{pid} become built-in tokens that read the live process values", "a message whose appname / pid attribute differs from the formatting process (relayed records, overridden attribute): the attribute is shadowed; %{pid} and %{pid?} disagree"),
"C13O": ("new JsonFormatter::wellFormed() replaces unpaired surrogates by U+FFFD, applied to keys and string values; its loop does i += 2; continue on top of the for's ++i", "two astral-plane characters directly adjacent (flag emoji, emoji plus skin tone): the second is destroyed, a lone surrogate is left"),
"C13P": ("the LogMessage copy constructor no longer copies file / function (m_file, m_function removed): a copy shares the caller's pointers", "asynchronous mode and source-location strings that do not outlive the logging call (QML console.log): the logger thread writes whatever the buffers hold later"),
"C14O": ("parsePattern() gets a helper lambda keepVerbatim(FormattedToken *dropped, ...) that deletes and nulls a by-value copy of the pointer", "a pattern with a nameless attribute placeholder (%{}, %{?}, %{:<5}): the deleted token is appended, use-after-free on every format(), double free in the destructor"),
"C14P": ("PrettyFormatter colours by category: categoryColors[qAbs(static_cast<int>(qHash(category))) % 7]", "colorize = true and a category whose qHash is exactly 0x80000000 (net.mplifwb): -INT_MIN overflows, index -2, the static table is read out of bounds"),
"C15O": ("adjacent rules with the same outcome are folded into one alternation p1|p2|... anchored as ^ + pattern + \\z (new compactRules())", "two adjacent same-outcome rules and a category that extends one of them as prefix / suffix: app.core=false;app.ui=false drops app.core.io and my.app.ui"),
"C15P": ("the INI front-end replaces ':' by ';' in filter_rules before building the CategoryFilter", "rules arriving through the INI key and a category containing ':': App::Net=false stops filtering App::Net and drops the unrelated category Net"),
"C16O": ("RegExpFilter caches the verdict for the last text; the initial state (null text, 'no match') pretends the empty text has been judged", "an expression that matches the empty string (^$, ^(?!.*password)) and empty texts arriving before any non-empty one: they are dropped"),
"C16P": ("DuplicateFilter keeps the last message per emitting thread (QHash<quint64, QString> keyed by threadId())", "two threads through one filter: thread 1 'A', thread 2 'B', thread 1 'A' drops the third; thread 1 'A', thread 2 'A' passes the second"),
"C17O": ("the typed insertions compare class ranks from a file-local table initialised dynamically at namespace scope", "a typed call from a static initialiser of an application translation unit linked ahead of the (static) library: every rank is still 0, sinks are prepended"),
"C17P": ("the handler class becomes a constructor argument of Handler stored in a member; Pipeline(std::initializer_list, bool) does not pass it", "appendPipeline(Pipeline({...})) followed by setFormatter(): the nested pipeline reports HandlerType::Handler, the formatter lands behind it"),
"C18O": ("contexts.device.name falls back to machine_host_name, which also joins the skip list of extra", "a record carrying host_name and machine_host_name (addSysInfo() + addHostInfo()): machine_host_name appears nowhere in the event"),
"C18P": ("new wellFormedText() applied to the message text; its 'last code unit has no successor' check also fires after a valid final pair", "a message whose last character is non-BMP (a trailing emoji): message.formatted and the fingerprint end in a lone high surrogate + U+FFFD"),
"C19O": ("PrettyFormatter prints fatal records white on red and closes them with ESC[0m ESC[K", "one-line configure() with a path and a fatal record: the strip expression only removes SGR codes, the file keeps a raw ESC[K"),
"C19P": ("CategoryFilter caches the verdict per (category pointer, type)", "filter_rules and two category names at one address over time (asynchronous copies in recycled buffers, a recreated QLoggingCategory): records are filtered by an earlier record's category"),
"C20O": ("SignalSink::send() skips the emit when nobody is connected; the regenerated qtlogger.h sweeps in a git-ignored moc_signalsink.cpp left by an in-source qmake build", "byte comparison with a clean regeneration, or a header-only consumer with two source files: multiple definition of the moc output"),
"C20P": ("qRegisterMetaType<LogMessage> moves into a load-time static in a new logmessage.cpp", "the default static library, a program that does not reference that object file, a LogMessage crossing threads through SignalSink: the library build drops every record, the header-only build delivers them"),
}
import glob as _g
FIRST = {}
for _p in _g.glob(ROOT + "/C??/[AB]/static.txt"):
    _k = _p.split("/")[-3] + "/" + _p.split("/")[-2]
    _own = _k.split("/")[0]
    _rc = [l for l in open(_p) if l.startswith(_own + " rc=")]
    FIRST[_k] = "missed" if not _rc else ("detected" if "rc=1" in _rc[0] else "undecided")
first = FIRST
head = subprocess.run(["git", "-C", "/repo", "rev-parse", "--short", "HEAD"], stdout=subprocess.PIPE, text=True).stdout.strip()
n = 0
for pid in ["C%02d" % i for i in range(1, 21)]:
    for v, nv in (("A", "O"), ("B", "P")):
        key = "%s/%s" % (pid, v)
        src = "%s/%s" % (ROOT, key)
        if key in NOT_SEEDS or not os.path.exists(src + "/patch.diff"):
            continue
        sid = pid + nv
        ver = open(src + "/verify.txt").read()
        assert "apply: ok" in ver and "build: ok" in ver and "100% tests passed" in ver and re.search(r"demo with change: exit [1-9]", ver) and "demo without change: exit 0" in ver, key
        dst = os.path.join(VERIF, "seeded", sid)
        if os.path.exists(dst):
            shutil.rmtree(dst)
        os.makedirs(dst)
        shutil.copy(src + "/patch.diff", dst + "/patch.diff")
        shutil.copytree(src + "/demo", dst + "/demo", ignore=shutil.ignore_patterns("build*", "*.o", "_build", "__pycache__"))
        if os.path.exists(src + "/notes.md"):
            shutil.copy(src + "/notes.md", dst + "/notes.md")
        vhead_repo = ver.split("/repo HEAD ")[1].split()[0]
        what, needs_ = NEEDS4[sid]
        meta = {"id": sid, "round": 8, "breaks_property": pid, "origin": ORIGIN, "change": what, "needs_to_manifest": needs_,
                "first_verdict_of_my_checks": first.get(key, "?"),
                "confirmed_by_me": {"how": "tools/seedverify.sh: scratch worktree of /repo HEAD %s, git apply, cmake -DQTLOGGER_NO_EXAMPLES=ON + build, ctest (18 programs = the 349 QtTest functions), demo/demo.sh with the change (must fail) and after git checkout (must pass); worktree removed" % vhead_repo,
                                    "log": ver.strip().splitlines()}}
        if os.path.exists(src + "/patch.orig.diff"):
            meta["rebased"] = "the delivered patch was written against an earlier /repo HEAD; re-created on %s and re-verified" % vhead_repo
        json.dump(meta, open(dst + "/meta.json", "w"), indent=1)
        n += 1
for key, name in NOT_SEEDS.items():
    body = open("%s/%s/patch.diff" % (ROOT, key)).read()
    title = open("%s/%s/notes.md" % (ROOT, key)).readline().strip("# \n")
    open(os.path.join(VERIF, "equivalents", name + ".patch"), "w").write(
        "# kind: equivalent\n# why: delivered in seeding round 4 as a breaking change (%s); its demonstration relied on rotated files of a hidden log file not being listed, which /repo 88e8259 repaired: with the repaired listing the rename target never exists and the change leaves behaviour unchanged\n" % title + body)
print("stored", n, "seeds;", len(NOT_SEEDS), "equivalents")
