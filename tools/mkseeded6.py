#!/usr/bin/env python3
"""stores the sixth round of independently seeded changes (/tmp/seed6_out/<PID>/{A,B}) as /verif/seeded/<PID>{K,L} (C09 delivered one change)."""
import json, os, shutil, subprocess, sys, re
ROOT = "/tmp/seed6_out"
VERIF = os.path.dirname(os.path.dirname(os.path.abspath(__file__)))
ORIGIN = "independent sub-agent given only the property text, the ten earlier changes' one-line summaries (to avoid repeats) and a scratch worktree (nothing from /verif)"
NOT_SEEDS = {}
NEEDS4 = {
"C01K": ("SimplePipeline overrides process() and skips a scoped sub-pipeline that contains no sink / generic handler", "a scoped branch without output whose handlers are shared or have effects (a SeqNumberAttr used in two branches, a counting filter): they are never run, the sibling branch's sink sees 0,1,2 instead of 1,3,5"),
"C01L": ("FunctionHandler::process runs a copy of its std::function", "a callable that keeps state by value between messages (a counting lambda, a sampler): every message is handled by a fresh copy, the state never advances"),
"C02K": ("sendToFile() hands out one shared file sink per absolute path from a process-wide registry", "an installed synchronous Logger and a bare synchronous pipeline given the same file: both enter the same QFile buffer / rotation state under their own locks only (heap corruption, torn records)"),
"C02L": ("StdOutSink writes each record with fwrite_unlocked / fflush_unlocked", "two independently locked pipelines with a stdout sink logging at once: records lost, duplicated, torn in the stdio buffer"),
"C03K": ("moveToOwnThread() tests m_thread before taking the mutex and does not repeat the test inside", "two threads calling moveToOwnThread() while a third holds the mutex: two logger threads and workers, FIFO lost, the first never stopped"),
"C03L": ("%{time process} printed from a QElapsedTimer read while formatting", "asynchronous mode with a slow sink or a burst: the record shows when it was formatted on the logger thread, not when it was logged"),
"C04K": ("the drain loop replaced by a quit event posted behind the backlog; wait(3000) then terminate()", "a backlog that takes longer than 3 s: the worker is terminated in the middle of a delivery, the rest of the queue is dropped"),
"C04L": ("resetOwnThread() keeps the hand-off mutex locked while it polls the pending count", "a handler that logs through the same logger while the worker delivers a backlog message: it blocks in process(), pending never reaches 0, the stop never returns"),
"C05K": ("retention loop rewritten as `for (i...) if (remove(at(i))) removeAt(i)` (skips every other element)", "more than one file over the limit (limit lowered between runs, keep-all replaced by a limit): a newer rotated file is deleted while an older one is kept"),
"C05L": ("compressFile() deflates the rotated file block by block (qCompress per 1 MiB) and concatenates the pieces", "a rotated file larger than one block: the gzip member holds several complete deflate streams, readers stop after the first and fail the length / CRC check"),
"C06K": ("the rotated-file list kept in memory; the entry of a compressed file never gets its .gz suffix", "Compression and N >= 2: the removal of the listed name fails, the .gz is never deleted, the number of files grows without bound"),
"C06L": ("INI front-end reads integers through intOption(), which maps 0 to the default", "max_file_count = 0 ('keep everything') or max_file_size = 0 ('no size rotation') in the INI file: the defaults 5 / 1 MiB are used, old files are deleted"),
"C07K": ("both directory listings go through a QDir name filter `<base>.*` built from the unescaped base name", "a log called worker[1].log: rotated files are not seen, index 1 is reused, the rename is refused and the active file grows past the limit"),
"C07L": ("RotatingFileSink::send encodes the record once and passes line.size() (without the newline) to the size check", "records that fill the file to exactly L - length: the file ends one byte over the limit (and the check measures local-8-bit bytes)"),
"C08K": ("the CRC table becomes a namespace-scope object filled by a non-constexpr constructor", "a rotation with Compression before the translation unit is initialised (logging configured from another global's constructor, static library): the trailer carries 0xFFFFFFFF, readers reject the archive"),
"C08L": ("compressFile() appends a missing final newline to the data it deflates (CRC and ISIZE still from the file)", "a rotated file whose last record is unterminated (killed writer): the archive's length and CRC do not match its data"),
"C09K": ("rotate() dates the rotated file by the active file's modification time instead of the day of its records", "records of day D written out on D+1 (buffered, flushed by the rotation itself): the rotated file is named after D+1"),
"C10K": ("generateRotatedFileName() shortens the base name to fit NAME_MAX; the two name readers still use the full base name", "a log file name longer than ~230 bytes with Compression: index 1 is reused every time and the previous archive is truncated"),
"C10L": ("a copy + truncate fallback for a refused rename with the status accumulated by &=", "a rename that is refused and a copy that fails (disk full, target exists): the active file is emptied although no copy exists"),
"C11K": ("FileSink::flush(bool sync = false) no longer overrides Sink::flush()", "a synchronous logger with a file sink and qFatal(): the flush walks the sinks but reaches the base-class no-op, the fatal record and the buffered ones are lost"),
"C11L": ("resetOwnThread() clears the worker pointer and joins the thread with the mutex released", "a fatal message from another thread during the join: processed synchronously, but ownThreadIsRunning() is still true so the flush is skipped"),
"C12K": ("the reference point of %{time process} becomes a function-local static pinned when the first formatter is set up", "a formatter set up noticeably after process start, or a message older than the formatter: 0.000 instead of 0.601, negative times"),
"C12L": ("truncation drops a dangling surrogate half; the left / centre branch tests isSurrogate() instead of isHighSurrogate()", "`!` truncation whose cut falls exactly behind an astral character: the complete character is destroyed, the output ends in a lone high surrogate"),
"C13K": ("64-bit integers above 2^53 are written as strings; the test uses toULongLong() for both signednesses", "a negative qlonglong attribute: `\"clock_skew_ms\":\"-42\"` instead of -42"),
"C13L": ("LogMessage copies the text with QString(message.unicode()) (no length)", "a message text containing U+0000: everything behind it is gone from message(), allAttributes() and the JSON record"),
"C14K": ("padded fields written straight into the output buffer; the write pointer is taken before resize()", "a padded field behind a token that overran its length estimate at a total length where resize() reallocates: write into freed memory"),
"C14L": ("Sentry fingerprint from the first non-empty line: split(SkipEmptyParts).first()", "a message consisting of line breaks only: first() on an empty list, null dereference"),
"C15K": ("CategoryFilter memoises verdicts in a QHash keyed by the category pointer", "two different category names at one address (queued copies behind the hand-off, a reused buffer): the second inherits the first one's verdict"),
"C15L": ("a combined 'is this category mentioned at all' regular expression as a fast path, never checked with isValid()", "a rule list whose patterns total more than 64K characters: the combined pattern does not compile, every message passes"),
"C16K": ("the INI front-end trims filter_rules and regexp_filter", "regexp_filter = \"error: \" or \" - \": the filter is built from another expression than the configured one"),
"C16L": ("AttrHandler::process returns early when the message is already formatted", "a formatter ahead of a SeqNumberAttr in the same scope (quick configuration plus a sub-pipeline): messages pass without a number"),
"C17K": ("insertBetweenNearRight rewritten with index loops; the backward search stops at `> 0`", "setFormatter() on a non-empty pipeline without attribute handler or filter: [Sink, Formatter, Sink]"),
"C17L": ("appendFilter() places a stateless filter in front of the first filter that reports isStateful()", "appendFilter(DuplicateFilter) then appendFilter(LevelFilter): same-class insertion order is not kept"),
"C18K": ("custom attributes converted with QVariant::toJsonValue() instead of QJsonValue::fromVariant()", "an attribute holding a QDateTime, QUrl, QUuid, QByteArray ...: Undefined removes the key, the attribute appears nowhere in the event"),
"C18L": ("event ids from a default-constructed (seed 1) thread_local QRandomGenerator", "two threads or two runs: the same sequence of event ids, Sentry drops the duplicates"),
"C19K": ("the INI filter_rules value has every ':' replaced by ';'", "a rule for a category containing a colon (app::net.debug=false): torn into other rules, the wrong records are filtered"),
"C19L": ("the one-line front-end picks the rotating sink with testFlag(RotationOnStartup | RotationDaily)", "maxFileSize = 0 and exactly one of the two options: a plain FileSink is built, the option is ignored"),
"C20K": ("instance() accessors moved out of the class bodies; PrettyFormatter::instance() lacks QTLOGGER_DECL_SPEC", "header-only program of two source files: multiple definition of PrettyFormatter::instance()"),
"C20L": ("a Q_OS_* ladder at the top of filesink.cpp, above the first Qt include, chooses the sync call", "library: the ladder sees no Q_OS macro and falls through to 0; single header: fdatasync() on every flush, flush() false on /dev/null"),
}
FIRST = {"C01/A": "missed", "C01/B": "detected", "C02/A": "missed", "C02/B": "missed", "C03/A": "missed", "C03/B": "missed", "C04/A": "undecided", "C04/B": "missed", "C05/A": "missed", "C05/B": "missed",
         "C06/A": "detected", "C06/B": "missed", "C07/A": "missed", "C07/B": "undecided", "C08/A": "undecided", "C08/B": "detected", "C09/A": "detected", "C10/A": "missed", "C10/B": "detected",
         "C11/A": "detected", "C11/B": "missed", "C12/A": "missed", "C12/B": "missed", "C13/A": "detected", "C13/B": "missed", "C14/A": "detected", "C14/B": "missed", "C15/A": "undecided", "C15/B": "detected",
         "C16/A": "missed", "C16/B": "missed", "C17/A": "undecided", "C17/B": "detected", "C18/A": "undecided", "C18/B": "detected", "C19/A": "missed", "C19/B": "detected", "C20/A": "detected", "C20/B": "detected"}
first = FIRST
head = subprocess.run(["git", "-C", "/repo", "rev-parse", "--short", "HEAD"], stdout=subprocess.PIPE, text=True).stdout.strip()
n = 0
for pid in ["C%02d" % i for i in range(1, 21)]:
    for v, nv in (("A", "K"), ("B", "L")):
        key = "%s/%s" % (pid, v)
        src = "%s/%s" % (ROOT, key)
        if key in NOT_SEEDS or not os.path.exists(src + "/patch.diff"):
            continue
        sid = pid + nv
        ver = open(src + "/verify.txt").read()
        assert "apply: ok" in ver and "build: ok" in ver and "100% tests passed" in ver and re.search(r"demo with change: exit [1-9]", ver) and "demo without change: exit 0" in ver, key
        dst = os.path.join(VERIF, "seeded", sid)
        if os.path.exists(dst):
            shutil.rmtree(dst)
        os.makedirs(dst)
        shutil.copy(src + "/patch.diff", dst + "/patch.diff")
        shutil.copytree(src + "/demo", dst + "/demo", ignore=shutil.ignore_patterns("build*", "*.o", "_build", "__pycache__"))
        if os.path.exists(src + "/notes.md"):
            shutil.copy(src + "/notes.md", dst + "/notes.md")
        vhead_repo = ver.split("/repo HEAD ")[1].split()[0]
        what, needs_ = NEEDS4[sid]
        meta = {"id": sid, "round": 6, "breaks_property": pid, "origin": ORIGIN, "change": what, "needs_to_manifest": needs_,
                "first_verdict_of_my_checks": first.get(key, "?"),
                "confirmed_by_me": {"how": "tools/seedverify.sh: scratch worktree of /repo HEAD %s, git apply, cmake -DQTLOGGER_NO_EXAMPLES=ON + build, ctest (18 programs = the 349 QtTest functions), demo/demo.sh with the change (must fail) and after git checkout (must pass); worktree removed" % vhead_repo,
                                    "log": ver.strip().splitlines()}}
        if os.path.exists(src + "/patch.orig.diff"):
            meta["rebased"] = "the delivered patch was written against an earlier /repo HEAD; re-created on %s and re-verified" % vhead_repo
        json.dump(meta, open(dst + "/meta.json", "w"), indent=1)
        n += 1
for key, name in NOT_SEEDS.items():
    body = open("%s/%s/patch.diff" % (ROOT, key)).read()
    title = open("%s/%s/notes.md" % (ROOT, key)).readline().strip("# \n")
    open(os.path.join(VERIF, "equivalents", name + ".patch"), "w").write(
        "# kind: equivalent\n# why: delivered in seeding round 4 as a breaking change (%s); its demonstration relied on rotated files of a hidden log file not being listed, which /repo 88e8259 repaired: with the repaired listing the rename target never exists and the change leaves behaviour unchanged\n" % title + body)
print("stored", n, "seeds;", len(NOT_SEEDS), "equivalents")
