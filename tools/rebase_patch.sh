#!/bin/bash
# rebase_patch.sh <patch> <old-commit>: re-create a stored patch against /repo's HEAD after a "fix:" commit moved the lines it touches.
# The patch is applied to a scratch worktree at <old-commit>, committed there, cherry-picked onto HEAD (3-way), the single header is
# regenerated when the patch touched it, and the patch file is rewritten (leading '#' comment lines are kept).  Exit 1 on conflict.
set -e
P=$(readlink -f "$1"); OLD=$2
W=$(mktemp -d /tmp/rebase.XXXXXX); rmdir "$W"
git -C /repo worktree add -q -f --detach "$W" "$OLD"
trap 'git -C /repo worktree remove --force "$W" >/dev/null 2>&1; git -C /repo worktree prune' EXIT
cd "$W"
patch -p1 -s -f --no-backup-if-mismatch -i "$P"
touched_header=0; git status --short | grep -q " qtlogger.h$" && touched_header=1
git add -A; git -c user.name=x -c user.email=x@x commit -qm tmp
C=$(git rev-parse HEAD)
git checkout -q --detach $(git -C /repo rev-parse HEAD)
if ! git -c user.name=x -c user.email=x@x cherry-pick -n $C >/dev/null 2>&1; then
  # conflicts in the generated header are expected: take any side, it is regenerated below
  if git status --short | grep -v "qtlogger.h$" | grep -q "^\(UU\|AA\|DU\|UD\)"; then echo "CONFLICT $P"; exit 1; fi
  git checkout --theirs qtlogger.h 2>/dev/null || true
fi
if [ $touched_header = 1 ]; then python3 tools/gen_qtlogger.h.py >/dev/null 2>&1; fi
git add -A
{ grep '^#' "$P" | awk 'NR==FNR && /^# (kind|expect|why)/' ; git diff --cached HEAD; } > "$P.new"
mv "$P.new" "$P"
echo "rebased $P"
