#!/usr/bin/env python3
"""builds /verif/seeded/<PID>{C,D} from the second round of independently seeded changes (/tmp/seed2_out/<PID>/{A,B})
and refreshes the static_checks block of every seed's meta.json from the matrices (tools/seedmatrix.py).
usage: mkseeded2.py [--refresh-only]"""
import json, os, shutil, subprocess, sys
NEEDS = {
"C01C": ("Pipeline::append() silently drops a handler instance that is already in the pipeline", "the same handler instance at two positions of one pipeline (formatByQt() twice hands out the shared instance; one sink behind two formatters)"),
"C01D": ("LogMessage::updateAttributes() merges the smaller hash into the larger one (precedence reversed when the incoming set is larger)", "two attribute handlers on one path setting the same key, the later one returning more entries than the message holds"),
"C02C": ("re-entrancy guard in Logger::messageHandler that is one flag for all threads", "two producer threads whose calls overlap in messageHandler(): the second one's message is dropped / bypasses the lock"),
"C02D": ("bounded wait (tryLock 1 s) for the logger mutex in processMessage; on timeout the message is handed to the previously installed handler instead of the pipeline", "two threads and a handler run longer than 1 s (or many threads into a slow sink)"),
"C03C": ("resetOwnThread() stops queueing (worker pointer cleared) before it drains", "a log call from another thread while resetOwnThread() sits in its drain loop: it overtakes queued messages on the caller's thread"),
"C03D": ("fatal messages are delivered by the caller in asynchronous mode", "a QtFatalMsg message in asynchronous mode: sink code runs on the calling thread, concurrently with the worker"),
"C04C": ("aboutToQuit hook connected once per handler (flag) instead of once per thread period", "moveToOwnThread, reset, event loop spin, moveToOwnThread again, quit with a backlog: the second period is never stopped"),
"C04D": ("the global logger becomes a leaked singleton (never destroyed)", "asynchronous global logger and a process that leaves without aboutToQuit (no event loop run): queued messages are lost at exit"),
"C05C": ("the active file is dated in one place by the wall clock (size rotation re-dates)", "RotationDaily + size limit and a backlog whose message dates differ from the wall-clock date at rotation: records land in files out of order"),
"C05D": ("compressFile reads the rotated file once in text mode", "compression on and a record containing '\\r': the byte is dropped from the compressed file"),
"C06C": ("next rotation index found by probing upwards from a cached last index", "N >= 2, >= N rotations on one day, restart on the same day, one more rotation: the newest rotated file is overwritten/deleted"),
"C06D": ("the maxFileCount == 1 'rotation disabled' guard moved to the size trigger only", "maxFileCount == 1 with RotationOnStartup or RotationDaily: a rotation happens and retention then keeps 2 files / deletes the fresh one"),
"C07C": ("an oversized record no longer rotates a non-empty file", "a record longer than the limit sent while the active file already holds a record: the file exceeds L with more than one record"),
"C07D": ("next rotation index taken from the name-sorted listing", ">= 10 rotations carrying the same date without compression: the rename fails and the active file grows past L"),
"C08C": ("rotated log opened in text mode for compression", "a rotated log containing a '\\r' byte"),
"C08D": ("CRC-32 loop factored into a helper that sign-extends the byte", "any byte >= 0x80 in the rotated file: gzip reports a CRC error"),
"C09C": ("the size rotation re-dates the active file by the wall clock", "RotationDaily + size limit, a record created before midnight delivered after midnight that triggers the size rotation"),
"C09D": ("retention makes room (removeOldFiles(1)) before the next index is computed", "maxFileCount == 2 and two rotations on one date: the rotated name app.<day>.1.log is reused"),
"C10C": ("retention cleanup deletes the uncompressed original when a .gz twin exists", "a crash inside compressFile() leaving a partial .gz plus the original, restart, one more rotation: the only intact copy is deleted"),
"C10D": ("retention cleanup moved in front of the rename", "a rotation whose rename fails while maxFileCount-1 rotated files exist: a rotated file is deleted although nothing was added"),
"C11C": ("nested pipelines are flushed through a virtual flush() only SimplePipeline has (dynamicCast<SimplePipeline>)", "a file sink inside a nested plain Pipeline / SortedPipeline and a fatal message"),
"C11D": ("a fatal message waits for the logger mutex for 2 s only and is dropped on timeout", "another thread inside processMessage for more than 2 s at the moment of the fatal message"),
"C12C": ("remove-after count of an optional attribute bound to the next literal at parse time", "%{a?N,M} as the last token of a conditional block followed by unconditional text, attribute absent, message type outside the condition"),
"C12D": ("AttributeToken tests 'has a value' with QVariant::isNull()", "an attribute that is set to a null QString / QByteArray"),
"C13C": ("allAttributes() memoised; the cache is not dropped by updateAttributes() on Qt >= 5.15", "format to JSON, run an attribute handler, format to JSON again on the same message"),
"C13D": ("indented JSON re-indented by a byte-level replace of four spaces", "indented mode and a text with four or more consecutive spaces"),
"C14C": ("template stripping continues in front of a lambda marker (no progress)", "%{func} and a function text whose cleaned name starts with <lambda...>: format() never returns"),
"C14D": ("CategoryFilter matches with a hand-written recursive wildcard matcher", "a rule with ~24 wildcards against a 120-character category that almost matches: length^k steps"),
"C15C": ("type condition of a rule stored as a bit mask whose 'all types' omits fatal", "a QtFatalMsg message whose category is switched off by an untyped rule"),
"C15D": ("rule text parsed in one multi-line pass; fragments of adjacent malformed lines fuse into a rule", "two consecutive malformed fragments that complete each other (category line followed by '=false')"),
"C16C": ("SeqNumberAttr keeps a number the message already has", "two numbering handlers of the same name on one path seeing different sub-sequences"),
"C16D": ("SeqNumberAttr takes its numbers from one process-wide atomic counter", "two SeqNumberAttr instances that both see messages: each sequence has gaps"),
"C17C": ("setFormatter installs the new formatter before dropping the old one", "setFormatter(f) while f itself is the installed formatter: the pipeline ends with no formatter"),
"C17D": ("appendPipeline = insertBetweenNearLeft({Sink, Pipeline}, {})", "appendPipeline on a pipeline that holds attribute handlers / filters / a formatter but no sink and no nested pipeline"),
"C18C": ("extra built by fromVariantHash + removals; the formatter's own line/file/thread_id written afterwards", "a custom attribute named file, line or thread_id"),
"C18D": ("message.formatted taken from formattedMessage()", "a record that was already formatted by an earlier formatter when it reaches the Sentry formatter"),
"C19C": ("INI front-end: rotate_on_startup loses its default of true", "configureFromIniFile with a path and no rotate_on_startup key, second start over a non-empty log"),
"C19D": ("restorePreviousMessageHandler() trusts the library's own active-logger state", "install, foreign qInstallMessageHandler(F), restorePreviousMessageHandler(): F is displaced"),
"C20C": ("two file-local helpers with one name in two .cpp files meet in the amalgamation (overload resolution changes); header regenerated exactly", "single-header build, SentryFormatter and a source path with backslashes only"),
"C20D": ("an X-macro table included twice in the sources, expanded once by the generator", "single-header build and %{if-info|warning|critical} or a typed category rule"),
}
ROUND2 = "/tmp/seed2_out"
VERIF = os.path.dirname(os.path.dirname(os.path.abspath(__file__)))
head = subprocess.run(["git", "-C", "/repo", "rev-parse", "--short", "HEAD"], stdout=subprocess.PIPE, text=True).stdout.strip()
vhead = subprocess.run(["git", "-C", VERIF, "rev-parse", "--short", "HEAD"], stdout=subprocess.PIPE, text=True).stdout.strip()


def static_block(m, pid):
    return {"at_verif_commit": vhead, "own_property": {"rc": m[pid]["rc"], "violated": m[pid]["keys"]},
            "also_reported_by": {p: x["keys"] for p, x in m.items() if p != pid and x["rc"] == 1},
            "cannot_decide": [p for p, x in m.items() if x["rc"] == 2]}


if "--refresh-only" not in sys.argv:
    matrix = json.load(open(ROUND2 + "/matrix.json"))
    for pid in ["C%02d" % i for i in range(1, 21)]:
        for v, nv in (("A", "C"), ("B", "D")):
            src = "%s/%s/%s" % (ROUND2, pid, v)
            sid = pid + nv
            dst = os.path.join(VERIF, "seeded", sid)
            if os.path.exists(dst):
                shutil.rmtree(dst)
            os.makedirs(dst)
            shutil.copy(src + "/patch.diff", dst + "/patch.diff")
            shutil.copytree(src + "/demo", dst + "/demo", ignore=shutil.ignore_patterns("build*", "*.o", "_build", "__pycache__"))
            if os.path.exists(src + "/notes.md"):
                shutil.copy(src + "/notes.md", dst + "/notes.md")
            ver = open(src + "/verify.txt").read()
            what, needs = NEEDS[sid]
            meta = {
                "id": sid, "round": 2, "breaks_property": pid, "origin": "independent sub-agent given only the property text, the two earlier changes' one-line summaries (to avoid repeats) and a scratch worktree (nothing from /verif)",
                "change": what, "needs_to_manifest": needs,
                "confirmed_by_me": {
                    "how": "tools/seedverify.sh: scratch worktree of /repo HEAD %s, git apply, cmake -DQTLOGGER_NO_EXAMPLES=ON + build, ctest (18 programs = the 349 QtTest functions), demo/demo.sh with the change (must fail) and after git checkout (must pass); worktree removed" % head,
                    "log": ver.strip().splitlines(),
                },
                "static_checks": static_block(matrix["%s/%s" % (pid, v)], pid),
            }
            json.dump(meta, open(dst + "/meta.json", "w"), indent=1)
# refresh round 1 from its matrix when present
m1 = "/tmp/seed_out/matrix.json"
if os.path.exists(m1):
    matrix = json.load(open(m1))
    for pid in ["C%02d" % i for i in range(1, 21)]:
        for v in "AB":
            mp = os.path.join(VERIF, "seeded", pid + v, "meta.json")
            if os.path.exists(mp) and "%s/%s" % (pid, v) in matrix:
                meta = json.load(open(mp))
                meta.setdefault("round", 1)
                meta["static_checks"] = static_block(matrix["%s/%s" % (pid, v)], pid)
                json.dump(meta, open(mp, "w"), indent=1)
print("done")
