#!/usr/bin/env python3
"""builds /verif/seeded/<PID>{C,D} from the second round of independently seeded changes (/tmp/seed2_out/<PID>/{A,B})
and refreshes the static_checks block of every seed's meta.json from the matrices (tools/seedmatrix.py).
usage: mkseeded2.py [--refresh-only]"""
import json, os, shutil, subprocess, sys
NEEDS = {
"C01C": ("Pipeline::append() silently drops a handler instance that is already in the pipeline", "the same handler instance at two positions of one pipeline (formatByQt() twice hands out the shared instance; one sink behind two formatters)"),
"C01D": ("LogMessage::updateAttributes() merges the smaller hash into the larger one (precedence reversed when the incoming set is larger)", "two attribute handlers on one path setting the same key, the later one returning more entries than the message holds"),
"C02C": ("re-entrancy guard in Logger::messageHandler that is one flag for all threads", "two producer threads whose calls overlap in messageHandler(): the second one's message is dropped / bypasses the lock"),
"C02D": ("bounded wait (tryLock 1 s) for the logger mutex in processMessage; on timeout the message is handed to the previously installed handler instead of the pipeline", "two threads and a handler run longer than 1 s (or many threads into a slow sink)"),
"C03C": ("resetOwnThread() stops queueing (worker pointer cleared) before it drains", "a log call from another thread while resetOwnThread() sits in its drain loop: it overtakes queued messages on the caller's thread"),
"C03D": ("fatal messages are delivered by the caller in asynchronous mode", "a QtFatalMsg message in asynchronous mode: sink code runs on the calling thread, concurrently with the worker"),
"C04C": ("aboutToQuit hook connected once per handler (flag) instead of once per thread period", "moveToOwnThread, reset, event loop spin, moveToOwnThread again, quit with a backlog: the second period is never stopped"),
"C04D": ("the global logger becomes a leaked singleton (never destroyed)", "asynchronous global logger and a process that leaves without aboutToQuit (no event loop run): queued messages are lost at exit"),
"C05C": ("the active file is dated in one place by the wall clock (size rotation re-dates)", "RotationDaily + size limit and a backlog whose message dates differ from the wall-clock date at rotation: records land in files out of order"),
"C05D": ("compressFile reads the rotated file once in text mode", "compression on and a record containing '\\r': the byte is dropped from the compressed file"),
"C06C": ("next rotation index found by probing upwards from a cached last index", "N >= 2, >= N rotations on one day, restart on the same day, one more rotation: the newest rotated file is overwritten/deleted"),
"C06D": ("the maxFileCount == 1 'rotation disabled' guard moved to the size trigger only", "maxFileCount == 1 with RotationOnStartup or RotationDaily: a rotation happens and retention then keeps 2 files / deletes the fresh one"),
"C07C": ("an oversized record no longer rotates a non-empty file", "a record longer than the limit sent while the active file already holds a record: the file exceeds L with more than one record"),
"C07D": ("next rotation index taken from the name-sorted listing", ">= 10 rotations carrying the same date without compression: the rename fails and the active file grows past L"),
"C08C": ("rotated log opened in text mode for compression", "a rotated log containing a '\\r' byte"),
"C08D": ("CRC-32 loop factored into a helper that sign-extends the byte", "any byte >= 0x80 in the rotated file: gzip reports a CRC error"),
"C09C": ("the size rotation re-dates the active file by the wall clock", "RotationDaily + size limit, a record created before midnight delivered after midnight that triggers the size rotation"),
"C09D": ("retention makes room (removeOldFiles(1)) before the next index is computed", "maxFileCount == 2 and two rotations on one date: the rotated name app.<day>.1.log is reused"),
"C10C": ("retention cleanup deletes the uncompressed original when a .gz twin exists", "a crash inside compressFile() leaving a partial .gz plus the original, restart, one more rotation: the only intact copy is deleted"),
"C10D": ("retention cleanup moved in front of the rename", "a rotation whose rename fails while maxFileCount-1 rotated files exist: a rotated file is deleted although nothing was added"),
"C11C": ("nested pipelines are flushed through a virtual flush() only SimplePipeline has (dynamicCast<SimplePipeline>)", "a file sink inside a nested plain Pipeline / SortedPipeline and a fatal message"),
"C11D": ("a fatal message waits for the logger mutex for 2 s only and is dropped on timeout", "another thread inside processMessage for more than 2 s at the moment of the fatal message"),
"C12C": ("remove-after count of an optional attribute bound to the next literal at parse time", "%{a?N,M} as the last token of a conditional block followed by unconditional text, attribute absent, message type outside the condition"),
"C12D": ("AttributeToken tests 'has a value' with QVariant::isNull()", "an attribute that is set to a null QString / QByteArray"),
"C13C": ("allAttributes() memoised; the cache is not dropped by updateAttributes() on Qt >= 5.15", "format to JSON, run an attribute handler, format to JSON again on the same message"),
"C13D": ("indented JSON re-indented by a byte-level replace of four spaces", "indented mode and a text with four or more consecutive spaces"),
"C14C": ("template stripping continues in front of a lambda marker (no progress)", "%{func} and a function text whose cleaned name starts with <lambda...>: format() never returns"),
"C14D": ("CategoryFilter matches with a hand-written recursive wildcard matcher", "a rule with ~24 wildcards against a 120-character category that almost matches: length^k steps"),
"C15C": ("type condition of a rule stored as a bit mask whose 'all types' omits fatal", "a QtFatalMsg message whose category is switched off by an untyped rule"),
"C15D": ("rule text parsed in one multi-line pass; fragments of adjacent malformed lines fuse into a rule", "two consecutive malformed fragments that complete each other (category line followed by '=false')"),
"C16C": ("SeqNumberAttr keeps a number the message already has", "two numbering handlers of the same name on one path seeing different sub-sequences"),
"C16D": ("SeqNumberAttr takes its numbers from one process-wide atomic counter", "two SeqNumberAttr instances that both see messages: each sequence has gaps"),
"C17C": ("setFormatter installs the new formatter before dropping the old one", "setFormatter(f) while f itself is the installed formatter: the pipeline ends with no formatter"),
"C17D": ("appendPipeline = insertBetweenNearLeft({Sink, Pipeline}, {})", "appendPipeline on a pipeline that holds attribute handlers / filters / a formatter but no sink and no nested pipeline"),
"C18C": ("extra built by fromVariantHash + removals; the formatter's own line/file/thread_id written afterwards", "a custom attribute named file, line or thread_id"),
"C18D": ("message.formatted taken from formattedMessage()", "a record that was already formatted by an earlier formatter when it reaches the Sentry formatter"),
"C19C": ("INI front-end: rotate_on_startup loses its default of true", "configureFromIniFile with a path and no rotate_on_startup key, second start over a non-empty log"),
"C19D": ("restorePreviousMessageHandler() trusts the library's own active-logger state", "install, foreign qInstallMessageHandler(F), restorePreviousMessageHandler(): F is displaced"),
"C20C": ("two file-local helpers with one name in two .cpp files meet in the amalgamation (overload resolution changes); header regenerated exactly", "single-header build, SentryFormatter and a source path with backslashes only"),
"C20D": ("an X-macro table included twice in the sources, expanded once by the generator", "single-header build and %{if-info|warning|critical} or a typed category rule"),
}

NEEDS3 = {
"C01E": ("SimplePipeline::pipeline(): sub-pipelines below the first nesting level are created unscoped", "a sub-pipeline inside a sub-pipeline (depth >= 2) that formats or adds attributes, followed by siblings / later handlers of the enclosing pipeline"),
"C01F": ("SimplePipeline attribute helpers (addSeqNumber, addAppInfo, attrHandler, ...) use the sorted typed insert instead of append", "an attribute handler added after a filter, formatter, sink or sub-pipeline"),
"C02E": ("resetOwnThread() clears m_worker (back to synchronous mode) in front of the drain loop", "reset with a backlog while another thread logs: caller-side and worker-side runs overlap"),
"C02F": ("~Logger un-publishes the active logger with check-then-store instead of compare-and-swap", "old logger destroyed on one thread while another thread installs a new one: every later message is dropped"),
"C03E": ("hand-off event priority depends on the message severity", "messages of mixed severity and a backlog: warnings overtake queued debug messages"),
"C03F": ("LogMessage::qthreadptr() returns QThread::currentThread() of the reading thread", "asynchronous mode and a consumer of qthreadptr() (%{qthreadptr})"),
"C04E": ("process() builds the event before taking the mutex and branches on 'have an event' (unlocked mode check)", "a stop completing between the unlocked check and the lock: event posted to a null worker, pending count stuck"),
"C04F": ("the destructor zeroes the pending count when the worker made no progress for 3 s", "one delivery stalling longer than 3 s at destruction with messages queued behind it"),
"C05E": ("rotate() reopens the active file with Truncate instead of Append", "a rotation whose rename fails: the reopen wipes the file that is still in place"),
"C05F": ("generateRotatedFileName/findRotatedFiles split the name at the first dot, findNextIndexForDate still at the last", "a log file name with more than one dot, Compression and two rotations on one day: the .gz is overwritten"),
"C06E": ("removeOldFiles() removes at most one file per call", "a directory that already holds more rotated files than the limit (limit lowered between runs)"),
"C06F": ("retention hoisted out of rotate() into rotateIfNeeded(); the start-up rotation no longer cleans up", "frequent restarts with RotationOnStartup that never reach the size limit"),
"C07E": ("a record dated before the current file returns right after the daily check (size check skipped)", "RotationDaily + size limit and records older than the file's date"),
"C07F": ("IODeviceSink::send indents continuation lines (\\n -> \\n\\t); the rotating sink measures the unindented text", "a multi-line record arriving when the space left is within a few bytes of its measured size"),
"C08E": ("checkSizeRotation reads pos() instead of size() (no flush) and rotate() closes the file only before the reopen", "Compression and a size-triggered rotation: the .gz is made from the on-disk prefix, the buffered tail is lost"),
"C08F": ("compressFile reads into a grow-only member buffer and compresses the whole buffer", "a rotated file shorter than an earlier one of the same sink: stale tail appended, CRC mismatch"),
"C09E": ("the emptiness guard of the daily rotation reads a size counter only the size-limit path maintains", "RotationDaily without a size limit across a day change: records of several days share one file"),
"C09F": ("retention orders the rotated files by (index, date, path)", "a day change while older-day files with higher indices are kept: the new day's .1 is deleted and index 1 is reused"),
"C10E": ("the file reopened after a rotation is opened WriteOnly|Text (truncating)", "a single failed rename during any rotation"),
"C10F": ("next rotation index derived from the newest rotated file only", "RotationDaily|Compression with record days arriving out of order: an existing .gz of the earlier day is overwritten"),
"C11E": ("FileSink::flush() skips the flush when the write position equals the position of the last flush", "a rotating sink, a rotation, and the new file reaching exactly the old position at the fatal message (crash loop)"),
"C11F": ("FileSink::flush() refuses to flush from a thread other than the one the QFile lives in", "qFatal() raised from a thread other than the one that configured the logger"),
"C12E": ("%{shortfile} caches the shortened path keyed on the const char * of the file name", "two messages with different file names at the same address (reused buffers, QML)"),
"C12F": ("bulk copy of literal runs up to the next '%{' with replace('%%', '%')", "'%%{' preceded by plain text in the same literal run"),
"C13E": ("string values that parse as ISO dates are rewritten as date-times (QVariant::toDateTime on every value)", "a message text or string attribute that is entirely an ISO-8601 date"),
"C13F": ("JsonFormatter::instance(compact) keeps one static instance; formatToJson uses it", "an indented JSON formatter requested first, a compact one later in the same process"),
"C14E": ("PrettyFormatter pads columns from a fixed 32-blank buffer with append(ptr, n)", "maxCategoryWidth above 32 and a long category followed by a short one: heap over-read"),
"C14F": ("format-spec width parsed digit by digit (width = width*10 + digit), clamp after the loop", "a width of 10 or more digits >= 2^31: signed overflow"),
"C15E": ("the message category is decoded with fromLatin1 in filter()", "a non-ASCII category name and a rule spelling the non-ASCII part literally"),
"C15F": ("the rule-line grammar gets CaseInsensitiveOption", "a category whose last component is a level word in another case (net.Info), or a value written TRUE/FALSE"),
"C16E": ("Filter::process returns type == QtFatalMsg || filter(lmsg)", "a fatal message a regexp / duplicate filter would drop; the duplicate filter's memory goes stale"),
"C16F": ("RegExpFilter matches formattedMessage() instead of message()", "a formatter running before the filter and an anchored expression"),
"C17E": ("insertBetweenNearLeft removes an earlier occurrence of the handler after computing the insertion index", "the same handler instance re-appended while a later class is present"),
"C17F": ("insertion position looked up with indexOf(*it) + 1 in a forward loop", "a handler instance stored twice with another handler in between, then a typed append"),
"C18E": ("default category decided with isNull() instead of isEmpty()", "a message whose context carries an empty, non-null category"),
"C18F": ("fingerprint prefix cut on the UTF-8 bytes (toUtf8().left(100))", "a message longer than 100 bytes with non-ASCII text in its first 100 characters"),
"C19E": ("one function-local static caches the isatty() answer for both console streams", "stdout and stderr differing in being a terminal, both with colour Auto"),
"C19F": ("rename slip in the INI console block: stderr sink guarded by useStdErr || stdOutColor", "stdout_color=true without stderr, or stderr_color=true without stderr=true"),
"C20E": ("flush-on-fatal wrapped in #ifdef QTLOGGER_FLUSH_ON_FATAL that only the CMake/qmake builds define", "header-only consumer, file sink, qFatal: the repair is compiled out of the single header"),
"C20F": ("const auto prefix = group + QLatin1Char('/') in configure(QSettings)", "header-only consumer compiling with QT_USE_QSTRINGBUILDER: the proxy references a dead temporary, the INI section is ignored"),
}
ROUND2 = "/tmp/seed2_out"
ROUND3 = "/tmp/seed3_out"
VERIF = os.path.dirname(os.path.dirname(os.path.abspath(__file__)))
head = subprocess.run(["git", "-C", "/repo", "rev-parse", "--short", "HEAD"], stdout=subprocess.PIPE, text=True).stdout.strip()
vhead = subprocess.run(["git", "-C", VERIF, "rev-parse", "--short", "HEAD"], stdout=subprocess.PIPE, text=True).stdout.strip()


def static_block(m, pid):
    return {"at_verif_commit": vhead, "own_property": {"rc": m[pid]["rc"], "violated": m[pid]["keys"]},
            "also_reported_by": {p: x["keys"] for p, x in m.items() if p != pid and x["rc"] == 1},
            "cannot_decide": [p for p, x in m.items() if x["rc"] == 2]}


if "--refresh-only" not in sys.argv:
    for root, rnd, letters, needs, origin in (
            (ROUND2, 2, (("A", "C"), ("B", "D")), NEEDS, "independent sub-agent given only the property text, the two earlier changes' one-line summaries (to avoid repeats) and a scratch worktree (nothing from /verif)"),
            (ROUND3, 3, (("A", "E"), ("B", "F")), NEEDS3, "independent sub-agent given only the property text, the four earlier changes' one-line summaries (to avoid repeats) and a scratch worktree (nothing from /verif)")):
        if not os.path.exists(root + "/matrix.json"):
            continue
        matrix = json.load(open(root + "/matrix.json"))
        for pid in ["C%02d" % i for i in range(1, 21)]:
            for v, nv in letters:
                src = "%s/%s/%s" % (root, pid, v)
                sid = pid + nv
                if not os.path.exists(src + "/verify.txt"):
                    continue
                dst = os.path.join(VERIF, "seeded", sid)
                keep = None
                if os.path.exists(dst + "/meta.json"):
                    old = json.load(open(dst + "/meta.json"))
                    if old.get("rebased"):
                        keep = old     # patch was re-created on a later /repo HEAD: keep it and its verification log
                if keep is None:
                    if os.path.exists(dst):
                        shutil.rmtree(dst)
                    os.makedirs(dst)
                    shutil.copy(src + "/patch.diff", dst + "/patch.diff")
                    shutil.copytree(src + "/demo", dst + "/demo", ignore=shutil.ignore_patterns("build*", "*.o", "_build", "__pycache__"))
                    if os.path.exists(src + "/notes.md"):
                        shutil.copy(src + "/notes.md", dst + "/notes.md")
                ver = open(src + "/verify.txt").read()
                vhead_repo = ver.split("/repo HEAD ")[1].split()[0] if "/repo HEAD " in ver else head
                what, needs_ = needs[sid]
                meta = {
                    "id": sid, "round": rnd, "breaks_property": pid, "origin": origin,
                    "change": what, "needs_to_manifest": needs_,
                    "confirmed_by_me": {
                        "how": "tools/seedverify.sh: scratch worktree of /repo HEAD %s, git apply, cmake -DQTLOGGER_NO_EXAMPLES=ON + build, ctest (18 programs = the 349 QtTest functions), demo/demo.sh with the change (must fail) and after git checkout (must pass); worktree removed" % vhead_repo,
                        "log": ver.strip().splitlines(),
                    },
                    "static_checks": static_block(matrix["%s/%s" % (pid, v)], pid) if "error" not in matrix.get("%s/%s" % (pid, v), {"error": 1}) else None,
                }
                if keep is not None:
                    meta["rebased"] = keep["rebased"]
                    meta["confirmed_by_me"] = keep["confirmed_by_me"]
                json.dump(meta, open(dst + "/meta.json", "w"), indent=1)
# refresh every seed's static_checks from a matrix over /verif/seeded itself (tools/seedmatrix.py /verif/seeded --out <file>)
if "--refresh-from" in sys.argv:
    matrix = json.load(open(sys.argv[sys.argv.index("--refresh-from") + 1]))
    for key, m in matrix.items():
        pid, letter = key.split("/")
        mp = os.path.join(VERIF, "seeded", pid + letter, "meta.json")
        if os.path.exists(mp) and "error" not in m:
            meta = json.load(open(mp))
            meta.setdefault("round", 1)
            meta["static_checks"] = static_block(m, pid)
            json.dump(meta, open(mp, "w"), indent=1)
print("done")
