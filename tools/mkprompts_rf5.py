#!/usr/bin/env python3
"""fifth refactoring corpus: one prompt per area (/tmp/rf5_prompts/RM<k>.md), scratch worktrees /tmp/rf5_wt/RM<k>, results
/tmp/rf5_out/RM<k>/R<j>/patch.diff.  The prompt names the files of the area and the kinds of refactoring wanted; nothing about /verif."""
import os, subprocess
AREAS = {
 1: ("pipeline evaluation and builder", "src/qtlogger/pipeline.{h,cpp}, simplepipeline.{h,cpp}, sortedpipeline.{h,cpp}, handler.h, filter.h, formatter.h, sink.h, attrhandler.h, functionhandler.h, logmessage.h"),
 2: ("logger, message handler entry points and the asynchronous logger thread", "src/qtlogger/logger.{h,cpp}, ownthreadhandler.h, logmessage.h (copy constructor), sinks/signalsink.*, sinks/iodevicesink.*"),
 3: ("rotating file sink: size / daily / startup rotation decision, writing of records, flush", "src/qtlogger/sinks/rotatingfilesink.{h,cpp} (rotateIfNeeded, check* functions, send, init, rotate, flush), sinks/filesink.*, sinks/iodevicesink.*"),
 4: ("rotating file sink: rotated file names, next-index search, retention (removeOldFiles / findRotatedFiles), gzip compression and CRC", "src/qtlogger/sinks/rotatingfilesink.{h,cpp}"),
 5: ("pattern formatter: pattern parser, tokens, format specs (width, fill, truncation), conditional blocks, time tokens, function-name cleanup", "src/qtlogger/formatters/patternformatter.{h,cpp}, messagepatterns.h, formatters/prettyformatter.*"),
 6: ("filters: category filter (rule parsing, wildcard matching, ordering), level filter, duplicate filter, regexp filter, sequence-number attribute", "src/qtlogger/filters/*, attrhandlers/seqnumberattr.*, sortedpipeline.cpp (the builder methods that create filters)"),
 7: ("JSON and Sentry formatters, value conversion, attribute handlers", "src/qtlogger/formatters/jsonformatter.*, formatters/sentryformatter.*, sentry.h, attrhandlers/*, utils.*"),
 8: ("configuration front-ends and console / http sinks", "src/qtlogger/configure.{h,cpp}, sortedpipeline.{h,cpp} (builder methods), simplepipeline.*, sinks/coloredconsole.*, sinks/stdoutsink.*, sinks/stderrsink.*, sinks/httpsink.*, sinks/platformstdsink.*, tools/gen_qtlogger.h.py only as a user"),
}
T = """You are helping to build a corpus of BEHAVIOUR-PRESERVING refactorings of an open-source C++ library, qtlogger (a Qt 5/6 logging
library: handler pipeline of attribute handlers, filters, formatters and sinks, rotating files, asynchronous logger thread). The corpus is
used to measure whether the project's quality gates raise false alarms on harmless code changes. You have your OWN scratch git worktree at

    {wt}

Work ONLY inside that directory and under {res}. Do not read or write /repo or /verif (off limits: your work must be independent of them).
Do not commit anything; never run `git worktree` commands.

Build and test (offline, Qt 5.15, well under a minute):

    cmake -S {wt} -B {wt}/_build -G Ninja -DQTLOGGER_NO_EXAMPLES=ON && cmake --build {wt}/_build -j6
    ctest --test-dir {wt}/_build -j4 --timeout 900        # 18 test programs = 349 test functions, all pass

The single-header distribution `qtlogger.h` in the tree root is generated from the sources: after every source change run
`python3 tools/gen_qtlogger.h.py` in the tree root (look at the script for usage) and include the regenerated qtlogger.h in your patch.

## Your area: {area}

Files: {files}

## Your task

Produce FIVE independent refactorings (R1..R5) of code in your area, each of which

1. preserves the observable behaviour of the library EXACTLY - for every input, option combination, schedule, crash point and history,
   including edge cases (empty strings, nulls, zero / negative / huge numbers, embedded NULs, surrogate pairs, failure returns of Qt
   calls, order of side effects, what is held under which lock, what happens on every error path). Think each edge through and, where a
   quick differential program (old helper vs new helper over many inputs) is feasible, write and run one;
2. is a real restructuring a maintainer might do, of moderate size (roughly 15-120 changed lines) - NOT a rename only, NOT comments /
   whitespace only. Wanted kinds, use a different one for each of the five: extract a helper function / private method / lambda, or inline
   one; turn an if-chain into a switch or a table (or back); replace a hand-written loop by a standard / Qt algorithm, or the reverse;
   change a local representation without changing the values (struct of fields, enum instead of bool, iterator instead of index,
   QStringView / QLatin1String instead of QString temporaries, early returns instead of nesting, RAII guard instead of paired calls);
   move code between a header and its .cpp, or between a class and a nested / file-local helper class; split a long function into
   phases; hoist an invariant computation; reorder statements that are genuinely independent;
3. compiles without new warnings and keeps the complete test-suite green (all 18 ctest programs);
4. touches the core logic of the area (the parts that decide what is written, where, in which order, under which lock), not only its fringe.

For each refactoring deliver under {res}/RM{k}/R<j>/ :
* `patch.diff` - `git diff` of the worktree against HEAD (sources + regenerated qtlogger.h), applying cleanly with `git apply` to pristine HEAD;
* `notes.md` - what was restructured, and the argument why behaviour is unchanged on every edge case you considered (and what you ran).

Restore the worktree (`git checkout -- . && git clean -fdq -e _build`) before each next refactoring so each patch is against pristine HEAD,
and once more when you are done.

If while reading you notice a genuine defect in the UNCHANGED code, do not fix it (preserve it!) but describe it in {res}/RM{k}/side_remarks.md.

Your final answer should be brief: one line per refactoring (site, kind) and whether build + tests were green for each.
"""
for k, (area, files) in AREAS.items():
    wt = "/tmp/rf5_wt/RM%d" % k
    if not os.path.exists(wt):
        subprocess.run(["git", "-C", "/repo", "worktree", "add", "--detach", wt, "HEAD"], check=True, stdout=subprocess.DEVNULL, stderr=subprocess.DEVNULL)
    os.makedirs("/tmp/rf5_out/RM%d" % k, exist_ok=True)
    open("/tmp/rf5_prompts/RM%d.md" % k, "w").write(T.format(wt=wt, res="/tmp/rf5_out", area=area, files=files, k=k))
print("ok")
