#!/bin/bash
# rf5verify.sh <RMk>... : confirms each refactoring of the fifth corpus (/tmp/rf5_out/<RMk>/R<j>/patch.diff): applies to a scratch worktree of /repo HEAD,
# builds, runs the unedited test-suite; then runs all twenty checks against it (tools/rfcheck.py); worktree removed
for A in "$@"; do
  for J in 1 2 3 4 5; do
    SRC=/tmp/rf5_out/$A/R$J
    [ -f $SRC/patch.diff ] || { echo "== $A/R$J: no patch"; continue; }
    WT=/tmp/sv/rf5$A$J
    mkdir -p /tmp/sv
    git -C /repo worktree remove --force $WT >/dev/null 2>&1
    git -C /repo worktree add --detach $WT HEAD >/dev/null 2>&1
    {
      echo "refactoring $A/R$J verified on $(date -u +%FT%TZ) against /repo HEAD $(git -C /repo rev-parse --short HEAD)"
      if git -C $WT apply $SRC/patch.diff; then echo "apply: ok"; else echo "apply: FAILED"; fi
      cmake -S $WT -B $WT/_build -G Ninja -DQTLOGGER_NO_EXAMPLES=ON >/dev/null 2>&1
      if cmake --build $WT/_build -j8 >$WT/build.log 2>&1; then echo "build: ok"; else echo "build: FAILED"; tail -5 $WT/build.log; fi
      ctest --test-dir $WT/_build -j4 --timeout 900 >$WT/ctest.log 2>&1
      tail -3 $WT/ctest.log | tr '\n' ' '; echo
      if ! grep -q "100% tests passed" $WT/ctest.log; then
        ctest --test-dir $WT/_build --rerun-failed --timeout 900 >$WT/ctest2.log 2>&1; echo "rerun-failed: $(tail -3 $WT/ctest2.log | tr '\n' ' ')"
      fi
      ( cd $WT && cp qtlogger.h $WT/qtlogger.h.patched && python3 tools/gen_qtlogger.h.py >/dev/null 2>&1; cmp -s qtlogger.h qtlogger.h.patched && echo "qtlogger.h: in step" || echo "qtlogger.h: NOT in step" )
    } > $SRC/verify.txt 2>&1
    git -C /repo worktree remove --force $WT >/dev/null 2>&1; rm -rf $WT
    echo "== $A/R$J: $(grep -c 'apply: ok' $SRC/verify.txt) apply, $(grep -c 'build: ok' $SRC/verify.txt) build, $(grep -o '100% tests passed' $SRC/verify.txt | head -1), $(grep 'qtlogger.h' $SRC/verify.txt)"
    python3 /verif/tools/rfcheck.py $SRC/patch.diff C01 C02 C03 C04 C05 C06 C07 C08 C09 C10 C11 C12 C13 C14 C15 C16 C17 C18 C19 C20 2>&1 | grep -v WARNING | grep -v "rc=0" > $SRC/static.txt
    cut -c1-400 $SRC/static.txt
  done
done
