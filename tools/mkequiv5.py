#!/usr/bin/env python3
"""stores the fifth refactoring corpus (/tmp/rf5_out/RM<k>/R<j>) as /verif/equivalents/RM<k>_R<j>.patch and extends index.json
(property -> patches that touch its anchors, derived from the files a patch changes)."""
import json, os, re, subprocess
VERIF = os.path.dirname(os.path.dirname(os.path.abspath(__file__)))
ROOT = "/tmp/rf5_out"
AREA = {1: "pipeline evaluation and builder", 2: "logger, entry points, logger thread", 3: "rotating sink: rotation decision, writing, flush", 4: "rotating sink: names, next index, retention, gzip",
        5: "pattern formatter", 6: "filters, sequence numbers", 7: "JSON / Sentry formatters, attributes, utils", 8: "configuration front-ends, console sinks"}
FILES = [
 (r"src/qtlogger/(pipeline\.|handler\.h|filter\.h|formatter\.h|sink\.h|attrhandler\.h|functionhandler\.h)", ["C01", "C17", "C03", "C11"]),
 (r"src/qtlogger/sortedpipeline\.", ["C17", "C16", "C19", "C01"]),
 (r"src/qtlogger/simplepipeline\.", ["C19", "C02", "C11", "C16", "C13"]),
 (r"src/qtlogger/(logger\.|ownthreadhandler\.h)", ["C02", "C03", "C04", "C11", "C16"]),
 (r"src/qtlogger/logmessage\.h", ["C03", "C12", "C13", "C15", "C16", "C01", "C19"]),
 (r"src/qtlogger/sinks/rotatingfilesink\.", ["C05", "C06", "C07", "C08", "C09", "C10", "C11"]),
 (r"src/qtlogger/sinks/(filesink|iodevicesink|signalsink)\.", ["C11", "C05", "C02", "C03"]),
 (r"src/qtlogger/(formatters/patternformatter\.|messagepatterns\.h)", ["C12", "C14", "C03"]),
 (r"src/qtlogger/formatters/prettyformatter\.", ["C02", "C14", "C19", "C03"]),
 (r"src/qtlogger/filters/categoryfilter\.", ["C15", "C14", "C19"]),
 (r"src/qtlogger/filters/(levelfilter|duplicatefilter|regexpfilter|functionfilter)", ["C16", "C14"]),
 (r"src/qtlogger/attrhandlers/seqnumberattr\.", ["C16", "C02"]),
 (r"src/qtlogger/formatters/jsonformatter\.", ["C13", "C14", "C02"]),
 (r"src/qtlogger/(formatters/sentryformatter\.|sentry\.h)", ["C18", "C14"]),
 (r"src/qtlogger/configure\.", ["C19", "C06", "C07", "C15", "C16"]),
 (r"src/qtlogger/sinks/(coloredconsole|stdoutsink|stderrsink|platformstdsink|httpsink)", ["C19", "C02"]),
 (r"src/qtlogger/(utils\.|attrhandlers/)", ["C13", "C18", "C20", "C12"]),
]
idx = json.load(open(os.path.join(VERIF, "equivalents", "index.json")))
head = subprocess.run(["git", "-C", "/repo", "rev-parse", "--short", "HEAD"], stdout=subprocess.PIPE, text=True).stdout.strip()
n = 0
for k in range(1, 9):
    for j in range(1, 6):
        src = "%s/RM%d/R%d" % (ROOT, k, j)
        if not os.path.exists(src + "/patch.diff") or not os.path.exists(src + "/verify.txt"):
            continue
        ver = open(src + "/verify.txt").read()
        if not ("apply: ok" in ver and "build: ok" in ver and "100% tests passed" in ver):
            print("NOT stored (not confirmed):", src)
            continue
        body = open(src + "/patch.diff").read()
        title = ""
        if os.path.exists(src + "/notes.md"):
            for l in open(src + "/notes.md"):
                if l.strip():
                    title = l.strip("# \n")[:160]
                    break
        files = sorted(set(re.findall(r"^diff --git a/(\S+)", body, re.M)))
        name = "RM%d_R%d.patch" % (k, j)
        open(os.path.join(VERIF, "equivalents", name), "w").write(
            "# kind: equivalent\n# why: behaviour-preserving refactoring written by an independent sub-agent (RM%d, fifth corpus, against /repo %s; area: %s): %s [%s]\n" %
            (k, head, AREA[k], title, ", ".join(os.path.basename(f) for f in files if f != "qtlogger.h")) + body)
        props = {"C20"}
        for rx, ps in FILES:
            if any(re.search(rx, f) for f in files):
                props |= set(ps)
        for p in sorted(props):
            if name not in idx.setdefault(p, []):
                idx[p].append(name)
        n += 1
json.dump(idx, open(os.path.join(VERIF, "equivalents", "index.json"), "w"), indent=1)
print("stored", n)
