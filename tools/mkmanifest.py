#!/usr/bin/env python3
"""regenerates /verif/MANIFEST.json from the rule modules' metadata (keeps the manifest and the code in step)"""
import importlib, json, os, sys
VERIF = os.path.dirname(os.path.dirname(os.path.abspath(__file__)))
sys.path.insert(0, VERIF)
props = [json.loads(l) for l in open(os.path.join(VERIF, "properties.jsonl"))]
NA = {}
na_path = os.path.join(VERIF, "not_applicable.json")
if os.path.exists(na_path):
    NA = json.load(open(na_path))
checks, na = [], []
for p in props:
    pid = p["id"]
    path = os.path.join(VERIF, "rules", pid.lower() + ".py")
    if pid in NA or not os.path.exists(path):
        na.append({"property_id": pid, "reason": NA.get(pid, "check not built yet (static rules are designed in DESIGN.md section 3; nothing is claimed until the check exists)")})
        continue
    m = importlib.import_module("rules." + pid.lower())
    checks.append({
        "property_id": pid,
        "quick_cmd": "./verif check %s --tier quick" % pid,
        "thorough_cmd": "./verif check %s --tier thorough" % pid,
        "evidence_file": "/verif/evidence/%s.json" % pid,
        "replay_cmd_template": "cat {path}",
        "engine": "qlx+rules",
        "level_claimed": {"category": getattr(m, "LEVEL", "other"), "text": m.LEVEL_TEXT, "design_ref": getattr(m, "DESIGN_REF", "DESIGN.md section 3")},
        "level_note": m.LEVEL_NOTE,
        "technique": m.TECHNIQUE,
    })
man = {
    "version": 1,
    "setup_cmd": "./setup.sh",
    "hooks": {
        "guard": "QTLOGGER_VERIF",
        "enable": "no hooks are needed: the checks read /repo's source through clang (no instrumentation, nothing is compiled with the guard)",
        "baseline_off_cmd": "cmake -S /repo -B /repo/_build -G Ninja && (cmake --build /repo/_build -j16 -- -k 0 || true) && ctest --test-dir /repo/_build -j8 --timeout 900",
        "source_commits": [],
        "add_only": True,
    },
    "engines": [
        {"name": "qlx", "path": "/verif/qlx/qlx.cc", "serves_properties": [c["property_id"] for c in checks],
         "kind_free_text": "libTooling fact extractor: normalised AST with resolved callees/fields, clang CFG, class/global/enum facts per translation unit of the cmake compile database"},
        {"name": "rules", "path": "/verif/engine + /verif/rules", "serves_properties": [c["property_id"] for c in checks],
         "kind_free_text": "python rule library: CFG path queries with predicate projection, lockset dataflow, writer/caller enumeration, finite-table and linear-inequality extraction, helper splicing (engine/inline.py), abstract string evaluation (engine/strabs.py), evaluation by cases over finite domains (engine/conc.py), zone-domain abstract interpreter with character facts (engine/zone.py, dbm.py) for C14; three-valued outcome (exit 0 / 1 VIOLATION / 2 ANALYSIS-BROKEN)"},
    ],
    "checks": checks,
    "not_applicable": na,
    "notes": "Static analysis only. Exit 2 + 'ANALYSIS-BROKEN' means the checker can no longer decide (anchor vanished / idiom not recognised); it is never a pass. known_findings.json lists genuine defects (open / fixed).",
}
json.dump(man, open(os.path.join(VERIF, "MANIFEST.json"), "w"), indent=1)
print("checks:", [c["property_id"] for c in checks], "not_applicable:", len(na))
