"""Indexed view of the qlx fact base + expression helpers. Nothing here matches source text."""
import re
from .extract import AnalysisBroken, REPO

CHILD_KEYS = ("body", "init", "condvar", "cond", "then", "else", "inc", "range", "desugar", "sub", "val", "lhs", "rhs",
              "e", "base", "idx", "t", "f", "obj", "args", "els", "ch", "handlers", "capture_inits", "calleeExpr", "vars",
              "rangeStmt", "beginStmt", "endStmt", "loopVarStmt")


def children(node):
    """Direct child nodes (dicts with an 'id') of a node, in evaluation-ish order."""
    if not isinstance(node, dict):
        return
    for k in CHILD_KEYS:
        v = node.get(k)
        if v is None:
            continue
        if isinstance(v, dict):
            if "id" in v:
                yield v
            elif k == "desugar":
                for kk in ("rangeStmt", "beginStmt", "endStmt", "cond", "inc", "loopVarStmt"):
                    if isinstance(v.get(kk), dict):
                        yield v[kk]
        elif isinstance(v, list):
            for x in v:
                if isinstance(x, dict):
                    if "id" in x:
                        yield x
                    elif k == "vars" and isinstance(x.get("init"), dict):
                        yield x["init"]


def walk(node):
    """Pre-order walk over a node and all its descendants."""
    if not isinstance(node, dict):
        return
    stack = [node]
    while stack:
        n = stack.pop()
        yield n
        ch = list(children(n))
        stack.extend(reversed(ch))


class Fn:
    def __init__(self, d):
        self.d = d
        self.id = d["fn"]
        self.name = d["name"]
        self.sig = d["sig"]
        self.file = d["file"]
        self.line = d["line"]
        self.cls = d.get("class")
        if self.cls and "<" in self.name and "::" in self.name and "(anonymous" not in self.name:
            # class template instantiation: keep the template arguments (the printed class name drops its own)
            depth = 0
            cut = -1
            for i, ch in enumerate(self.name):
                if ch == "<":
                    depth += 1
                elif ch == ">":
                    depth -= 1
                elif ch == ":" and depth == 0 and self.name[i:i + 2] == "::":
                    cut = i
            if cut > 0 and not self.name[cut + 2:].startswith("operator"):
                self.cls = self.name[:cut]
        self.body = d.get("body")
        self.cfg = d.get("cfg")
        self.params = d.get("params", [])
        self.inits = d.get("inits", [])
        self.unit = d.get("unit")
        self.lambda_of = d.get("lambdaOf")
        self.nodes = {}
        self.parent = {}
        roots = []
        if self.body:
            roots.append(self.body)
        for i in self.inits:
            if isinstance(i.get("e"), dict):
                roots.append(i["e"])
        for r in roots:
            for n in walk(r):
                # a named boolean constant (`static constexpr bool Continue = true`) is the literal it stands for: the front end has folded it
                if n.get("k") in ("ref", "member") and "cv" in n and (n.get("type") or "").replace("const ", "").strip() == "bool" and n.get("dk") not in ("param", "local") \
                        and not (n.get("k") == "member" and n.get("dk") == "field" and not n.get("static")):
                    n["const_name"] = n.get("name")
                    n["k"] = "bool"
                    n["v"] = bool(n["cv"])
                self.nodes[n["id"]] = n
                for c in children(n):
                    self.parent[c["id"]] = n["id"]

    def __repr__(self):
        return "<Fn %s>" % self.sig

    def loc(self, node=None):
        rel = self.file
        if rel.startswith(REPO + "/"):
            rel = rel[len(REPO) + 1:]
        import os.path
        rel = os.path.normpath(rel)
        if node is None:
            return "%s:%d" % (rel, self.line)
        return "%s:%d:%d" % (rel, node.get("l", 0), node.get("c", 0))

    def all_nodes(self):
        return self.nodes.values()

    def find(self, pred):
        return [n for n in sorted(self.nodes.values(), key=lambda n: n["id"]) if pred(n)]

    def calls(self, callee=None, cls=None):
        out = []
        for n in sorted(self.nodes.values(), key=lambda n: n["id"]):
            if n.get("k") != "call":
                continue
            if callee is not None and not name_is(n.get("callee"), callee):
                continue
            if cls is not None and n.get("cls") != cls:
                continue
            out.append(n)
        return out

    def ancestors(self, node):
        i = node["id"]
        while i in self.parent:
            i = self.parent[i]
            yield self.nodes[i]

    def param(self, idx):
        return self.params[idx]


def name_is(actual, wanted):
    """wanted: str or iterable of str; a wanted name matches exactly or as a '::'-suffix."""
    if actual is None:
        return False
    if isinstance(wanted, str):
        wanted = (wanted,)
    for w in wanted:
        if actual == w or actual.endswith("::" + w):
            return True
    return False


def strip_tmpl(name):
    """QtLogger::OwnThreadHandler<QtLogger::SimplePipeline>::process -> QtLogger::OwnThreadHandler::process"""
    out = []
    depth = 0
    for ch in name:
        if ch == "<":
            depth += 1
        elif ch == ">":
            depth -= 1
        elif depth == 0:
            out.append(ch)
    return "".join(out)


class Facts:
    def __init__(self, cfgfacts, config="lib"):
        self.config = config
        self.fns = {k: Fn(v) for k, v in cfgfacts["functions"].items()}
        self.records = {r["name"]: r for r in cfgfacts["records"].values()}
        for r0 in self.records.values():
            outer = strip_tmpl(r0["name"]).rsplit("::", 1)[0] if "::" in strip_tmpl(r0["name"]) else None
            if outer and any(strip_tmpl(x) == outer for x in self.records):
                for f0 in r0.get("fields", []):
                    t0 = strip_tmpl((f0.get("type") or "").replace("const ", "").replace("*", "").strip())
                    if "*" in (f0.get("type") or "") and (t0 == outer or t0 == outer.split("::")[-1] or outer.endswith("::" + t0)):
                        BACK_POINTERS.add(strip_tmpl(r0["name"]) + "::" + f0["name"])
        for r_ in self.records.values():
            RECORD_FIELDS[r_["name"]] = [f_.get("name") for f_ in r_.get("fields", [])]
        self.globals = cfgfacts["globals"]
        self.enums = cfgfacts["enums"]
        self.by_name = {}
        for f in self.fns.values():
            self.by_name.setdefault(f.name, []).append(f)
            st = strip_tmpl(f.name)
            if st != f.name:
                self.by_name.setdefault(st, []).append(f)
        # method fn-id -> record method entry (also for undefined / pure methods)
        self.methods = {}
        for r in self.records.values():
            for m in r["methods"]:
                self.methods[m["fn"]] = dict(m, record=r["name"])
        # overriders: base method id -> set of overriding method ids (transitive)
        self.overriders = {}
        for mid, m in self.methods.items():
            for o in m.get("overrides", []):
                self.overriders.setdefault(o, set()).add(mid)
        changed = True
        while changed:
            changed = False
            for b, s in list(self.overriders.items()):
                for x in list(s):
                    for y in self.overriders.get(x, ()):
                        if y not in s:
                            s.add(y)
                            changed = True

    # ---- lookup
    def fn_all(self, name):
        r = list(self.by_name.get(name, []))
        if not r:
            # unique '::'-suffix match (functions in anonymous namespaces)
            r = [f for k, v in self.by_name.items() if k.endswith("::" + name) for f in v]
            r = list({f.id: f for f in r}.values())
        return r

    def unit(self, *fns):
        """declare functions that rules look at as units: they are never spliced into their callers"""
        if not hasattr(self, "_units"):
            self._units, self._flat = set(), {}
        for f in fns:
            if f is not None:
                self._units.add(f.id)

    def flat(self, f):
        """flattened view of f (engine/inline.py): private helpers and local lambdas it calls are spliced in, except the
        functions declared or requested as units"""
        if f is None or f.body is None or getattr(f, "flat_of", None) is not None:
            return f
        if not hasattr(self, "_units"):
            self._units, self._flat = set(), {}
        key = (f.id, frozenset(self._units))
        if key not in self._flat:
            from .inline import flatten
            self._flat[key] = flatten(self, f, stop=self._units - {f.id})
        return self._flat[key]

    def units_of(self, pred):
        """flattened views of the functions satisfying pred(fn) that are not private helpers spliced into a single owner
        (a who-may-do rule over `all functions of class X` must not see a helper twice: once alone, once inside its caller)"""
        from .inline import owner_of
        out = []
        for f in sorted(self.fns.values(), key=lambda f: (f.file, f.line, f.sig)):
            if f.body is None or not pred(f):
                continue
            own = owner_of(self, f, stop=getattr(self, "_units", set()))
            if own.id != f.id and pred(own) and not f.lambda_of:
                continue
            if f.lambda_of:
                # a lambda called directly by its definer is spliced there; one passed as a value (slot, callback) stands alone
                continue_ = False
                definer = self.fns.get(f.lambda_of)
                if definer is not None:
                    fl = self.flat(definer)
                    if any(x.get("inl_fn") == f.id for x in fl.all_nodes() if x.get("k") == "call"):
                        continue_ = True
                if continue_:
                    continue
            out.append(self.flat(f))
        return out

    def fn(self, name, nparams=None, sig_contains=None, optional=False, flat=True):
        c = self.fn_all(name)
        if nparams is not None:
            c = [f for f in c if len(f.params) == nparams]
        if sig_contains is not None:
            c = [f for f in c if sig_contains in f.sig]
        if len(c) == 1:
            self.unit(c[0])
            return self.flat(c[0]) if flat else c[0]
        if not c:
            if optional:
                return None
            raise AnalysisBroken("anchor function %s no longer resolves" % name)
        raise AnalysisBroken("anchor function %s is ambiguous: %s" % (name, [f.sig for f in c]))

    def record(self, name, optional=False):
        r = self.records.get(name)
        if r is None and not optional:
            raise AnalysisBroken("anchor class %s no longer resolves" % name)
        return r

    def field(self, record, name):
        r = self.record(record)
        for f in r["fields"]:
            if f["name"] == name:
                return f
        raise AnalysisBroken("anchor field %s::%s no longer resolves" % (record, name))

    def subclasses(self, base):
        """names of all records deriving (transitively) from record `base`"""
        out = set()
        changed = True
        while changed:
            changed = False
            for r in self.records.values():
                if r["name"] in out:
                    continue
                for b in r["bases"]:
                    bt = b["type"]
                    if bt == base or bt in out:
                        out.add(r["name"])
                        changed = True
                        break
        return out

    def lambdas_of(self, fn):
        return [f for f in self.fns.values() if f.lambda_of == fn.id]

    # ---- call graph
    def callees(self, fn, include_lambdas=True, virtual=True):
        """set of fn ids directly called (resolved); virtual calls expand to repo overriders"""
        out = set()
        for n in fn.all_nodes():
            k = n.get("k")
            if k == "call" and n.get("fn"):
                out.add(n["fn"])
                if virtual and n.get("virtual"):
                    out |= self.overriders.get(n["fn"], set())
            elif k == "construct" and n.get("fn"):
                out.add(n["fn"])
            elif k == "lambda" and include_lambdas:
                out.add(n["fn"])
            elif k == "ref" and n.get("dk") == "func" and n.get("fn"):
                out.add(n["fn"])  # function used as a value (callback)
            elif k == "member" and n.get("dk") == "method":
                pass
        return out

    def reachable_from(self, roots, virtual=True):
        seen = set()
        stack = [r.id if isinstance(r, Fn) else r for r in roots]
        while stack:
            x = stack.pop()
            if x in seen:
                continue
            seen.add(x)
            f = self.fns.get(x)
            if f is None:
                continue
            for c in self.callees(f, virtual=virtual):
                if c not in seen:
                    stack.append(c)
        return seen

    def callers_of(self, pred):
        """[(Fn, call node)] for every call/construct node in the repo satisfying pred(node)"""
        out = []
        for f in sorted(self.fns.values(), key=lambda f: (f.file, f.line, f.sig)):
            for n in sorted(f.all_nodes(), key=lambda n: n["id"]):
                if n.get("k") in ("call", "construct") and pred(n):
                    out.append((f, n))
        return out


# ---------------------------------------------------------------- expression helpers

def skip_copies(n):
    """look through copy/move constructions, explicit casts and default-arg wrappers"""
    while isinstance(n, dict):
        if n.get("k") == "construct" and n.get("copy") and len(n.get("args", [])) == 1:
            n = n["args"][0]
        elif n.get("k") in ("defaultarg", "defaultinit"):
            n = n.get("e")
        elif n.get("k") == "cast" and n.get("castkind") in ("NoOp", "ConstructorConversion", "LValueToRValue", "DerivedToBase", "UncheckedDerivedToBase"):
            n = n.get("e")
        else:
            break
    return n


def const_str(n):
    """constant string value of an expression if it is a string literal in one of Qt's wrappers"""
    n = skip_copies(n)
    if not isinstance(n, dict):
        return None
    k = n.get("k")
    if k in ("str", "qstr"):
        return n.get("v")
    if k == "construct" and len(n.get("args", [])) >= 1:
        cls = n.get("class", "")
        if cls in ("QLatin1String", "QString", "QByteArray", "QLatin1Char", "QChar", "QStringView", "std::basic_string"):
            a = skip_copies(n["args"][0])
            if cls in ("QLatin1Char", "QChar"):
                ci = const_int(a)
                if ci is not None:
                    return chr(ci)
                return None
            if cls == "QString" and isinstance(a, dict) and a.get("k") == "construct":
                return const_str(a)
            return const_str(a)
    if k == "call" and name_is(n.get("callee"), ("QString::fromLatin1", "QString::fromUtf8", "QString::fromLocal8Bit")) and n.get("args"):
        return const_str(n["args"][0])
    return None


def const_int(n):
    n = skip_copies(n)
    if not isinstance(n, dict):
        return None
    if n.get("k") in ("int", "char"):
        return n.get("v")
    if n.get("k") == "bool":
        return int(n.get("v"))
    if "cv" in n:
        return n["cv"]
    if n.get("k") == "ref" and "value" in n:
        return n["value"]
    if n.get("k") == "unop" and n.get("op") == "-":
        v = const_int(n.get("e"))
        return -v if v is not None else None
    if n.get("k") == "cast":
        return const_int(n.get("e"))
    if n.get("k") == "construct" and len(n.get("args", [])) == 1 and n.get("class") in ("QChar", "QLatin1Char", "QFlags"):
        return const_int(n["args"][0])
    return None


def is_ref_to(n, decl, _depth=0):
    n = skip_copies(n)
    if not (isinstance(n, dict) and n.get("k") == "ref"):
        return False
    if n.get("decl") == decl:
        return True
    if n.get("inl_param") and _depth < 4:
        # parameter of a helper that was spliced into its caller (engine/inline.py): it stands for its argument
        from .inline import PARAM_BIND
        binds = PARAM_BIND.get(n.get("decl"))
        if binds:
            return all(is_ref_to(a, decl, _depth + 1) for a in binds)
    return False


def through_param(n, _depth=0):
    """if n refers to a parameter of a helper that was spliced into its caller, the argument it stands for (when every
    spliced call passes the same expression shape); else n"""
    n = skip_copies(n)
    while isinstance(n, dict) and n.get("k") == "ref" and n.get("inl_param") and _depth < 4:
        from .inline import PARAM_BIND
        binds = PARAM_BIND.get(n.get("decl")) or []
        if len(binds) != 1:
            sigs = {describe(b) for b in binds}
            if len(sigs) != 1:
                break
        n = skip_copies(binds[0])
        _depth += 1
    return n


RECORD_FIELDS = {}  # record name -> field names in declaration order (lets value tracking see through aggregates returned by helpers)
BACK_POINTERS = set()   # qualified names of fields of a nested helper class that point back to the enclosing object (Worker::m_handler)
FIELD_ALIAS = {}    # canonical qualified field name -> {actual qualified names}: lets a rule name a field by its role (see rules/oth.py)


def is_field(n, qname):
    """member access to field `qname` (qualified, template args stripped for comparison) on this or any object"""
    n = through_param(n)
    if not (isinstance(n, dict) and n.get("k") == "member" and n.get("dk") == "field"):
        return False
    nm = strip_tmpl(n.get("name", ""))
    if name_is(nm, qname):
        return True
    for q in ((qname,) if isinstance(qname, str) else qname):
        if nm in FIELD_ALIAS.get(q, ()):
            return True
    return False


def is_this_field(n, qname):
    """field of this, directly or through member structs held by value (this->m_own.worker)"""
    n = through_param(n)
    if not is_field(n, qname):
        return False
    cur = n
    for _ in range(4):
        b = cur.get("base")
        if not isinstance(b, dict):
            return False
        b = skip_copies(b)
        if b.get("k") == "this":
            return True
        # `.` access into a member object held by value: still part of this object; `->` through a member pointer is another object
        if b.get("k") == "member" and b.get("dk") == "field" and not cur.get("arrow"):
            cur = b
            continue
        # ... unless it is the back pointer of this object's own nested helper: this->m_worker->m_handler->F is this->F (code of the helper
        # spliced into a method of the enclosing class)
        if b.get("k") == "member" and b.get("dk") == "field" and cur.get("arrow") and strip_tmpl(b.get("name") or "") in BACK_POINTERS:
            bb = skip_copies(b.get("base")) if isinstance(b.get("base"), dict) else None
            if isinstance(bb, dict) and bb.get("k") == "member" and bb.get("dk") == "field" and b.get("arrow"):
                b3 = skip_copies(bb.get("base")) if isinstance(bb.get("base"), dict) else None
                if isinstance(b3, dict) and b3.get("k") == "this":
                    return True
        return False
    return False


def is_call(n, callee, nargs=None):
    n = skip_copies(n)
    if not (isinstance(n, dict) and n.get("k") == "call"):
        return False
    if not name_is(strip_tmpl(n.get("callee") or ""), callee):
        return False
    if nargs is not None and len(n.get("args", [])) != nargs:
        return False
    return True


def describe(n, depth=0):
    """short human-readable rendering of an expression node (for reports only)"""
    if not isinstance(n, dict):
        return "?"
    if depth > 6:
        return "..."
    k = n.get("k")
    d = lambda x: describe(x, depth + 1)
    if k in ("int", "float"):
        return str(n.get("v"))
    if k == "char":
        return "'%s'" % chr(n["v"]) if 32 <= n["v"] < 127 else "'\\x%02x'" % n["v"]
    if k == "bool":
        return "true" if n["v"] else "false"
    if k == "null_lit":
        return "nullptr"
    if k in ("str", "qstr"):
        return repr(n.get("v"))
    if k == "this":
        return "this"
    if k == "ref":
        return n.get("name", "?").split("::")[-1] if n.get("dk") != "enumconst" else n.get("name")
    if k == "member":
        b = n.get("base")
        nm = n.get("name", "?").split("::")[-1]
        if isinstance(b, dict) and b.get("k") == "this":
            return nm
        return "%s%s%s" % (d(b), "->" if n.get("arrow") else ".", nm)
    if k == "unop":
        return ("%s%s" % (d(n.get("e")), n["op"])) if n.get("postfix") else ("%s%s" % (n["op"], d(n.get("e"))))
    if k == "binop":
        return "(%s %s %s)" % (d(n.get("lhs")), n["op"], d(n.get("rhs")))
    if k == "cond":
        return "(%s ? %s : %s)" % (d(n.get("cond")), d(n.get("t")), d(n.get("f")))
    if k == "call":
        nm = (n.get("callee") or "<indirect>")
        short = "::".join(strip_tmpl(nm).split("::")[-2:]) if n.get("ck") != "member" else nm.split("::")[-1]
        args = ", ".join(d(a) for a in n.get("args", []))
        if n.get("ck") == "member":
            o = n.get("obj")
            pre = "" if (isinstance(o, dict) and o.get("k") == "this") else d(o) + "."
            return "%s%s(%s)" % (pre, short, args)
        if n.get("ck") == "operator":
            a = n.get("args", [])
            if len(a) == 2:
                return "(%s %s %s)" % (d(a[0]), n.get("op"), d(a[1]))
            if len(a) == 1:
                return "%s%s" % (n.get("op"), d(a[0]))
        return "%s(%s)" % (short, args)
    if k == "construct":
        if n.get("copy") and len(n.get("args", [])) == 1:
            return d(n["args"][0])
        return "%s(%s)" % (n.get("class", "?").split("::")[-1], ", ".join(d(a) for a in n.get("args", [])))
    if k == "cast":
        return d(n.get("e"))
    if k in ("defaultarg", "defaultinit"):
        return d(n.get("e"))
    if k == "lambda":
        return "[lambda]"
    if k == "new":
        return "new %s" % n.get("alloc")
    if k == "initlist":
        return "{%s}" % ", ".join(d(a) for a in n.get("els", []))
    if k == "subscript":
        return "%s[%s]" % (d(n.get("base")), d(n.get("idx")))
    if k == "return":
        return "return %s" % d(n.get("e")) if n.get("e") else "return"
    return "<%s>" % k


def inline_accessor(facts, n):
    """If n is a call of a repo function whose body is a single `return <expr>;` with no parameters, return that expr."""
    n = skip_copies(n)
    if not (isinstance(n, dict) and n.get("k") == "call" and n.get("fn") in facts.fns):
        return None
    f = facts.fns[n["fn"]]
    if f.params:
        return None
    b = f.body
    if not (isinstance(b, dict) and b.get("k") == "compound" and len(b.get("body", [])) == 1):
        return None
    r = b["body"][0]
    if r.get("k") != "return" or not isinstance(r.get("e"), dict):
        return None
    return r["e"]


def single_assignment_init(fn, decl):
    """initialiser of a local variable that is written nowhere else in fn (else None)"""
    cache = fn.__dict__.setdefault("_sai", {})
    if decl in cache:
        return cache[decl]
    init = None
    for n in fn.all_nodes():
        if n.get("k") == "decl":
            for v in n.get("vars", []):
                if v.get("decl") == decl and isinstance(v.get("init"), dict) and not v.get("static"):
                    init = v["init"]
    if init is not None:
        for r in fn.all_nodes():
            if r.get("k") == "ref" and r.get("decl") == decl:
                pid = fn.parent.get(r["id"])
                p = fn.nodes.get(pid) if pid is not None else None
                if p is None:
                    continue
                k = p.get("k")
                if k == "binop" and p.get("op", "").endswith("=") and p["op"] not in ("==", "!=", "<=", ">=") and p.get("lhs", {}).get("id") == r["id"]:
                    init = None
                elif k == "unop" and p.get("op") in ("++", "--", "&"):
                    init = None
                elif k == "call" and p.get("ck") == "operator" and p.get("args") and p["args"][0].get("id") == r["id"] and (p.get("op", "").endswith("=") and p["op"] not in ("==", "!=", "<=", ">=") or p.get("op") in ("++", "--")):
                    init = None
                elif k == "call" and p.get("ck") == "member" and isinstance(p.get("obj"), dict) and p["obj"].get("id") == r["id"] and p.get("constm") is False \
                        and not (r.get("type") or "").rstrip().endswith("*"):
                    init = None
                if init is None:
                    break
    cache[decl] = init
    return init
