"""Zone abstract domain (difference-bound matrices) over named integer symbols.

A DBM holds constraints  x - y <= c  between symbols; the pseudo symbol Z is the constant 0, so  x <= c  is
x - Z <= c  and  x >= c  is  Z - x <= -c.  Matrices are kept *closed* (shortest paths) after every operation,
which makes entailment, join and projection exact for the domain.  Values are mathematical integers: the
interpreter, not the domain, is responsible for wrap-around (it refuses unsigned subtraction it cannot bound).

On top of the matrix a state carries
  taint   sym -> T    an upper bound for the value of sym in executions where the value was derived from an integer
                      parsed out of untrusted text (absent: not derived from one; INF: no bound)
  unk     set(sym)    symbols whose value came from a construct the interpreter does not model (a failed proof
                      that involves one is "undecidable", not a violation)
  impl    [(t, x, y, c)]  deferred facts "if t >= 0 then x - y <= c" (indexOf: found => result >= from)
"""
INF = float("inf")
Z = "Z"


class DBM:
    __slots__ = ("m", "taint", "unk", "impl", "bottom")

    def __init__(self):
        self.m = {Z: {Z: 0}}
        self.taint = {}
        self.unk = set()
        self.impl = []
        self.bottom = False

    # ------------------------------------------------------------------ basics
    def copy(self):
        d = DBM()
        d.m = {x: dict(r) for x, r in self.m.items()}
        d.taint = dict(self.taint)
        d.unk = set(self.unk)
        d.impl = list(self.impl)
        d.bottom = self.bottom
        return d

    def has(self, x):
        return x in self.m

    def ensure(self, x):
        if x in self.m:
            return
        for r in self.m.values():
            r[x] = INF
        self.m[x] = {y: INF for y in self.m}
        self.m[x][x] = 0

    def get(self, x, y):
        """upper bound of x - y (INF if unknown)"""
        if x == y:
            return 0
        r = self.m.get(x)
        if r is None:
            return INF
        return r.get(y, INF)

    def upper(self, x):
        return self.get(x, Z)

    def lower(self, x):
        v = self.get(Z, x)
        return -v if v != INF else -INF

    def add(self, x, y, c):
        """conjoin x - y <= c, keep closed"""
        if self.bottom or c == INF:
            return
        self.ensure(x)
        self.ensure(y)
        if x == y:
            if c < 0:
                self.bottom = True
            return
        m = self.m
        if c >= m[x][y]:
            return
        if m[y][x] + c < 0:
            self.bottom = True
            return
        # incremental closure: paths i -> x -(c)-> y -> j
        col_x = [(i, m[i][x]) for i in m if m[i][x] != INF]
        row_y = [(j, v) for j, v in m[y].items() if v != INF]
        for i, dix in col_x:
            ri = m[i]
            base = dix + c
            for j, dyj in row_y:
                v = base + dyj
                if v < ri[j]:
                    ri[j] = v
        self._apply_impl()

    def add_upper(self, x, c):
        self.add(x, Z, c)

    def add_lower(self, x, c):
        self.add(Z, x, -c)

    def add_eq(self, x, y, c=0):
        """x == y + c"""
        self.add(x, y, c)
        self.add(y, x, -c)

    def forget(self, x):
        if x in self.m:
            del self.m[x]
            for r in self.m.values():
                r.pop(x, None)
        self.taint.pop(x, None)
        self.unk.discard(x)
        if self.impl:
            self.impl = [i for i in self.impl if x not in (i[0], i[1], i[2])]

    def syms(self):
        return [x for x in self.m if x != Z]

    # ------------------------------------------------------------------ transfer
    def assign_const(self, x, c):
        self.forget(x)
        self.ensure(x)
        self.add(x, Z, c)
        self.add(Z, x, -c)

    def assign_top(self, x, unknown=False):
        self.forget(x)
        self.ensure(x)
        if unknown:
            self.unk.add(x)

    def assign_shift(self, x, c):
        """x := x + c (exact)"""
        if x not in self.m or c == 0:
            return
        m = self.m
        for j in m:
            if j != x:
                if m[x][j] != INF:
                    m[x][j] += c
                if m[j][x] != INF:
                    m[j][x] -= c
        if x in self.taint and self.taint[x] != INF:
            self.taint[x] += c
        if self.impl:
            self.impl = [i for i in self.impl if x not in (i[0], i[1], i[2])]

    def assign_sym(self, x, y, c=0):
        """x := y + c"""
        if x == y:
            self.assign_shift(x, c)
            return
        t = self.taint.get(y)
        u = y in self.unk
        self.forget(x)
        self.ensure(x)
        self.ensure(y)
        self.add(x, y, c)
        self.add(y, x, -c)
        if t is not None:
            self.taint[x] = t + c if t != INF else INF
        if u:
            self.unk.add(x)
        if c == 0 and self.impl:
            extra = []
            for i in self.impl:
                if y in (i[0], i[1], i[2]):
                    extra.append(tuple(x if v == y else v for v in i[:3]) + (i[3],))
            self.impl += extra
            self._apply_impl()

    def shrink(self, x, by_at_least=0):
        """x := some value in [0, x - by_at_least] (upper bounds kept, lower bounds dropped)"""
        if x not in self.m:
            self.ensure(x)
            self.add(Z, x, 0)
            return
        if by_at_least:
            self.assign_shift(x, -by_at_least)
        m = self.m
        for i in m:
            if i != x:
                m[i][x] = INF
        # re-close is not needed: removing constraints of a closed matrix on one column keeps the rest closed
        self.add(Z, x, 0)
        if self.impl:
            self.impl = [i for i in self.impl if x not in (i[0], i[1], i[2])]

    # ------------------------------------------------------------------ lattice
    def _apply_impl(self):
        if not self.impl or self.bottom:
            return
        pending = self.impl
        self.impl = []
        rest = []
        fired = []
        for (t, x, y, c) in pending:
            if self.get(Z, t) <= 0:  # t >= 0 established
                fired.append((x, y, c))
            elif self.get(t, Z) < 0:  # t < 0: vacuous for good
                continue
            else:
                rest.append((t, x, y, c))
        self.impl = rest
        for x, y, c in fired:
            self.add(x, y, c)

    def entails(self, x, y, c):
        return self.bottom or self.get(x, y) <= c

    def leq(self, other):
        """self ⊑ other (self is at least as precise)"""
        if self.bottom:
            return True
        if other.bottom:
            return False
        for x, r in other.m.items():
            for y, c in r.items():
                if c != INF and x != y and self.get(x, y) > c:
                    return False
        for s, t in self.taint.items():
            ot = other.taint.get(s)
            if ot is None or ot < t:
                return False
        if not self.unk <= other.unk:
            return False
        return True

    def _combine(self, other, widen):
        if self.bottom:
            return other.copy()
        if other.bottom:
            return self.copy()
        d = DBM()
        keys = [x for x in self.m if x in other.m]
        d.m = {x: {} for x in keys}
        for x in keys:
            rs, ro, rd = self.m[x], other.m[x], d.m[x]
            for y in keys:
                a, b = rs[y], ro[y]
                if widen:
                    rd[y] = a if b <= a else INF
                else:
                    rd[y] = a if a >= b else b
        for s in set(self.taint) | set(other.taint):
            if s in d.m:
                a, b = self.taint.get(s), other.taint.get(s)
                d.taint[s] = max(x for x in (a, b) if x is not None)
                if widen and a is not None and b is not None and b > a:
                    d.taint[s] = INF
        d.unk = {s for s in (self.unk | other.unk) if s in d.m}
        # an implication survives if both sides have it, or the side lacking it already has the conclusion / a dead trigger
        imp = []
        for i in set(self.impl) | set(other.impl):
            ok = True
            for side in (self, other):
                if i in side.impl:
                    continue
                t, x, y, c = i
                if side.get(x, y) <= c or side.get(t, Z) < 0:
                    continue
                ok = False
            if ok and all(v in d.m for v in (i[0], i[1], i[2])):
                imp.append(i)
        d.impl = imp
        if widen:
            d.close()
        return d

    def join(self, other):
        return self._combine(other, False)

    def widen(self, other):
        return self._combine(other, True)

    def close(self):
        m = self.m
        ks = list(m)
        for k in ks:
            rk = m[k]
            for i in ks:
                dik = m[i][k]
                if dik == INF:
                    continue
                ri = m[i]
                for j in ks:
                    v = dik + rk[j]
                    if v < ri[j]:
                        ri[j] = v
        for k in ks:
            if m[k][k] < 0:
                self.bottom = True
                return
        self._apply_impl()

    # ------------------------------------------------------------------ debugging
    def show(self, names=None, only=None):
        if self.bottom:
            return "BOTTOM"
        nm = lambda s: (names or {}).get(s, s)
        out = []
        for x in self.m:
            if only and x not in only and x != Z:
                continue
            for y, c in self.m[x].items():
                if x == y or c == INF:
                    continue
                if only and y not in only and y != Z:
                    continue
                if y == Z:
                    out.append("%s<=%s" % (nm(x), c))
                elif x == Z:
                    out.append("%s>=%s" % (nm(y), -c))
                else:
                    out.append("%s-%s<=%s" % (nm(x), nm(y), c))
        return ", ".join(sorted(out))
