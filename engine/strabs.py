"""Abstract evaluation of string-building code: a QString value is a set of alternatives, each a sequence of pieces
    ("c", text)                       constant text
    ("h", node, escaped: bool)        a run-time value (the expression node; escaped = passed through QRegularExpression::escape)
Handles literals, .arg() chains, operator+ / += / append, locals assigned on both arms of an if, helper functions that build
and return the string or a QRegularExpression (parameters are bound to the caller's argument values). Loops that modify a
tracked string make it unknown. Used to recover the regular expressions a function matches with, however they are assembled."""
import re

from .facts import skip_copies, const_str, is_call, name_is, strip_tmpl, walk, describe
from .extract import AnalysisBroken

MAX_ALT = 16
OWNER = {}   # id(expression node object) -> Fn that contains it (pieces can come from helper functions)
STR_TYPES = ("QString", "const QString", "QLatin1String", "QByteArray", "const QByteArray", "QStringView")


LIST_TYPES = ("QStringList", "QList<QString>", "QVector<QString>", "std::vector<QString>", "QList<QByteArray>", "QByteArrayList")


def _is_list(t):
    t = (t or "").replace("&", "").replace("const ", "").strip()
    return t in LIST_TYPES or t.startswith("std::vector<QString,")


def const_char(n):
    """the character of a QChar / QLatin1Char / char expression, if constant"""
    cs = const_str(n)
    if cs is not None:
        return cs
    cands = [x for x in walk(n) if x.get("k") in ("char", "int") and x.get("cv") is not None]
    if len(cands) == 1 and not any(x.get("k") in ("ref", "call", "member", "this") for x in walk(n)):
        try:
            return chr(int(cands[0]["cv"]))
        except (ValueError, TypeError):
            return None
    return None


def _is_str(t):
    t = (t or "").replace("&", "").strip()
    return t in STR_TYPES or t.startswith("QStringBuilder")


class StrEval:
    def __init__(self, facts, fn, params=None, depth=0):
        self.F = facts
        self.fn = fn
        self.params = params or {}     # param decl -> alternatives
        self.depth = depth
        self.regexes = []              # (alternatives, construct node, fn) for every QRegularExpression built or obtained
        self.returns = []              # alternatives of returned strings / regex patterns
        self.rx_locals = {}            # decl -> alternatives (locals holding a QRegularExpression)

    # ---- values
    def hole(self, n, escaped=False):
        OWNER[id(n)] = self.fn
        return [[("h", n, escaped)]]

    def val(self, n, env):
        """alternatives of a string-valued expression"""
        n = skip_copies(n)
        if not isinstance(n, dict):
            return None
        cs = const_str(n)
        if cs is not None:
            return [[("c", cs)]]
        k = n.get("k")
        if k == "ref":
            d = n.get("decl")
            if d in env:
                return env[d]
            if d in self.params:
                return self.params[d]
            return self.hole(n)
        if k == "call":
            callee = strip_tmpl(n.get("callee") or "")
            short = callee.split("::")[-1]
            if callee.endswith("QRegularExpression::escape") and n.get("args"):
                inner = self.val(n["args"][0], env)
                if inner and all(all(p[0] == "c" for p in alt) for alt in inner):
                    return [[("c", re.escape(alt_text(alt)))] for alt in inner]
                OWNER[id(n)] = self.fn
                return [[("h", n, True)]]
            if short == "arg" and n.get("ck") == "member":
                base = self.val(n.get("obj"), env)
                if base is None:
                    return self.hole(n)
                args = [a for a in n.get("args", []) if a.get("k") != "defaultarg" and _is_str((a.get("type") or "")) or skip_copies(a).get("k") in ("str", "qstr", "call", "ref", "construct")]
                args = [a for a in n.get("args", []) if a.get("k") != "defaultarg"]
                out = base
                for a in args:
                    av = self.val(a, env) or self.hole(a)
                    out = [subst_lowest(alt, v) for alt in out for v in av][:MAX_ALT]
                return out
            if n.get("ck") == "operator" and n.get("op") in ("+", "%") and len(n.get("args", [])) == 2:
                a, b = self.val(n["args"][0], env), self.val(n["args"][1], env)
                a = a or self.hole(n["args"][0])
                b = b or self.hole(n["args"][1])
                return [x + y for x in a for y in b][:MAX_ALT]
            if short == "join" and n.get("ck") == "member" and len([a for a in n.get("args", []) if a.get("k") != "defaultarg"]) == 1:
                o = skip_copies(n.get("obj"))
                lst = env.get(("L", o.get("decl"))) if isinstance(o, dict) and o.get("k") == "ref" else None
                if lst is None and isinstance(o, dict):
                    lst = self.list_val(o, env)
                sep = const_char(n["args"][0])
                if lst is not None and sep is not None:
                    out = []
                    for els in lst:
                        alt = []
                        for i, e in enumerate(els):
                            if i and sep:
                                alt.append(("c", sep))
                            alt += list(e)
                        out.append(alt)
                    return dedupe(out)
                return self.hole(n)
            if callee in ("QDir::filePath", "QDir::absoluteFilePath") and len(n.get("args", [])) == 1:
                # <directory>/<name>: the directory is a run-time piece, the name is what is being built
                inner = self.val(n["args"][0], env) or self.hole(n["args"][0])
                OWNER[id(n.get("obj"))] = self.fn
                return [[("h", n.get("obj"), False), ("c", "/")] + list(alt) for alt in inner][:MAX_ALT]
            if short in ("fromLatin1", "fromUtf8", "fromLocal8Bit") and n.get("args"):
                return self.val(n["args"][0], env)
            # helper of the repository returning a string
            f = self.F.fns.get(n.get("fn"))
            if f is not None and f.body is not None and self.depth < 3 and _is_str(n.get("type")):
                sub = self.sub_eval(f, n, env)
                if sub.returns:
                    return dedupe([alt for r in sub.returns for alt in r])
            return self.hole(n)
        if k == "construct" and n.get("class") in ("QString", "QLatin1String", "QByteArray") and len(n.get("args", [])) == 1:
            return self.val(n["args"][0], env)
        if k == "construct" and n.get("class") in ("QString", "QLatin1String", "QByteArray") and not [a for a in n.get("args", []) if a.get("k") != "defaultarg"]:
            return [[("c", "")]]          # QString(): the empty text
        if k == "binop" and n.get("op") == "+":
            a, b = self.val(n.get("lhs"), env) or self.hole(n.get("lhs")), self.val(n.get("rhs"), env) or self.hole(n.get("rhs"))
            return [x + y for x in a for y in b][:MAX_ALT]
        if k == "cond":
            a, b = self.val(n.get("t"), env) or self.hole(n.get("t")), self.val(n.get("f"), env) or self.hole(n.get("f"))
            return dedupe(a + b)
        return self.hole(n)

    def list_val(self, n, env):
        """alternatives of a string-list-valued expression: [[element alt, ...], ...] or None"""
        n = skip_copies(n)
        if not isinstance(n, dict):
            return None
        if n.get("k") == "ref":
            return env.get(("L", n.get("decl")))
        if n.get("k") == "construct" and _is_list(n.get("class") or n.get("type")):
            args = [a for a in n.get("args", []) if a.get("k") != "defaultarg"]
            if not args:
                return [[]]
            if len(args) == 1 and skip_copies(args[0]).get("k") == "initlist":
                lists = [[]]
                for e in skip_copies(args[0]).get("els", []):
                    ev = self.val(e, env) or self.hole(e)
                    lists = [l + [v] for l in lists for v in ev][:MAX_ALT]
                return lists
            if len(args) == 1 and n.get("copy"):
                return self.list_val(args[0], env)
        if n.get("k") == "initlist":
            lists = [[]]
            for e in n.get("els", []):
                ev = self.val(e, env) or self.hole(e)
                lists = [l + [v] for l in lists for v in ev][:MAX_ALT]
            return lists
        return None

    def sub_eval(self, f, call, env):
        binds = {}
        for p, a in zip(f.params, call.get("args", [])):
            if _is_str(p.get("type")):
                binds[p["decl"]] = self.val(a, env) or self.hole(a)
        sub = StrEval(self.F, f, binds, self.depth + 1)
        sub.run()
        return sub

    def regex_of(self, n, env):
        """alternatives of the pattern of a QRegularExpression-valued expression"""
        n = skip_copies(n)
        if not isinstance(n, dict):
            return None
        if n.get("k") == "construct" and n.get("class") == "QRegularExpression" and n.get("args") and not n.get("copy"):
            v = self.val(n["args"][0], env) or self.hole(n["args"][0])
            self.regexes.append((v, n, self.fn))
            return v
        if n.get("k") == "construct" and n.get("class") == "QRegularExpression" and n.get("copy") and n.get("args"):
            return self.regex_of(n["args"][0], env)
        if n.get("k") == "ref" and n.get("decl") in self.rx_locals:
            return self.rx_locals[n["decl"]]
        if n.get("k") == "call":
            f = self.F.fns.get(n.get("fn"))
            if f is not None and f.body is not None and self.depth < 3 and "QRegularExpression" in (n.get("type") or ""):
                sub = self.sub_eval(f, n, env)
                v = dedupe([alt for r in sub.returns for alt in r]) if sub.returns else None
                if v:
                    self.regexes.append((v, n, self.fn))
                return v
        return None

    # ---- statements
    def run(self):
        self.exec(self.fn.body, {})
        return self

    def exec(self, n, env):
        """returns env after the statement (None if the path ended in a return)"""
        if not isinstance(n, dict) or env is None:
            return env
        k = n.get("k")
        if k == "compound":
            for s in n.get("body", []):
                env = self.exec(s, env)
                if env is None:
                    return None
            return env
        if k == "decl":
            for v in n.get("vars", []):
                init = v.get("init")
                if not isinstance(init, dict):
                    if _is_str(v.get("type")):
                        env = dict(env)
                        env[v["decl"]] = [[]]
                    elif _is_list(v.get("type")):
                        env = dict(env)
                        env[("L", v["decl"])] = [[]]
                    continue
                t = v.get("type") or ""
                if _is_list(t):
                    lv = self.list_val(init, env)
                    if lv is not None:
                        env = dict(env)
                        env[("L", v["decl"])] = lv
                    else:
                        self.scan(init, env)
                    continue
                if "QRegularExpression" in t and "Match" not in t:
                    r = self.regex_of(init, env)
                    if r:
                        self.rx_locals[v["decl"]] = r
                    continue
                it = skip_copies(init)
                if _is_str(t) or (t in ("auto", "const auto") and _is_str(it.get("type"))):
                    env = dict(env)
                    env[v["decl"]] = self.val(init, env) or self.hole(init)
                else:
                    self.scan(init, env)
            return env
        if k == "if":
            self.scan(n.get("cond"), env)
            # `if (s.isEmpty())` on a tracked local: s is the empty text on that arm
            ea, eb = dict(env), dict(env)
            c, neg = skip_copies(n.get("cond")), False
            while isinstance(c, dict) and c.get("k") == "unop" and c.get("op") == "!":
                c, neg = skip_copies(c.get("e")), not neg
            if is_call(c, ("QString::isEmpty", "QString::isNull", "QByteArray::isEmpty")):
                o = skip_copies(c.get("obj"))
                if isinstance(o, dict) and o.get("k") == "ref" and o.get("decl") in env and not (isinstance(n.get("init"), dict)):
                    (eb if neg else ea)[o["decl"]] = [[]]
            a = self.exec(n.get("then"), ea) if isinstance(n.get("then"), dict) else ea
            b = self.exec(n.get("else"), eb) if isinstance(n.get("else"), dict) else eb
            if a is None:
                return b
            if b is None:
                return a
            out = {}
            for d in set(a) | set(b):
                if isinstance(d, tuple):
                    # a list known on one arm only is unknown after the join
                    if d in a and d in b:
                        both = a[d] + [x for x in b[d] if x not in a[d]]
                        out[d] = both[:MAX_ALT]
                    continue
                out[d] = dedupe((a.get(d) or []) + (b.get(d) or []))
            return out
        if k == "return":
            e = n.get("e")
            if isinstance(e, dict):
                t = e.get("type") or ""
                if "QRegularExpression" in t:
                    r = self.regex_of(e, env)
                    if r:
                        self.returns.append(r)
                elif _is_str(t) or _is_str(skip_copies(e).get("type")):
                    self.returns.append(self.val(e, env) or self.hole(e))
                else:
                    self.scan(e, env)
            return None
        if k in ("for", "while", "do", "rangefor"):
            # strings modified inside a loop become unknown; regexes constructed inside are still collected
            env = dict(env)
            for x in walk(n):
                tgt = None
                if x.get("k") == "call" and x.get("ck") == "operator" and x.get("op") in ("=", "+=") and x.get("args"):
                    tgt = skip_copies(x["args"][0])
                elif x.get("k") == "call" and x.get("ck") == "member" and x.get("constm") is False:
                    tgt = skip_copies(x.get("obj"))
                if isinstance(tgt, dict) and tgt.get("k") == "ref" and tgt.get("decl") in env:
                    env[tgt["decl"]] = self.hole(tgt)
                if isinstance(tgt, dict) and tgt.get("k") == "ref" and ("L", tgt.get("decl")) in env:
                    del env[("L", tgt["decl"])]
                if x.get("k") == "call" and x.get("ck") == "operator" and x.get("op") == "<<" and x.get("args"):
                    t2 = skip_copies(x["args"][0])
                    if isinstance(t2, dict) and t2.get("k") == "ref":
                        env.pop(("L", t2.get("decl")), None)
            for key in ("init", "cond", "inc", "range"):
                if isinstance(n.get(key), dict):
                    self.scan(n[key], env) if n[key].get("k") != "decl" else self.exec(n[key], env)
            body = n.get("body")
            if isinstance(body, dict):
                self.exec(body, dict(env))
            return env
        if k in ("switch", "try"):
            for x in walk(n):
                if x.get("k") == "construct" and x.get("class") == "QRegularExpression":
                    self.regex_of(x, env)
            return env
        # expression statement
        return self.expr_stmt(n, env)

    def expr_stmt(self, n, env):
        x = skip_copies(n)
        if isinstance(x, dict) and x.get("k") == "call":
            args = x.get("args", [])
            if x.get("ck") == "operator" and x.get("op") in ("=", "+=") and len(args) == 2:
                l = skip_copies(args[0])
                if isinstance(l, dict) and l.get("k") == "ref" and (l.get("decl") in env or _is_str(l.get("type"))):
                    rv = self.val(args[1], env) or self.hole(args[1])
                    env = dict(env)
                    if x["op"] == "=":
                        env[l["decl"]] = rv
                    else:
                        cur = env.get(l["decl"]) or self.hole(l)
                        env[l["decl"]] = [a + b for a in cur for b in rv][:MAX_ALT]
                    return env
                if isinstance(l, dict) and "QRegularExpression" in (l.get("type") or "") and x["op"] == "=":
                    r = self.regex_of(args[1], env)
                    if r and l.get("k") == "ref":
                        self.rx_locals[l["decl"]] = r
                    return env
            lst_tgt = None
            if x.get("ck") == "member" and (x.get("callee") or "").split("::")[-1] in ("append", "prepend", "push_back", "push_front") and len(args) == 1:
                lst_tgt = skip_copies(x.get("obj"))
                how, el = ("front" if (x.get("callee") or "").split("::")[-1] in ("prepend", "push_front") else "back"), args[0]
            elif x.get("ck") == "operator" and x.get("op") in ("<<", "+=") and len(args) == 2:
                lst_tgt = skip_copies(args[0])
                how, el = "back", args[1]
            elif x.get("ck") == "operator" and x.get("op") == "=" and len(args) == 2 and _is_list(skip_copies(args[0]).get("type")):
                l = skip_copies(args[0])
                if l.get("k") == "ref":
                    env = dict(env)
                    lv = self.list_val(args[1], env)
                    if lv is None:
                        env.pop(("L", l["decl"]), None)
                    else:
                        env[("L", l["decl"])] = lv
                    return env
            if isinstance(lst_tgt, dict) and lst_tgt.get("k") == "ref" and ("L", lst_tgt.get("decl")) in env:
                key = ("L", lst_tgt["decl"])
                env = dict(env)
                if _is_list(skip_copies(el).get("type")):
                    add = self.list_val(el, env)
                    if add is None:
                        del env[key]
                        return env
                    env[key] = [(b + a if how == "front" else a + b) for a in env[key] for b in add][:MAX_ALT]
                else:
                    ev = self.val(el, env) or self.hole(el)
                    env[key] = [([v] + a if how == "front" else a + [v]) for a in env[key] for v in ev][:MAX_ALT]
                return env
            if x.get("ck") == "member" and x.get("constm") is False:
                o = skip_copies(x.get("obj"))
                if isinstance(o, dict) and o.get("k") == "ref" and ("L", o.get("decl")) in env:
                    env = dict(env)
                    del env[("L", o["decl"])]
                    return env
            if x.get("ck") == "member" and (x.get("callee") or "").split("::")[-1] in ("append", "prepend", "push_back") and len(args) == 1:
                o = skip_copies(x.get("obj"))
                if isinstance(o, dict) and o.get("k") == "ref" and o.get("decl") in env:
                    rv = self.val(args[0], env) or self.hole(args[0])
                    env = dict(env)
                    cur = env[o["decl"]]
                    if (x.get("callee") or "").endswith("prepend"):
                        env[o["decl"]] = [b + a for a in cur for b in rv][:MAX_ALT]
                    else:
                        env[o["decl"]] = [a + b for a in cur for b in rv][:MAX_ALT]
                    return env
            if x.get("ck") == "member" and x.get("constm") is False:
                o = skip_copies(x.get("obj"))
                if isinstance(o, dict) and o.get("k") == "ref" and o.get("decl") in env:
                    # any other in-place edit (replace, insert, ...): the value is no longer known piecewise
                    env = dict(env)
                    env[o["decl"]] = [[("h", x, False)]]
                    return env
        self.scan(n, env)
        return env

    def scan(self, n, env):
        """collect regular expressions constructed inside an arbitrary expression"""
        if not isinstance(n, dict):
            return
        for x in walk(n):
            if x.get("k") == "construct" and x.get("class") == "QRegularExpression" and not x.get("copy") and x.get("args"):
                if not any(r[1].get("id") == x.get("id") and r[2] is self.fn for r in self.regexes):
                    self.regex_of(x, env)
            elif x.get("k") == "call" and "QRegularExpression" in (x.get("type") or "") and x.get("fn") in self.F.fns and "Match" not in (x.get("type") or ""):
                if not any(r[1].get("id") == x.get("id") and r[2] is self.fn for r in self.regexes):
                    self.regex_of(x, env)


def alt_text(alt):
    return "".join(p[1] for p in alt if p[0] == "c")


def dedupe(alts):
    out, seen = [], set()
    for a in alts:
        key = tuple((p[0], p[1] if p[0] == "c" else p[1].get("id")) for p in a)
        if key not in seen:
            seen.add(key)
            out.append(a)
    return out[:MAX_ALT]


def subst_lowest(alt, value_alt):
    """QString::arg semantics: replace every occurrence of the lowest-numbered %N in the constant pieces by the value"""
    nums = []
    for p in alt:
        if p[0] == "c":
            nums += [int(m) for m in re.findall(r"%(\d{1,2})", p[1])]
    if not nums:
        return alt
    lo = min(nums)
    out = []
    for p in alt:
        if p[0] != "c":
            out.append(p)
            continue
        parts = re.split(r"%%%d(?!\d)" % lo, p[1])
        for i, part in enumerate(parts):
            if i:
                out += list(value_alt)
            if part:
                out.append(("c", part))
    return out


def render(alt):
    """(template with %1..%n for the holes, [hole nodes]) — the shape the template rules were written for"""
    t, args = "", []
    for p in alt:
        if p[0] == "c":
            t += p[1]
        else:
            args.append(p)
            t += "%%%d" % len(args)
    return t, args


def regex_templates(facts, fn):
    """[(template, [hole pieces], node)] for every regular expression `fn` builds or obtains from a helper"""
    ev = StrEval(facts, fn).run()
    out = []
    seen = set()
    for alts, node, f in ev.regexes:
        if f is not fn:
            continue
        for alt in alts:
            t, args = render(alt)
            key = (t, tuple(a[1].get("id") for a in args))
            if key in seen:
                continue
            seen.add(key)
            out.append((t, args, node))
    return out
