"""Path queries over clang's CFG, refined to one graph node per CFG element.

Vertices are (block id, element index); an empty block contributes one pseudo element. Edges out of a block's last
element carry the successor index (0 = condition true, 1 = condition false for two-way branches), the terminator kind and
the id of the terminator condition expression, so queries can be *projected* on a predicate (edges contradicting it are
dropped) — the only path sensitivity used.
"""
from .extract import AnalysisBroken
from .facts import skip_copies, const_int, name_is, strip_tmpl, walk, single_assignment_init

TWO_WAY = ("IfStmt", "ConditionalOperator", "BinaryOperator", "WhileStmt", "ForStmt", "DoStmt", "CXXForRangeStmt",
           "BinaryConditionalOperator")


class Edge:
    __slots__ = ("src", "dst", "idx", "termk", "cond", "nsucc", "label")

    def __init__(self, src, dst, idx=None, termk=None, cond=None, nsucc=1, label=None):
        self.src, self.dst, self.idx, self.termk, self.cond, self.nsucc, self.label = src, dst, idx, termk, cond, nsucc, label

    def __repr__(self):
        return "<%s->%s %s/%s>" % (self.src, self.dst, self.termk, self.idx)


class Graph:
    def __init__(self, fn):
        if fn.cfg is None:
            raise AnalysisBroken("no CFG for %s" % fn.sig)
        self.fn = fn
        self.blocks = {b["id"]: dict(b, succ=list(b.get("succ", []))) for b in fn.cfg["blocks"]}
        self._thread_short_circuits()
        self.el = {}
        self.out = {}
        self.inn = {}
        first, last = {}, {}
        for bid, b in self.blocks.items():
            els = b["els"] or [{"k": "nop"}]
            for i, e in enumerate(els):
                self.el[(bid, i)] = e
                self.out[(bid, i)] = []
                self.inn.setdefault((bid, i), [])
            first[bid] = (bid, 0)
            last[bid] = (bid, len(els) - 1)
            for i in range(len(els) - 1):
                self._add(Edge((bid, i), (bid, i + 1)))
        for bid, b in self.blocks.items():
            succ = b.get("succ", [])
            for idx, s in enumerate(succ):
                if s is None:
                    continue
                lab = self.blocks[s].get("label")
                self._add(Edge(last[bid], first[s], idx, b.get("termk"), b.get("cond"), len(succ), lab))
        self.entry = first[fn.cfg["entry"]]
        self.exit = first[fn.cfg["exit"]]
        self.keys = sorted(self.el.keys(), key=lambda k: (-k[0], k[1]))
        for n in fn.all_nodes():
            if n.get("k") in ("goto", "label"):
                raise AnalysisBroken("%s uses goto; structured path rules refuse to guess" % fn.sig)

    def _thread_short_circuits(self):
        """`if (a && b)`: clang joins the short-circuit edge of `a` and the value of `b` in one block that then branches on the
        whole expression. Arriving through the short-circuit edge the outcome is known, so that edge is sent straight to the
        corresponding successor (for &&: false, for ||: true). Without this a path on which `a` is false could appear to
        take the then-branch."""
        for J in self.blocks.values():
            cid = J.get("cond")
            succ = J.get("succ", [])
            if cid is None or len(succ) != 2 or J.get("termk") == "BinaryOperator":
                continue
            c = self.fn.nodes.get(cid)
            c = skip_copies(c) if c else None
            if not (isinstance(c, dict) and c.get("k") == "binop" and c.get("op") in ("&&", "||")):
                continue
            sels = [e for e in J["els"] if e.get("k") == "s"]
            if len(sels) != 1 or sels[0].get("n") != c.get("id"):
                continue
            op = c["op"]
            spine = set()
            x = c
            while isinstance(x, dict) and x.get("k") == "binop" and x.get("op") == op:
                l = skip_copies(x.get("lhs"))
                if isinstance(l, dict):
                    spine.add(l.get("id"))
                x = l
            for P in self.blocks.values():
                if P.get("threaded_cond") in spine and P.get("threaded_val") == (op == "||") and succ[1 if op == "&&" else 0] is not None:
                    # return path of a spliced helper whose constant result decides the short-circuit
                    P["succ"] = [succ[1 if op == "&&" else 0] if s_ == J["id"] else s_ for s_ in P["succ"]]
                    continue
                if P.get("termk") != "BinaryOperator" or P.get("cond") not in spine or len(P.get("succ", [])) != 2:
                    continue
                idx = 1 if op == "&&" else 0
                if P["succ"][idx] == J["id"] and succ[idx] is not None:
                    P["succ"][idx] = succ[idx]

    def _add(self, e):
        self.out[e.src].append(e)
        self.inn.setdefault(e.dst, []).append(e)

    # ---- sites
    def node_of(self, key):
        e = self.el[key]
        if e.get("k") in ("s", "init") and e.get("n") is not None:
            return self.fn.nodes.get(e["n"])
        return None

    def sites(self, pred):
        """keys whose element is a statement/expression node satisfying pred(node)"""
        out = []
        for k in self.keys:
            n = self.node_of(k)
            if n is not None and self.el[k].get("k") == "s" and pred(n):
                out.append(k)
        return out

    def site_of(self, node):
        nid = node["id"] if isinstance(node, dict) else node
        for k in self.keys:
            e = self.el[k]
            if e.get("k") in ("s", "init") and e.get("n") == nid:
                return k
        return None

    def sites_of_nodes(self, nodes):
        out = []
        for n in nodes:
            k = self.site_of(n)
            if k is None:
                raise AnalysisBroken("expression %s of %s has no CFG element" % (n.get("id"), self.fn.sig))
            out.append(k)
        return out

    def dtor_sites(self, decl):
        return [k for k in self.keys if self.el[k].get("k") == "dtor" and self.el[k].get("decl") == decl]

    # ---- reachability
    def reach(self, starts, blocked=(), keep=None, include_start=True):
        """all keys reachable from starts along kept edges without entering a blocked key"""
        blocked = set(blocked)
        seen = set()
        stack = []
        starts = list(starts)
        if any(s is None for s in starts):
            from .extract import AnalysisBroken
            raise AnalysisBroken("%s: an expression the rule anchors on is not a single element of the control-flow graph (split by && / || or folded away)" % self.fn.name)
        for s in starts:
            if include_start:
                if s not in blocked:
                    stack.append(s)
            else:
                for e in self.out[s]:
                    if (keep is None or keep(e)) and e.dst not in blocked:
                        stack.append(e.dst)
        while stack:
            k = stack.pop()
            if k in seen:
                continue
            seen.add(k)
            for e in self.out[k]:
                if keep is not None and not keep(e):
                    continue
                if e.dst in blocked or e.dst in seen:
                    continue
                stack.append(e.dst)
        return seen

    def live(self, keep=None):
        return self.reach([self.entry], keep=keep)

    def must_pass(self, targets, keep=None, frm=None, to=None):
        """every path frm(entry) -> to(exit) along kept edges executes a key in targets"""
        frm = self.entry if frm is None else frm
        to = self.exit if to is None else to
        if frm in targets:
            return True
        return to not in self.reach([frm], blocked=targets, keep=keep)

    def dominated(self, b, A, keep=None):
        """every path entry -> b passes a key of A first (b itself not counting)"""
        if self.entry in A and self.entry != b:
            return True
        r = self.reach([self.entry], blocked=set(A) - {b}, keep=keep)
        return b not in r

    def postdominated(self, a, B, keep=None):
        """after executing a, every path to the exit passes a key of B"""
        r = self.reach([a], blocked=set(B), keep=keep, include_start=False)
        return self.exit not in r

    def can_reach(self, a, b, keep=None, strict=True):
        r = self.reach([a], keep=keep, include_start=not strict)
        return b in r

    def in_cycle(self, a, keep=None):
        return self.can_reach(a, a, keep=keep, strict=True)

    def find_path(self, frm, to, blocked=(), keep=None):
        """one path (list of keys) frm -> to avoiding blocked keys, or None (for reports)"""
        blocked = set(blocked)
        prev = {frm: None}
        queue = [frm]
        while queue:
            k = queue.pop(0)
            if k == to and k != frm or (k == to and prev[k] is None and frm == to and False):
                break
            for e in self.out[k]:
                if keep is not None and not keep(e):
                    continue
                if e.dst in blocked or e.dst in prev:
                    continue
                prev[e.dst] = k
                queue.append(e.dst)
        if to not in prev:
            return None
        path = []
        k = to
        while k is not None:
            path.append(k)
            k = prev[k]
        return list(reversed(path))

    def render_path(self, path):
        from .facts import describe
        out = []
        for k in path or []:
            n = self.node_of(k)
            if n is not None and n.get("k") in ("call", "return", "construct", "binop", "unop", "break", "continue"):
                out.append("%s@%d" % (describe(n), n.get("l", 0)))
        return out

    # ---- predicate projection
    def effective_cond(self, edge):
        if edge.cond is None:
            return None
        n = self.fn.nodes.get(edge.cond)
        if edge.termk != "BinaryOperator":
            # `if (a && b)`: the if-terminator is reached only for the value of the right-most operand
            while isinstance(n, dict) and n.get("k") == "binop" and n.get("op") in ("&&", "||"):
                n = n.get("rhs")
            n = skip_copies(n) if n else n
        return n

    def projector(self, atom):
        """edge filter that drops edges contradicting `atom(node) -> True/False/None` (value of an atomic condition)"""
        def keep(e):
            if e.idx is None or e.nsucc != 2 or e.termk not in TWO_WAY:
                return True
            c = self.effective_cond(e)
            v = eval_cond(c, atom, self.fn)
            if v is None:
                return True
            return (e.idx == 0) == bool(v)
        return keep

    def branch_edges(self, key):
        """the two-way branch decided by the value computed at `key` (the cond of its block's terminator): (true_edge, false_edge, negated)"""
        bid = key[0]
        b = self.blocks[bid]
        return b

    # ---- dataflow
    def forward_must(self, transfer, init=frozenset(), keep=None):
        """state *before* each key; meet = intersection; transfer(key, state) -> state after key"""
        IN = {self.entry: frozenset(init)}
        work = [self.entry]
        OUT = {}
        while work:
            k = work.pop()
            o = transfer(k, IN[k])
            if OUT.get(k) == o and k in OUT:
                continue
            OUT[k] = o
            for e in self.out[k]:
                if keep is not None and not keep(e):
                    continue
                if e.dst not in IN:
                    IN[e.dst] = o
                    work.append(e.dst)
                else:
                    m = IN[e.dst] & o
                    if m != IN[e.dst]:
                        IN[e.dst] = m
                        work.append(e.dst)
        return IN, OUT


def eval_cond(n, atom, fn=None, _depth=0):
    """three-valued evaluation of a boolean expression given values of atoms; with fn, single-assignment locals are
    replaced by their initialiser (`const bool hit = a || b; if (!hit)`)"""
    n = skip_copies(n)
    if not isinstance(n, dict):
        return None
    v = atom(n)
    if v is not None:
        return v
    k = n.get("k")
    if fn is not None and k == "call" and n.get("inl_value") is not None and n["inl_value"] in fn.nodes and _depth < 4:
        # a spliced helper with a single `return <expr>`: the call has the value of that expression
        return eval_cond(fn.nodes[n["inl_value"]], atom, fn, _depth + 1)
    if fn is not None and k == "ref" and n.get("dk") == "local" and _depth < 4:
        init = single_assignment_init(fn, n.get("decl"))
        if init is not None:
            return eval_cond(init, atom, fn, _depth + 1)
        return None
    if k == "bool":
        return bool(n["v"])
    if k == "unop" and n.get("op") == "!":
        x = eval_cond(n.get("e"), atom, fn, _depth)
        return None if x is None else (not x)
    if k == "call" and n.get("ck") == "operator" and n.get("op") == "!" and len(n.get("args", [])) == 1:
        x = eval_cond(n["args"][0], atom, fn, _depth)
        return None if x is None else (not x)
    if k == "call" and n.get("ck") == "member" and (n.get("conv") or name_is(n.get("callee"), ("operator bool", "isNull", "data", "get", "operator->"))):
        x = eval_cond(n.get("obj"), atom, fn, _depth)
        if x is None:
            return None
        return (not x) if name_is(n.get("callee"), "isNull") else x
    if k == "binop" and n.get("op") in ("&&", "||"):
        a, b = eval_cond(n.get("lhs"), atom, fn, _depth), eval_cond(n.get("rhs"), atom, fn, _depth)
        if n["op"] == "&&":
            if a is False or b is False:
                return False
            if a is True and b is True:
                return True
            return None
        if a is True or b is True:
            return True
        if a is False and b is False:
            return False
        return None
    if k == "binop" and n.get("op") in ("==", "!="):
        for x, y in ((n.get("lhs"), n.get("rhs")), (n.get("rhs"), n.get("lhs"))):
            y = skip_copies(y)
            if isinstance(y, dict) and y.get("k") in ("null_lit", "bool", "int"):
                xv = eval_cond(x, atom, fn, _depth)
                if xv is None:
                    return None
                yv = False if y["k"] == "null_lit" else bool(y["v"])
                eq = (xv == yv)
                return eq if n["op"] == "==" else (not eq)
    return None
