"""developer aid: print the normalised tree and CFG of a function"""
import sys, json
from .extract import extract
from .facts import Facts, describe, children
from .cfg import Graph

def show(n, ind=0):
    if not isinstance(n, dict): return
    k = n.get("k")
    extra = ""
    if k in ("call","construct","ref","member","binop","unop","int","str","qstr","bool","return","cond","lambda","cast","new"):
        extra = describe(n)
    print("%s#%d %s @%d %s %s" % ("  "*ind, n["id"], k, n.get("l",0), extra[:140], ("cv=%s"%n["cv"]) if "cv" in n else ""))
    for c in children(n):
        show(c, ind+1)

def main(argv):
    cfg = "lib"
    if argv and argv[0].startswith("--config="):
        cfg = argv[0].split("=")[1]; argv = argv[1:]
    data = extract((cfg,) if cfg != "lib" else ("lib",))
    F = Facts(data["facts"][cfg], cfg)
    for name in argv:
        fs = F.fn_all(name)
        if not fs:
            fs = [f for f in F.fns.values() if name in f.sig]
        for f in fs:
            print("=====", f.sig, f.loc(), "unit", f.unit, "flags", {k: f.d.get(k) for k in ("virtual","final","override","inst","lambdaOf")})
            for i in f.inits:
                print(" init", i.get("member") or i.get("base"), "written" if i.get("written") else "implicit", describe(i.get("e")))
            show(f.body, 1)
            if f.cfg:
                g = Graph(f)
                for bid in sorted(g.blocks, reverse=True):
                    b = g.blocks[bid]
                    els = []
                    for e in b["els"]:
                        if e["k"] == "s":
                            n = f.nodes.get(e["n"]); els.append("#%d" % e["n"])
                        else:
                            els.append("%s(%s)" % (e["k"], e.get("name") or e.get("member") or e.get("base") or ""))
                    print("  B%d: %s  term=%s cond=%s succ=%s" % (bid, " ".join(els), b.get("termk"), b.get("cond"), b.get("succ")))

if __name__ == "__main__":
    main(sys.argv[1:])
