"""Builds the fact base from /repo's current working tree.

cmake (configure only) -> compile database -> library units + generated probe units -> qlx per unit.
Everything is produced in a fresh scratch directory outside /repo and /verif which is removed again;
the merged fact base is kept under /verif/.cache keyed by a hash of *every* input file (the whole
/repo tree except build output and .git, the qlx binary, this file), so an unchanged tree is not
re-parsed but any edit is.
"""
import hashlib
import json
import os
import shutil
import subprocess
import sys
import tempfile
import time
from concurrent.futures import ThreadPoolExecutor

VERIF = os.path.dirname(os.path.dirname(os.path.abspath(__file__)))
REPO = os.environ.get("VERIF_REPO", "/repo")
QLX = os.path.join(VERIF, ".build", "qlx")
CACHE = os.environ.get("VERIF_CACHE_DIR") or os.path.join(VERIF, ".cache")

# The one front-end discrepancy between g++ (the real build) and clang 14: qRegisterMetaType<LogMessage>()
# instantiates QMetaTypeFunctionHelper<LogMessage>::Construct, whose `new (where) T` needs the implicitly
# deleted default constructor path (CWG 253 / const member without initialiser). g++ accepts it.
ALLOWED_DIAG = [
    ("qmetatype.h", "default initialization of an object of const type"),
    ("qmetatype.h", "call to implicitly-deleted default constructor"),
    ("qmetatype.h", "implicitly-deleted default constructor"),
]


class AnalysisBroken(Exception):
    pass


def tree_hash(extra=()):
    h = hashlib.sha256()
    skip_dirs = {".git", "_build", "build"}
    for base in [REPO]:
        for root, dirs, files in os.walk(base):
            dirs[:] = sorted(d for d in dirs if d not in skip_dirs)
            for f in sorted(files):
                p = os.path.join(root, f)
                try:
                    with open(p, "rb") as fh:
                        data = fh.read()
                except OSError:
                    continue
                h.update(p.encode())
                h.update(b"\0")
                h.update(hashlib.sha256(data).digest())
    for p in [QLX, os.path.abspath(__file__)] + list(extra):
        with open(p, "rb") as fh:
            h.update(hashlib.sha256(fh.read()).digest())
    return h.hexdigest()[:24]


PROBE_OWNTHREAD = """// generated probe unit: no repository code, only instantiation requests
#include "{repo}/src/qtlogger/ownthreadhandler.h"
#include "{repo}/src/qtlogger/pipeline.h"
#include "{repo}/src/qtlogger/simplepipeline.h"
template class QtLogger::OwnThreadHandler<QtLogger::Pipeline>;
template class QtLogger::OwnThreadHandler<QtLogger::SimplePipeline>;
"""

PROBE_HEADERONLY = """// generated probe unit: the amalgamated single header as a header-only user sees it
#include "{repo}/qtlogger.h"
template class QtLogger::OwnThreadHandler<QtLogger::Pipeline>;
template class QtLogger::OwnThreadHandler<QtLogger::SimplePipeline>;
"""


def _run(cmd, **kw):
    return subprocess.run(cmd, stdout=subprocess.PIPE, stderr=subprocess.STDOUT, text=True, **kw)


def _library_entries(scratch):
    r = _run(["cmake", "-S", REPO, "-B", os.path.join(scratch, "b"), "-G", "Ninja",
              "-DCMAKE_EXPORT_COMPILE_COMMANDS=ON"])
    dbp = os.path.join(scratch, "b", "compile_commands.json")
    if r.returncode != 0 or not os.path.exists(dbp):
        raise AnalysisBroken("cmake configure failed: " + r.stdout[-2000:])
    db = json.load(open(dbp))
    seen = set()
    lib = []
    skipped = []
    for e in db:
        out = e.get("output", "")
        if "CMakeFiles/qtlogger.dir/" not in out:
            continue
        f = e["file"]
        if f in seen:
            continue
        seen.add(f)
        if not f.startswith(REPO + "/"):
            skipped.append(f)  # mocs_compilation.cpp: exists only after a build; moc output holds no library logic
            continue
        lib.append(e)
    if not lib:
        raise AnalysisBroken("no library units in the compile database")
    return lib, skipped


def _flags_of(entry):
    import shlex
    args = shlex.split(entry["command"]) if "command" in entry else list(entry["arguments"])
    out = []
    skip = False
    for a in args[1:]:
        if skip:
            skip = False
            continue
        if a in ("-o", "-c"):
            skip = a == "-o"
            continue
        if a == entry["file"]:
            continue
        out.append(a)
    if not any(a.startswith("-std=") for a in out):
        out.append("-std=gnu++17")
    return args[0], out


def extract(configs=("lib",), verbose=False):
    """Returns (facts dict, meta dict). configs: subset of {"lib", "headeronly", "nothread"}."""
    t0 = time.time()
    os.makedirs(CACHE, exist_ok=True)
    key = tree_hash() + "-" + "+".join(sorted(configs))
    cpath = os.path.join(CACHE, key + ".json")
    if os.path.exists(cpath) and not os.environ.get("VERIF_NOCACHE"):
        try:
            data = json.load(open(cpath))
            data["meta"]["cached"] = True
            data["meta"]["extract_s"] = round(time.time() - t0, 2)
            return data
        except Exception:
            pass
    if not os.path.exists(QLX):
        raise AnalysisBroken("qlx is not built (run MANIFEST.setup_cmd)")
    scratch = tempfile.mkdtemp(prefix="qlverif.")
    try:
        lib, skipped = _library_entries(scratch)
        cc, flags = None, None
        for e in lib:
            if e["file"].endswith("/logger.cpp"):
                cc, flags = _flags_of(e)
        if flags is None:
            cc, flags = _flags_of(lib[0])
        units = []  # (config, name, file, dir, args)
        if "lib" in configs:
            for e in lib:
                c, fl = _flags_of(e)
                units.append(("lib", os.path.relpath(e["file"], REPO), e["file"], e["directory"], [c] + fl))
            p = os.path.join(scratch, "probe_ownthread.cpp")
            open(p, "w").write(PROBE_OWNTHREAD.format(repo=REPO))
            units.append(("lib", "<probe:ownthread>", p, scratch, [cc] + flags))
        if "headeronly" in configs:
            p = os.path.join(scratch, "probe_headeronly.cpp")
            open(p, "w").write(PROBE_HEADERONLY.format(repo=REPO))
            fl = [a for a in flags if not a.startswith("-DQTLOGGER_")]
            units.append(("headeronly", "<probe:headeronly>", p, scratch, [cc] + fl + ["-DQTLOGGER_SYSLOG"]))
        if "nothread" in configs:
            for e in lib:
                c, fl = _flags_of(e)
                units.append(("nothread", os.path.relpath(e["file"], REPO), e["file"], e["directory"],
                              [c] + fl + ["-DQTLOGGER_NO_THREAD"]))
        # one compile database per config
        outdir = os.path.join(scratch, "facts")
        os.makedirs(outdir)
        jobs = []
        for cfg in sorted(set(u[0] for u in units)):
            d = os.path.join(scratch, "db_" + cfg)
            os.makedirs(d)
            entries = [{"directory": u[3], "file": u[2], "arguments": u[4] + ["-c", u[2]]} for u in units if u[0] == cfg]
            json.dump(entries, open(os.path.join(d, "compile_commands.json"), "w"))
            for i, u in enumerate([u for u in units if u[0] == cfg]):
                out = os.path.join(outdir, "%s_%03d.json" % (cfg, i))
                jobs.append((u, d, out))

        def run(job):
            u, d, out = job
            r = _run([QLX, "-p", d, "--root", REPO + "/", "--enum", "QtMsgType", "--out", out, u[2]])
            return u, out, r

        nproc = os.cpu_count() or 4
        with ThreadPoolExecutor(max_workers=nproc) as ex:
            results = list(ex.map(run, jobs))
        facts = {}
        meta = {"units": [], "skipped_units": skipped, "configs": list(configs), "allowed_diagnostics": []}
        for u, out, r in results:
            if not os.path.exists(out):
                raise AnalysisBroken("qlx produced no output for %s: %s" % (u[1], r.stdout[-1500:]))
            data = json.load(open(out))
            for dg in data.get("diagnostics", []):
                ok = any(h in dg.get("file", "") and m in dg.get("msg", "") for h, m in ALLOWED_DIAG)
                if not ok:
                    err = AnalysisBroken("front-end error in %s: %s:%s: %s" % (u[1], dg.get("file"), dg.get("line"), dg.get("msg")))
                    err.diag = {"config": u[0], "unit": u[1], "file": dg.get("file") or "", "line": dg.get("line"), "msg": dg.get("msg") or ""}
                    raise err
                meta["allowed_diagnostics"].append("%s: %s" % (u[1], dg.get("msg")))
            cfg = facts.setdefault(u[0], {"functions": {}, "records": {}, "globals": {}, "enums": {}})
            nf = 0
            for f in data["functions"]:
                f["unit"] = u[1]
                if f["fn"] not in cfg["functions"]:
                    cfg["functions"][f["fn"]] = f
                    nf += 1
            for rcd in data["records"]:
                cfg["records"].setdefault(rcd["usr"], rcd)
            for g in data["globals"]:
                cfg["globals"].setdefault(g["decl"], g)
            for e in data["enums"]:
                if e["name"]:
                    cfg["enums"].setdefault(e["name"], e)
            meta["units"].append({"config": u[0], "unit": u[1], "functions": len(data["functions"]), "new_functions": nf})
        meta["extract_s"] = round(time.time() - t0, 2)
        meta["cached"] = False
        meta["tree_hash"] = key
        data = {"facts": facts, "meta": meta}
        tmp = cpath + ".tmp%d" % os.getpid()
        json.dump(data, open(tmp, "w"))
        os.replace(tmp, cpath)
        # keep the cache small
        ents = sorted((os.path.getmtime(os.path.join(CACHE, f)), f) for f in os.listdir(CACHE) if f.endswith(".json"))
        for _, f in ents[:-6]:
            try:
                os.remove(os.path.join(CACHE, f))
            except OSError:
                pass
        return data
    finally:
        shutil.rmtree(scratch, ignore_errors=True)


if __name__ == "__main__":
    cfgs = tuple(sys.argv[1:]) or ("lib",)
    try:
        d = extract(cfgs)
    except AnalysisBroken as e:
        print("ANALYSIS-BROKEN", e)
        sys.exit(2)
    print(json.dumps(d["meta"], indent=1))
    for c, f in d["facts"].items():
        print(c, len(f["functions"]), "functions", len(f["records"]), "records")
