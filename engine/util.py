"""Rule-level helpers shared by the per-property rule modules."""
from .extract import AnalysisBroken
from .facts import (walk, children, skip_copies, const_int, const_str, is_ref_to, is_field, is_this_field, is_call,
                    name_is, strip_tmpl, describe, inline_accessor)
from .cfg import Graph, eval_cond


def returns(fn):
    return fn.find(lambda n: n.get("k") == "return")


def all_returns_const(fn, value):
    """(ok, offending node) — every return of fn returns the constant `value`"""
    rs = returns(fn)
    if not rs:
        return None, None
    for r in rs:
        if const_int(r.get("e")) != int(value) or skip_copies(r.get("e")).get("k") not in ("bool", "int"):
            return False, r
    return True, None


def unwrap_ptr(n):
    """look through smart-pointer dereference (operator->, operator*, data(), get()) and address-of / deref pairs"""
    n = skip_copies(n)
    while isinstance(n, dict):
        if n.get("k") == "call" and n.get("ck") == "operator" and n.get("op") in ("->", "*") and len(n.get("args", [])) == 1:
            n = skip_copies(n["args"][0])
        elif n.get("k") == "call" and n.get("ck") == "member" and name_is(n.get("callee"), ("data", "get", "operator->", "operator*", "constData")) \
                and not n.get("args") and (n.get("cls") or "").startswith(("QSharedPointer", "QScopedPointer", "QPointer", "std::unique_ptr", "std::shared_ptr")):
            n = skip_copies(n.get("obj"))
        elif n.get("k") == "unop" and n.get("op") in ("*", "&"):
            n = skip_copies(n.get("e"))
        elif n.get("k") == "construct" and len(n.get("args", [])) == 1 and (n.get("class") or "") in ("QSharedPointer", "QPointer", "QWeakPointer"):
            n = skip_copies(n["args"][0])  # converting construction QSharedPointer<Derived> -> QSharedPointer<Base>
        else:
            break
    return n


def obj_is_param(call, fn, idx=0):
    o = unwrap_ptr(call.get("obj"))
    return isinstance(o, dict) and o.get("k") == "ref" and idx < len(fn.params) and is_ref_to(o, fn.params[idx]["decl"])


def arg_is_param(call, argidx, fn, pidx=0):
    a = call.get("args", [])
    if argidx >= len(a):
        return False
    x = skip_copies(a[argidx])
    return isinstance(x, dict) and x.get("k") == "ref" and is_ref_to(x, fn.params[pidx]["decl"])


def refs_to(fn, decl):
    return fn.find(lambda n: n.get("k") == "ref" and n.get("decl") == decl)


def local_var(fn, decl):
    """(decl-stmt node, var entry) of a local variable"""
    for n in fn.all_nodes():
        if n.get("k") == "decl":
            for v in n.get("vars", []):
                if v.get("decl") == decl:
                    return n, v
    return None, None


def assignment_target(fn, ref):
    """if `ref` is the left operand of an assignment (builtin or operator=), return (assign node, rhs) else (None, None)"""
    pid = fn.parent.get(ref["id"])
    if pid is None:
        return None, None
    p = fn.nodes[pid]
    if p.get("k") == "binop" and p.get("op") in ("=",) and p.get("lhs", {}).get("id") == ref["id"]:
        return p, p.get("rhs")
    if p.get("k") == "call" and p.get("ck") == "operator" and p.get("op") == "=" and p.get("args") and p["args"][0].get("id") == ref["id"]:
        return p, p["args"][1] if len(p["args"]) > 1 else None
    return None, None


def field_writes(facts, qname):
    """[(Fn, node, how)] — every syntactic write to field `qname` in the repo: assignment, compound assignment, ++/--,
    non-const member call on it, address-of / non-const reference escape. Reads are not reported."""
    out = []
    for f in sorted(facts.fns.values(), key=lambda f: (f.file, f.line, f.sig)):
        for n in sorted(f.all_nodes(), key=lambda n: n["id"]):
            if not is_field(n, qname) or n.get("k") != "member":
                continue
            how = write_kind(f, n)
            if how:
                out.append((f, n, how))
        for i in f.inits:
            if i.get("member") and name_is(strip_tmpl(i["member"]), qname) and i.get("written"):
                out.append((f, i.get("e") or {"id": -1, "l": f.line, "c": 0}, "ctor-init"))
    return out


NONMUTATING_NONCONST = ("begin", "end", "data", "operator[]", "first", "last", "front", "back", "find")


def write_kind(fn, n):
    """classify how expression node n (an lvalue) is used by its parent: returns None for a read"""
    pid = fn.parent.get(n["id"])
    if pid is None:
        return None
    p = fn.nodes[pid]
    k = p.get("k")
    if k == "binop" and p.get("op", "").endswith("=") and p["op"] not in ("==", "!=", "<=", ">=") and p.get("lhs", {}).get("id") == n["id"]:
        return "assign(%s)" % p["op"]
    if k == "unop" and p.get("op") in ("++", "--"):
        return "incdec(%s%s)" % (p["op"], " post" if p.get("postfix") else " pre")
    if k == "unop" and p.get("op") == "&":
        return "address-of"
    if k == "call" and p.get("ck") == "operator" and p.get("args") and p["args"][0].get("id") == n["id"]:
        op = p.get("op", "")
        if op.endswith("=") and op not in ("==", "!=", "<=", ">="):
            return "assign(operator%s)" % op
        if op in ("++", "--"):
            return "incdec(operator%s)" % op
        if op in ("<<", ">>") and not p.get("constm", True):
            return "call(operator%s)" % op
        return None
    if k == "call" and p.get("ck") == "member" and isinstance(p.get("obj"), dict) and p["obj"].get("id") == n["id"]:
        if (n.get("type") or "").rstrip().endswith("*"):
            return None  # a call through a pointer does not modify the pointer
        if p.get("constm") is False:
            return "call(%s)" % (p.get("callee") or "?").split("::")[-1]
        return None
    if k in ("call", "construct"):
        # passed as an argument: a write if the parameter is a non-const reference or pointer
        return None
    return None


def decl_of_loopvar(loop):
    return loop.get("var", {}).get("decl")


def find_loops(fn):
    return fn.find(lambda n: n.get("k") in ("rangefor", "for", "while", "do"))


def enclosing_loops(fn, node, local=False):
    """loops around node, innermost first; local=True stops at the boundary of a helper body that was spliced in"""
    out = []
    for a in fn.ancestors(node):
        if local and a.get("k") == "call" and a.get("inl_body") is not None:
            break
        if a.get("k") in ("rangefor", "for", "while", "do"):
            out.append(a)
    return out


def atom_eq(target_pred, value):
    """atom function: nodes satisfying target_pred evaluate to `value`"""
    def atom(n):
        if target_pred(n):
            return value
        return None
    return atom


def atoms(*pairs):
    def atom(n):
        for pred, val in pairs:
            if pred(n):
                return val
        return None
    return atom


def deref_local(fn, n):
    """if n is a reference to a local that is initialised once and never written again, its initialiser; else n"""
    n = skip_copies(n)
    seen = 0
    while fn is not None and isinstance(n, dict) and seen < 8:
        if n.get("k") == "call" and n.get("inl_value") is not None and n["inl_value"] in fn.nodes:
            # call of a helper spliced into this function that has a single `return <expr>`: the call stands for <expr>
            n = skip_copies(fn.nodes[n["inl_value"]])
            seen += 1
            continue
        if n.get("k") == "member" and n.get("dk") == "field" and isinstance(n.get("base"), dict) and skip_copies(n["base"]).get("k") == "ref" and skip_copies(n["base"]).get("dk") == "local":
            # `parts.suffix` where `parts` is a local aggregate initialised once from `{a, b}` (possibly the value of a spliced helper)
            agg = deref_local(fn, n["base"])
            if isinstance(agg, dict) and agg.get("k") == "construct" and len(agg.get("args", [])) == 1 and skip_copies(agg["args"][0]).get("k") == "initlist":
                agg = skip_copies(agg["args"][0])
            if isinstance(agg, dict) and agg.get("k") == "initlist":
                from .facts import RECORD_FIELDS
                rec = (n.get("name") or "").rsplit("::", 1)[0]
                order = RECORD_FIELDS.get(rec) or []
                fname = (n.get("name") or "").rsplit("::", 1)[-1]
                els = agg.get("els", [])
                names = [x.rsplit("::", 1)[-1] for x in order]
                if fname in names and names.index(fname) < len(els) and len(els) == len(names):
                    n = skip_copies(els[names.index(fname)])
                    seen += 1
                    continue
            break
        if not (n.get("k") == "ref" and n.get("dk") == "local"):
            break
        dn, var = local_var(fn, n["decl"])
        if var is None or not isinstance(var.get("init"), dict):
            break
        vt = (var.get("type") or "").rstrip()
        if vt.endswith("&"):
            pass   # a reference is an alias for good: calls and assignments go to the object, the binding never changes
        elif vt.endswith("*") or vt.endswith("*const") or vt.endswith("* const"):
            if any(assignment_target(fn, r)[0] is not None or (write_kind(fn, r) or "").startswith(("incdec", "address-of")) for r in refs_to(fn, n["decl"])):
                break
        elif any(write_kind(fn, r) or assignment_target(fn, r)[0] is not None for r in refs_to(fn, n["decl"])):
            break
        n = skip_copies(var["init"])
        seen += 1
    return n


def resolve_value(n, atom, fn=None):
    """value of an expression under atom assumptions: follows ?: and single-assignment locals; returns leaf node"""
    n = deref_local(fn, n)
    while isinstance(n, dict) and n.get("k") == "cond":
        v = eval_cond(n.get("cond"), atom, fn)
        if v is None:
            return n
        n = deref_local(fn, n.get("t") if v else n.get("f"))
    return n


def return_values_under(fn, g, atom):
    """leaf expressions that fn can return when the atom assumptions hold"""
    keep = g.projector(atom)
    live = g.live(keep)
    out = []
    for r in returns(fn):
        k = g.site_of(r)
        if k is None or k not in live:
            continue
        out.append((r, resolve_value(r.get("e"), atom)))
    return out


def sitestr(fn, node=None):
    return "%s (%s)" % (fn.loc(node), strip_tmpl(fn.name).replace("QtLogger::", ""))


def value_pred(fn, node):
    """predicate over expression nodes: `node` itself, or a reference to a local variable that is initialised from it and
    never written again (so a named verdict `const bool ok = h->process(m); if (!ok) ...` is the same atom)"""
    ids = {node["id"]}
    decls = set()
    for n in fn.all_nodes():
        if n.get("k") != "decl":
            continue
        for v in n.get("vars", []):
            init = skip_copies(v.get("init")) if v.get("init") else None
            if isinstance(init, dict) and init.get("id") == node["id"]:
                d = v["decl"]
                rewritten = False
                for r in refs_to(fn, d):
                    if write_kind(fn, r) or assignment_target(fn, r)[0] is not None:
                        rewritten = True
                if not rewritten:
                    decls.add(d)

    def pred(n):
        return n.get("id") in ids or (n.get("k") == "ref" and n.get("decl") in decls)
    return pred


def switch_table(fn, sw):
    """{case value (int) or 'default': leaf} for a switch whose arms end in `return <expr>` or break/fall out; arms that
    fall out of the switch map to 'fallout'. Anything else is an unrecognised idiom (AnalysisBroken)."""
    body = sw.get("body")
    if not (isinstance(body, dict) and body.get("k") == "compound"):
        raise AnalysisBroken("switch body of %s is not a compound statement" % fn.sig)
    table = {}
    active = []
    for st in body.get("body", []):
        while isinstance(st, dict) and st.get("k") in ("case", "default"):
            if st["k"] == "case":
                v = const_int(st.get("val"))
                if v is None:
                    raise AnalysisBroken("non-constant case label in %s" % fn.sig)
                active.append(v)
            else:
                active.append("default")
            st = st.get("sub")
        if not isinstance(st, dict):
            continue
        if st.get("k") == "return":
            for a in active:
                table[a] = st.get("e")
            active = []
        elif st.get("k") == "break":
            for a in active:
                table[a] = "fallout"
            active = []
        elif st.get("k") == "null":
            continue
        else:
            raise AnalysisBroken("switch arm in %s does something other than return/break (%s)" % (fn.sig, st.get("k")))
    for a in active:
        table[a] = "fallout"
    return table


def eval_int(n, leaf):
    """integer/boolean value of an expression; leaf(node) supplies values for non-literal leaves (None = unknown)"""
    n = skip_copies(n)
    if not isinstance(n, dict):
        return None
    v = leaf(n)
    if v is not None:
        return v
    k = n.get("k")
    lfn = getattr(leaf, "fn", None)
    if lfn is not None and k == "ref" and n.get("dk") == "local":
        from .facts import single_assignment_init
        init = single_assignment_init(lfn, n.get("decl"))
        if init is not None:
            return eval_int(init, leaf)
    if k in ("int", "char"):
        return n["v"]
    if k == "bool":
        return int(n["v"])
    if k == "unop":
        x = eval_int(n.get("e"), leaf)
        if x is None:
            return None
        return {"-": -x, "+": x, "!": int(not x), "~": ~x}.get(n["op"])
    if k == "cast":
        return eval_int(n.get("e"), leaf)
    if k == "cond":
        c = eval_int(n.get("cond"), leaf)
        if c is None:
            return None
        return eval_int(n.get("t") if c else n.get("f"), leaf)
    if k == "binop":
        a, b = eval_int(n.get("lhs"), leaf), eval_int(n.get("rhs"), leaf)
        op = n["op"]
        if op == "&&":
            if a == 0 or b == 0:
                return 0
            return None if a is None or b is None else 1
        if op == "||":
            if (a is not None and a != 0) or (b is not None and b != 0):
                return 1
            return None if a is None or b is None else 0
        if a is None or b is None:
            return None
        try:
            return {"+": a + b, "-": a - b, "*": a * b, "<": int(a < b), ">": int(a > b), "<=": int(a <= b), ">=": int(a >= b),
                    "==": int(a == b), "!=": int(a != b), "&": a & b, "|": a | b, "^": a ^ b,
                    "/": (a // b if b else None), "%": (a % b if b else None), "<<": a << b, ">>": a >> b}.get(op)
        except Exception:
            return None
    if "cv" in n:
        return n["cv"]
    return None


LOSSY_STRING_CALLS = ("trimmed", "simplified", "toLower", "toUpper", "toCaseFolded", "left", "right", "mid", "chopped", "chop", "truncate",
                      "remove", "replace", "normalized", "section", "first", "last", "sliced", "toLatin1", "toHtmlEscaped")


def lossy_wrappers(n):
    """names of known lossy string calls applied on the way from the leaves of expression n to its value"""
    out = []
    for x in walk(n):
        if x.get("k") == "call" and x.get("ck") == "member" and (x.get("callee") or "").split("::")[-1] in LOSSY_STRING_CALLS \
                and strip_tmpl(x.get("cls") or "") in ("QString", "QByteArray", "QStringRef", "QStringView", "QLatin1String"):
            out.append((x.get("callee") or "").split("::")[-1])
    return out


def initlist_pairs(n):
    """[(first, second)] nodes of a brace-initialised associative container: QHash{ {k, v}, ... }"""
    n = skip_copies(n)
    out = []
    for x in walk(n):
        if x.get("k") == "initlist":
            for el in x.get("els", []):
                e = skip_copies(el)
                if isinstance(e, dict) and e.get("k") in ("construct", "initlist"):
                    a = e.get("args") if e.get("k") == "construct" else e.get("els")
                    if a and len(a) == 2:
                        out.append((a[0], a[1]))
            break
    return out


def concat_leaves(n):
    """leaves of a string concatenation expression (operator+ / QStringBuilder %), left to right"""
    n = skip_copies(n)
    if isinstance(n, dict) and n.get("k") == "call" and n.get("op") in ("+", "%") and len(n.get("args", [])) == 2:
        return concat_leaves(n["args"][0]) + concat_leaves(n["args"][1])
    if isinstance(n, dict) and n.get("k") == "binop" and n.get("op") == "+":
        return concat_leaves(n.get("lhs")) + concat_leaves(n.get("rhs"))
    if isinstance(n, dict) and n.get("k") == "construct" and n.get("class") in ("QString",) and len(n.get("args", [])) == 1 and const_str(n) is None:
        return concat_leaves(n["args"][0])
    return [n]


def regex_groups(pat):
    """capturing groups of a regular expression literal, in order: [(content, start index)]"""
    out = []
    stack = []
    i = 0
    in_class = False
    while i < len(pat):
        ch = pat[i]
        if ch == "\\":
            i += 2
            continue
        if in_class:
            if ch == "]":
                in_class = False
        elif ch == "[":
            in_class = True
        elif ch == "(":
            cap = not pat.startswith("(?", i)
            stack.append((i, cap, len(out)))
            if cap:
                out.append(None)
        elif ch == ")":
            if stack:
                st, cap, idx = stack.pop()
                if cap:
                    out[idx] = (pat[st + 1:i], st)
        i += 1
    return [g for g in out if g is not None]


def var_history(fn, g, decl):
    """events on a local variable in execution order: ('init', node), ('assign', assign node, rhs), ('call', call node),
    ('use', ref node). Requires the events to be totally ordered by dominance (straight-line idiom)."""
    dn, var = local_var(fn, decl)
    if var is None:
        raise AnalysisBroken("local %s not found in %s" % (decl, fn.sig))
    evs = [("init", dn, var.get("init"))]
    for r in refs_to(fn, decl):
        asg, rhs = assignment_target(fn, r)
        if asg is not None:
            evs.append(("assign", asg, rhs))
            continue
        p = fn.nodes.get(fn.parent.get(r["id"]))
        if p is not None and p.get("k") == "call" and p.get("ck") == "member" and isinstance(p.get("obj"), dict) and skip_copies(p["obj"]).get("id") == r["id"] and p.get("constm") is False:
            evs.append(("call", p, None))
            continue
        # reads that feed an assignment to the same variable are part of that assignment
        anc = list(fn.ancestors(r))
        if any(a.get("id") == e[1].get("id") for e in evs if e[0] == "assign" for a in anc):
            continue
        evs.append(("use", r, None))
    keyed = []
    for e in evs:
        s = g.site_of(e[1])
        if s is None:
            raise AnalysisBroken("event on %s without CFG element in %s" % (var.get("name"), fn.sig))
        keyed.append((s, e))
    # order by dominance
    import functools

    def cmp(a, b):
        if a[0] == b[0]:
            return 0
        if g.dominated(b[0], {a[0]}):
            return -1
        if g.dominated(a[0], {b[0]}):
            return 1
        raise AnalysisBroken("uses of local %s in %s are not totally ordered (branching idiom not recognised)" % (var.get("name"), fn.sig))
    keyed.sort(key=functools.cmp_to_key(cmp))
    # reads inside a later assignment's rhs sort before the assignment's own site; fine
    return [e for _, e in keyed]


def json_value_inner(n):
    """look through QJsonValue(...) conversions"""
    n = skip_copies(n)
    while isinstance(n, dict) and n.get("k") == "construct" and n.get("class") in ("QJsonValue",) and len(n.get("args", [])) == 1:
        n = skip_copies(n["args"][0])
    return n


def json_sets(fn):
    """[{obj, key, keynode, value, node}] for every `obj[key] = value` / `obj.insert(key, value)` on a local QJsonObject"""
    out = []

    def inner(v):
        # the value of a spliced helper with one return is what that return yields (`event["extra"] = buildExtra(lmsg)` with `return extra;`)
        v = json_value_inner(v)
        for _ in range(4):
            if isinstance(v, dict) and v.get("k") == "call" and v.get("inl_value") is not None and v["inl_value"] in fn.nodes:
                v = json_value_inner(fn.nodes[v["inl_value"]])
            else:
                break
        return v
    for n in sorted(fn.all_nodes(), key=lambda n: n["id"]):
        if n.get("k") != "call":
            continue
        if n.get("op") == "=" and len(n.get("args", [])) == 2:
            lhs = skip_copies(n["args"][0])
            if isinstance(lhs, dict) and lhs.get("k") == "call" and lhs.get("op") == "[]" and (lhs.get("cls") or "") in ("QJsonObject",):
                o = skip_copies(lhs["args"][0])
                out.append({"obj": o.get("decl") if o.get("k") in ("ref", "member") else None, "key": const_str(lhs["args"][1]), "keynode": lhs["args"][1],
                            "value": inner(n["args"][1]), "node": n})
        elif n.get("ck") == "member" and name_is(n.get("callee"), "QJsonObject::insert") and len(n.get("args", [])) == 2:
            o = skip_copies(n.get("obj"))
            out.append({"obj": o.get("decl") if o.get("k") in ("ref", "member") else None, "key": const_str(n["args"][0]), "keynode": n["args"][0],
                        "value": inner(n["args"][1]), "node": n})
    return out


def call_chain(n):
    """names of a member-call chain from the outermost call inwards: a().b().c() -> ['c', 'b', 'a'] plus the root object"""
    names = []
    n = skip_copies(n)
    while isinstance(n, dict) and n.get("k") == "call":
        names.append((n.get("callee") or "?"))
        if n.get("ck") == "member":
            n = skip_copies(n.get("obj"))
        else:
            n = None
            break
    return names, n


def linear(n, sym, fn=None):
    """linear form {symbol: coeff, '': const} of an integer expression, or None. sym(node) names a symbol or returns None.
    With fn, a local that is initialised once and never written again stands for its initialiser."""
    n = skip_copies(n)
    if not isinstance(n, dict):
        return None
    s = sym(n)
    if s is not None:
        return {s: 1}
    k = n.get("k")
    if fn is not None and k == "ref" and n.get("dk") == "local":
        from .facts import single_assignment_init
        init = single_assignment_init(fn, n.get("decl"))
        if init is not None:
            return linear(init, sym, fn)
    if k in ("int", "char"):
        return {"": n["v"]}
    if "cv" in n and k not in ("binop", "unop"):
        return {"": n["cv"]}
    if k == "cast":
        return linear(n.get("e"), sym, fn)
    if k == "unop" and n.get("op") in ("-", "+"):
        a = linear(n.get("e"), sym, fn)
        if a is None:
            return None
        return {x: (-c if n["op"] == "-" else c) for x, c in a.items()}
    if k == "binop" and n.get("op") in ("+", "-"):
        a, b = linear(n.get("lhs"), sym, fn), linear(n.get("rhs"), sym, fn)
        if a is None or b is None:
            return None
        out = dict(a)
        for x, c in b.items():
            out[x] = out.get(x, 0) + (c if n["op"] == "+" else -c)
        return {x: c for x, c in out.items() if c != 0 or x == ""}
    if k == "binop" and n.get("op") == "*":
        a, b = linear(n.get("lhs"), sym, fn), linear(n.get("rhs"), sym, fn)
        if a is None or b is None:
            return None
        if set(a) <= {""}:
            return {x: c * a.get("", 0) for x, c in b.items()}
        if set(b) <= {""}:
            return {x: c * b.get("", 0) for x, c in a.items()}
        return None
    if "cv" in n:
        return {"": n["cv"]}
    return None


def comparison_form(n, sym, fn=None):
    """(linear form f, op) meaning `f op 0` for a comparison node, op in > >= == != (normalised), or None"""
    n = skip_copies(n)
    if not (isinstance(n, dict) and n.get("k") == "binop" and n.get("op") in ("<", ">", "<=", ">=", "==", "!=")):
        return None
    a, b = linear(n.get("lhs"), sym, fn), linear(n.get("rhs"), sym, fn)
    if a is None or b is None:
        return None
    f = dict(a)
    for x, c in b.items():
        f[x] = f.get(x, 0) - c
    op = n["op"]
    if op in ("<", "<="):
        f = {x: -c for x, c in f.items()}
        op = ">" if op == "<" else ">="
    if op == ">":  # integers: f > 0  <=>  f - 1 >= 0
        f[""] = f.get("", 0) - 1
        op = ">="
    return {x: c for x, c in f.items() if c != 0 or x == ""}, op


def comparisons_in(n):
    return [x for x in walk(n) if x.get("k") == "binop" and x.get("op") in ("<", ">", "<=", ">=", "==", "!=")]


def numeric_atom(fn, leaf):
    """atom for Graph.projector that evaluates integer/boolean conditions under a concrete assignment of symbols"""
    def atom(n):
        if n.get("k") in ("binop",) and n.get("op") in ("<", ">", "<=", ">=", "==", "!="):
            v = eval_int(n, leaf)
            return None if v is None else bool(v)
        v = leaf(n)
        if v is not None and n.get("k") in ("ref", "member", "call"):
            return bool(v)
        return None
    return atom


REMOVAL_CALLS = ("removeFirst", "removeLast", "takeFirst", "takeLast", "pop_front", "pop_back", "removeAt", "takeAt", "erase", "removeOne", "removeAll", "clear")


def container_origin(fn, n):
    """initialiser of a local container whose only later mutations remove elements (so every element comes from it)"""
    n = skip_copies(n)
    if not (isinstance(n, dict) and n.get("k") == "ref" and n.get("dk") == "local"):
        return n
    dn, var = local_var(fn, n["decl"])
    if var is None or not isinstance(var.get("init"), dict):
        return n
    for r in refs_to(fn, n["decl"]):
        if assignment_target(fn, r)[0] is not None:
            return n
        wk = write_kind(fn, r)
        if wk and not (wk.startswith("call(") and wk[5:-1] in REMOVAL_CALLS + NONMUTATING_NONCONST):
            return n
    return skip_copies(var["init"])


def statics_from_params(fn):
    """[(decl stmt, var)] function-local statics whose initialiser reads a parameter of the enclosing function: the value is
    computed once, from the first caller's argument, and handed to every later caller whatever it passes"""
    pd = {p["decl"] for p in fn.params}
    out = []
    if not pd or fn.body is None:
        return out
    for d in fn.find(lambda n: n.get("k") == "decl"):
        for v in d.get("vars", []):
            if v.get("static") and isinstance(v.get("init"), dict) and any(x.get("k") == "ref" and x.get("decl") in pd for x in walk(v["init"])):
                out.append((d, v))
    return out


def in_lib(path):
    """a file of the library under analysis: a source file of src/qtlogger, or the amalgamated single header (header-only configuration)"""
    path = path or ""
    return "/src/qtlogger/" in path or path.endswith("/qtlogger.h")


def expand_locals(fn, n, depth=0):
    """a copy of expression n in which every reference to a local that is initialised once and never written again (which includes the parameters of
    helpers spliced into fn) is replaced by its initialiser, recursively: `line + '\\n'` with `line = msg.toLocal8Bit()` becomes `msg.toLocal8Bit() + '\\n'`"""
    if isinstance(n, list):
        return [expand_locals(fn, x, depth) for x in n]
    if not isinstance(n, dict) or depth > 8:
        return n
    x = skip_copies(n)
    if isinstance(x, dict) and (x.get("k") == "ref" and x.get("dk") == "local" or (x.get("k") == "call" and x.get("inl_value") is not None)):
        d = deref_local(fn, x)
        if isinstance(d, dict) and d.get("id") != x.get("id"):
            return expand_locals(fn, d, depth + 1)
    out = {}
    for k, v in n.items():
        if k in ("inl_body",):
            continue
        out[k] = expand_locals(fn, v, depth) if isinstance(v, (dict, list)) else v
    return out


def iterator_from_begin(fn, n):
    """if `n` is a local iterator initialised from <container>.begin()/cbegin()/constBegin() and only ever advanced with ++ (a front-to-back
    walk), the container expression it walks; else None"""
    n = skip_copies(n) if isinstance(n, dict) else None
    if not (isinstance(n, dict) and n.get("k") == "ref" and n.get("dk") == "local"):
        return None
    _, var = local_var(fn, n["decl"])
    init = skip_copies(var.get("init")) if var is not None and isinstance(var.get("init"), dict) else None
    if not (isinstance(init, dict) and init.get("k") == "call" and init.get("ck") == "member" and strip_tmpl(init.get("callee") or "").split("::")[-1] in ("begin", "cbegin", "constBegin")):
        return None
    for r in refs_to(fn, n["decl"]):
        if assignment_target(fn, r)[0] is not None:
            return None
        par = fn.nodes.get(fn.parent.get(r["id"]))
        if isinstance(par, dict) and par.get("k") == "unop" and par.get("op") in ("--",):
            return None
        if isinstance(par, dict) and par.get("k") == "call" and par.get("ck") == "operator" and par.get("op") in ("--", "-=", "+=", "-", "+"):
            return None
    return init.get("obj")
