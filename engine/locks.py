"""Lockset dataflow (must-hold) keyed by mutex field identity."""
from .facts import skip_copies, is_field, name_is, strip_tmpl, inline_accessor, describe
from .cfg import Graph

LOCKER_TYPES = ("QMutexLocker", "std::lock_guard", "std::unique_lock", "std::scoped_lock", "QReadLocker", "QWriteLocker")
MUTEX_CLASSES = ("QMutex", "QBasicMutex", "QRecursiveMutex", "std::mutex", "std::recursive_mutex")


def mutex_identity(facts, n, depth=0):
    """field identity ('QtLogger::Logger::m_mutex') of the mutex an expression denotes, through & / * and accessors"""
    n = skip_copies(n)
    if not isinstance(n, dict) or depth > 4:
        return None
    k = n.get("k")
    if k == "unop" and n.get("op") in ("&", "*"):
        return mutex_identity(facts, n.get("e"), depth + 1)
    if k == "member" and n.get("dk") == "field":
        return strip_tmpl(n.get("name"))
    if k == "ref" and n.get("dk") in ("global", "staticlocal", "staticmember"):
        return n.get("name")
    if k == "call":
        e = inline_accessor(facts, n)
        if e is not None:
            return mutex_identity(facts, e, depth + 1)
    return None


def is_locker_type(t):
    t = t or ""
    return any(t == x or t.startswith(x + "<") or t.startswith("const " + x) for x in LOCKER_TYPES)


class LockFlow:
    """IN[key] = frozenset of (mutex identity, holder) held on all paths before the element executes"""

    def __init__(self, facts, fn, g=None):
        self.facts = facts
        self.fn = fn
        self.g = g or Graph(fn)
        self.ops = []  # (key, 'acquire'|'release', mutex, holder, node)
        self.IN, self.OUT = self.g.forward_must(self._transfer)

    def _transfer(self, key, state):
        e = self.g.el[key]
        st = set(state)
        k = e.get("k")
        if k == "dtor":
            st = {x for x in st if x[1] != e.get("decl")}
            return frozenset(st)
        if k != "s":
            return state
        n = self.fn.nodes.get(e.get("n"))
        if n is None:
            return state
        if n.get("k") == "decl":
            for v in n.get("vars", []):
                if is_locker_type(v.get("type")) and isinstance(v.get("init"), dict):
                    c = skip_copies(v["init"])
                    if c.get("k") == "construct" and c.get("args"):
                        m = mutex_identity(self.facts, c["args"][0])
                        if m:
                            st.add((m, v["decl"]))
                            self._op(key, "acquire", m, v["decl"], n)
            return frozenset(st)
        if n.get("k") == "call" and n.get("ck") == "member":
            callee = n.get("callee") or ""
            obj = skip_copies(n.get("obj"))
            short = callee.split("::")[-1]
            cls = strip_tmpl(n.get("cls") or "")
            if cls in LOCKER_TYPES and isinstance(obj, dict) and obj.get("k") == "ref":
                holder = self._holder(obj)
                if short == "unlock":
                    rel = [x for x in st if x[1] == holder]
                    for x in rel:
                        self._op(key, "release", x[0], holder, n)
                    st = {x for x in st if x[1] != holder}
                elif short in ("relock", "lock"):
                    dn = self._locker_mutex(holder)
                    if dn:
                        st.add((dn, holder))
                        self._op(key, "acquire", dn, holder, n)
                return frozenset(st)
            if cls in MUTEX_CLASSES:
                m = mutex_identity(self.facts, n.get("obj"))
                if m and short in ("lock",):   # tryLock()/try_lock() may fail: the mutex is not known to be held afterwards
                    st.add((m, "direct"))
                    self._op(key, "acquire", m, "direct", n)
                elif m and short == "unlock":
                    st = {x for x in st if not (x[0] == m and x[1] == "direct")}
                    self._op(key, "release", m, "direct", n)
                return frozenset(st)
        return state

    def _holder(self, obj):
        """the locker object a reference designates: a `QMutexLocker &` parameter of a helper spliced into this function stands for the caller's locker"""
        from .util import local_var
        for _ in range(4):
            dn, var = local_var(self.fn, obj.get("decl"))
            if var is not None and "&" in (var.get("type") or "") and isinstance(var.get("init"), dict):
                i = skip_copies(var["init"])
                if isinstance(i, dict) and i.get("k") == "ref" and i.get("decl") != obj.get("decl"):
                    obj = i
                    continue
            break
        return obj.get("decl")

    def _op(self, key, kind, m, holder, node):
        t = (key, kind, m, holder, node["id"])
        if t not in [(o[0], o[1], o[2], o[3], o[4]["id"]) for o in self.ops]:
            self.ops.append((key, kind, m, holder, node))

    def _locker_mutex(self, holder):
        for n in self.fn.all_nodes():
            if n.get("k") == "decl":
                for v in n.get("vars", []):
                    if v.get("decl") == holder and isinstance(v.get("init"), dict):
                        c = skip_copies(v["init"])
                        if c.get("k") == "construct" and c.get("args"):
                            return mutex_identity(self.facts, c["args"][0])
        return None

    def held_at(self, node_or_key, mutex):
        key = node_or_key if isinstance(node_or_key, tuple) else self.g.site_of(node_or_key)
        if key is None or key not in self.IN:
            return False
        return any(x[0] == mutex for x in self.IN[key])

    def held_set(self, node_or_key):
        key = node_or_key if isinstance(node_or_key, tuple) else self.g.site_of(node_or_key)
        return sorted({x[0] for x in self.IN.get(key, ())})


def direct_acquires(facts, fn):
    """mutex identities a function acquires itself"""
    try:
        lf = LockFlow(facts, fn)
    except Exception:
        return set()
    return {o[2] for o in lf.ops if o[1] == "acquire"}
