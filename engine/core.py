"""Check driver: obligations, three-valued outcome, evidence, known findings."""
import importlib
import json
import os
import sys
import time
import traceback

from .extract import AnalysisBroken, extract, VERIF, REPO
from .facts import Facts

EVIDENCE_DIR = os.environ.get("VERIF_EVIDENCE_DIR") or os.path.join(VERIF, "evidence")
REPORT_DIR = os.environ.get("VERIF_REPORT_DIR") or os.path.join(VERIF, "reports")
KNOWN = os.path.join(VERIF, "known_findings.json")

COMMON_TRUSTED = [
    "clang 14 front end (parsing, overload/virtual resolution, CFG construction with all sub-expressions, implicit destructors and initialisers)",
    "qlx fact extractor (/verif/qlx/qlx.cc) and the rule library (/verif/engine)",
    "cmake-generated compile database = the flags of the real build (g++ 12, -std=gnu++17)",
]


class Check:
    def __init__(self, pid, tier, data):
        self.pid = pid
        self.tier = tier
        self.meta = data["meta"]
        self.configs = {c: Facts(f, c) for c, f in data["facts"].items()}
        self.facts = self.configs["lib"]
        self.config = "lib"
        self.obligations = []
        self.rules = {}
        self.functions_analysed = set()
        self.notes = []

    def use(self, config):
        self.facts = self.configs[config]
        self.config = config

    def rule(self, rid, text):
        self.rules[rid] = text

    def touch(self, *fns):
        for f in fns:
            if f is not None:
                self.functions_analysed.add(f.sig)

    def ob(self, rule, site, ok, what, key=None, detail=None):
        """ok: True (discharged) / False (violated) / None (undecidable)"""
        if ok is not None:
            ok = bool(ok)  # rules pass truthy values (ints, lists); only None means undecidable
        v = "discharged" if ok is True else "violated" if ok is False else "undecidable"
        o = {"rule": rule, "site": site, "verdict": v, "what": what, "config": self.config}
        if key:
            o["key"] = "%s|%s" % (rule, key)
        elif ok is False:
            o["key"] = "%s|%s" % (rule, site.split(":")[0] if site else "")
        if detail is not None:
            o["detail"] = detail
        self.obligations.append(o)
        return ok

    def broken(self, reason):
        raise AnalysisBroken(reason)

    def require(self, cond, reason):
        if not cond:
            raise AnalysisBroken(reason)


def load_known():
    if not os.path.exists(KNOWN):
        return []
    return json.load(open(KNOWN)).get("findings", [])


def write_evidence(pid, tier, level, coverage, assumptions, wall, violations):
    os.makedirs(EVIDENCE_DIR, exist_ok=True)
    ev = {
        "property_id": pid,
        "tier": tier,
        "seed": int(os.environ.get("VERIF_SEED", "0") or 0),
        "level": level,
        "coverage": coverage,
        "assumptions": assumptions,
        "wall_s": round(wall, 2),
        "violations": violations,
    }
    p = os.path.join(EVIDENCE_DIR, pid + ".json")
    tmp = p + ".tmp"
    with open(tmp, "w") as fh:
        json.dump(ev, fh, indent=1, sort_keys=True)
        fh.write("\n")
    os.replace(tmp, p)
    return p


def run_check(pid, tier):
    t0 = time.time()
    mod = importlib.import_module("rules." + pid.lower())
    level = getattr(mod, "LEVEL", "other")
    configs = ["lib"] + list(getattr(mod, "QUICK_CONFIGS", ()))
    if tier == "thorough":
        configs += [c for c in getattr(mod, "THOROUGH_CONFIGS", ("headeronly", "nothread")) if c not in configs]
    try:
        nf = getattr(mod, "NEEDS_FACTS", True)
        if nf is True or (nf == "thorough" and tier == "thorough"):
            data = extract(tuple(configs))
        else:
            data = {"facts": {"lib": {"functions": {}, "records": {}, "globals": {}, "enums": {}}}, "meta": {"units": [], "configs": []}}
        ck = Check(pid, tier, data)
        try:
            mod.run(ck)
        except AnalysisBroken as e:
            # a definite violation found before the analysis lost its footing is still reported (exit 1); the part that
            # could not be decided is recorded as an undecidable obligation
            if not any(o["verdict"] == "violated" for o in ck.obligations):
                raise
            ck.ob("analysis", "(rule module)", None, "analysis stopped early: %s" % e)
        selftest = None
        if tier == "thorough":
            for cfg in configs[1:]:
                if cfg in ck.configs:
                    ck.use(cfg)
                    mod.run(ck)
            ck.use("lib")
            if hasattr(mod, "run_thorough"):
                mod.run_thorough(ck)
            if not os.environ.get("VERIF_SELFTEST_CHILD"):
                from .selftest import run_all
                selftest = run_all(pid)
    except AnalysisBroken as e:
        hook = getattr(mod, "on_analysis_broken", None)
        v = hook(e) if hook else None
        if v:
            # the failure of the analysis is itself the finding (e.g. the single header no longer compiles where the library does)
            os.makedirs(REPORT_DIR, exist_ok=True)
            report_path = os.path.join(REPORT_DIR, "%s.json" % pid)
            o = {"rule": v["rule"], "site": v["site"], "verdict": "violated", "what": v["what"], "config": "headeronly", "key": "%s|%s" % (v["rule"], v["key"])}
            known = {k["key"] for k in load_known() if k.get("property") == pid and k.get("status") == "open"}
            if o["key"] not in known:
                json.dump({"property": pid, "tier": tier, "violations": [o], "rules": {v["rule"]: v.get("rule_text", "")}}, open(report_path, "w"), indent=1)
                write_evidence(pid, tier, level, {"explanation": getattr(mod, "EXPLANATION", ""), "obligations": 1, "discharged": 0, "violated": 1, "samples": [o],
                                                  "evaluations": 0, "distinct_nontrivial": 0}, [], time.time() - t0, 1)
                print("  violated %s at %s: %s" % (o["rule"], o["site"], o["what"]))
                print("VIOLATION property=%s replay=%s" % (pid, report_path))
                return 1
        print("ANALYSIS-BROKEN property=%s reason=%s" % (pid, e))
        # evidence still records the failed run (no claim is made)
        write_evidence(pid, tier, level, {"explanation": "analysis broken: %s" % e, "obligations": 0, "discharged": 0,
                                          "samples": [], "evaluations": 0, "distinct_nontrivial": 0}, [], time.time() - t0, 0)
        return 2
    except Exception:
        traceback.print_exc()
        print("ANALYSIS-BROKEN property=%s reason=internal error" % pid)
        return 2

    obs = ck.obligations
    # the same obligation in several configurations is one sample per configuration; identical ones collapse
    undec = [o for o in obs if o["verdict"] == "undecidable"]
    viol = [o for o in obs if o["verdict"] == "violated"]
    known = [k for k in load_known() if k.get("property") == pid and k.get("status") == "open"]
    known_keys = {k["key"]: k for k in known}
    new_viol, known_hit = [], []
    for o in viol:
        if o.get("key") in known_keys:
            known_hit.append(o)
        else:
            new_viol.append(o)
    min_obs = getattr(mod, "MIN_OBLIGATIONS", 1)
    rc = 0
    lines = []
    if undec:
        for o in undec:
            lines.append("ANALYSIS-BROKEN property=%s rule=%s site=%s reason=%s" % (pid, o["rule"], o["site"], o["what"]))
        rc = 2
    if len(obs) < min_obs:
        lines.append("ANALYSIS-BROKEN property=%s reason=only %d obligations, %d were confirmed by hand" % (pid, len(obs), min_obs))
        rc = 2
    seen_known = set()
    for o in known_hit:
        if o["key"] in seen_known:
            continue
        seen_known.add(o["key"])
        lines.append("KNOWN-FINDING: property=%s %s [%s at %s]" % (pid, known_keys[o["key"]].get("what", o["what"]), o["rule"], o["site"]))
    report_path = None
    if new_viol:
        os.makedirs(REPORT_DIR, exist_ok=True)
        report_path = os.path.join(REPORT_DIR, "%s.json" % pid)
        json.dump({"property": pid, "tier": tier, "violations": new_viol, "rules": ck.rules}, open(report_path, "w"), indent=1)
        for o in new_viol:
            lines.append("  violated %s at %s: %s" % (o["rule"], o["site"], o["what"]))
        lines.append("VIOLATION property=%s replay=%s" % (pid, report_path))
        rc = 1 if rc == 0 else rc
        if rc == 2:
            # an undecidable rule never hides a definite violation
            rc = 1
    discharged = sum(1 for o in obs if o["verdict"] == "discharged")
    coverage = {
        "explanation": getattr(mod, "EXPLANATION", ""),
        "obligations": len(obs),
        "discharged": discharged,
        "undecidable": len(undec),
        "violated": len(viol),
        "known_findings_hit": sorted(seen_known),
        "samples": obs,
        "rules": ck.rules,
        "functions_analysed": sorted(ck.functions_analysed),
        "units": ck.meta.get("units", []),
        "skipped_units": ck.meta.get("skipped_units", []),
        "configs": ck.meta.get("configs", []),
        "front_end_diagnostics_allow_listed": sorted(set(ck.meta.get("allowed_diagnostics", []))),
        "fact_base_from_cache": ck.meta.get("cached", False),
        "tree_hash": ck.meta.get("tree_hash", ""),
        "checker_cmd": "/verif/verif check %s --tier %s" % (pid, tier),
        "trusted_base": COMMON_TRUSTED + list(getattr(mod, "TRUSTED", [])),
        "not_decided": list(getattr(mod, "NOT_DECIDED", [])),
        "notes": ck.notes,
        "exhaustive": False,
    }
    if selftest is not None:
        coverage["selftest"] = selftest
        coverage["selftest_summary"] = {st: sum(1 for r in selftest if r["status"] == st) for st in sorted(set(r["status"] for r in selftest))}
        for r in selftest:
            if r["status"] in ("MISSED", "FALSE-ALARM"):
                lines.append("SELFTEST-FAILED property=%s %s %s (the checker is weaker or noisier than claimed)" % (pid, r["status"], r["patch"]))
                if rc == 0:
                    rc = 2
    extra = getattr(ck, "extra_coverage", None)
    if extra:
        coverage.update(extra)
    write_evidence(pid, tier, level, coverage, list(getattr(mod, "ASSUMPTIONS", [])), time.time() - t0, len(new_viol))
    for l in lines:
        print(l)
    print("%s %s: %d obligations, %d discharged, %d violated (%d known), %d undecidable; %d functions; %.1fs%s" % (
        pid, tier, len(obs), discharged, len(viol), len(known_hit), len(undec), len(ck.functions_analysed), time.time() - t0,
        " [facts cached]" if ck.meta.get("cached") else ""))
    return rc


def main(argv):
    if len(argv) >= 2 and argv[0] == "check":
        pid = argv[1]
        tier = os.environ.get("VERIF_TIER", "quick")
        if "--tier" in argv:
            tier = argv[argv.index("--tier") + 1]
        sys.path.insert(0, VERIF)
        return run_check(pid, tier)
    print("usage: verif check <Cxx> [--tier quick|thorough]")
    return 64
