"""Flattened view of a function: private helpers it calls are spliced into its statement tree and CFG, so that a rule
written against `rotate()` sees the same code whether the maintainer keeps it in one function or splits it into
`archiveLogFile()` + `reopenLogFile()`.

flatten(facts, fn, stop) returns a new Fn in which every call of an *inlinable* callee
    - keeps its call node (the value of the call),
    - gains `inl_body`: a copy of the callee's body with fresh node ids, whose `return` statements are renamed
      `inl_return` (they no longer leave the flattened function), preceded by `inl_binds`: one synthetic declaration per
      parameter (`T p = <argument>`), so that single-assignment substitution resolves a parameter to its argument,
    - has the callee's CFG spliced in front of its own CFG element (returns flow to the point of the call).
Inlinable: defined in the repository with a body, not the function itself (no recursion), called on `this` / as a free
or static function / as a local lambda, not virtual-dispatched, not in `stop` (functions a rule wants to look at as units),
and either file-local / private / protected or a lambda.  Depth is bounded.

Module-level registries let the generic helpers see through the splice:
    PARAM_BIND[param decl]   -> argument expression nodes of the inlined calls (a parameter stands for its argument only
                                if all calls agree)
    CALL_VALUE[id(call node)] -> returned expression when the callee has exactly one return
"""
import copy

from .facts import Fn, walk, children, skip_copies, strip_tmpl, CHILD_KEYS

PARAM_BIND = {}
CALL_VALUE = {}
MAX_DEPTH = 4
ID_STRIDE = 1000000

if "inl_body" not in CHILD_KEYS:
    # make the generic tree walkers descend into spliced bodies
    import engine.facts as _facts
    _facts.CHILD_KEYS = tuple(_facts.CHILD_KEYS) + ("inl_binds", "inl_body")


def _inlinable(facts, caller, call, stop, lambdas):
    if call.get("k") != "call":
        return None
    fid = call.get("fn")
    # local lambda called directly: operator() on a ref to the lambda variable
    if call.get("ck") == "operator" and call.get("op") == "()" and call.get("args"):
        f0 = skip_copies(call["args"][0])
        if isinstance(f0, dict) and f0.get("k") == "ref" and f0.get("decl") in lambdas:
            f = facts.fns.get(lambdas[f0["decl"]])
            if f is not None and f.body is not None:
                return f, call["args"][1:]
        return None
    f = facts.fns.get(fid)
    if f is None or f.body is None or fid in stop or fid == caller.id:
        return None
    if call.get("virtual"):
        return None
    receiver = None
    src_local = False
    nested_helper = False
    local_class = False
    if call.get("ck") == "member":
        o = skip_copies(call.get("obj"))
        if not (isinstance(o, dict) and o.get("k") == "this"):
            # a method of a file-local wrapper class called on a named object (a global slot, a local guard): spliced with `this`
            # standing for that object
            named = isinstance(o, dict) and (o.get("k") == "ref" or (o.get("k") == "member" and skip_copies(o.get("base") or {}).get("k") == "this"))
            mi = _method_info(facts, f)
            nested = bool(caller.cls) and bool(f.cls) and strip_tmpl(caller.cls).startswith(strip_tmpl(f.cls) + "::")
            private_peer = nested and mi is not None and mi.get("access") in (1, 2) and isinstance(o, dict) and o.get("k") == "member" and skip_copies(o.get("base") or {}).get("k") == "this"
            # a wrapper class defined in a source file (not in a header) around a namespace-scope variable: `g_slot.set(x)`
            src_local = (f.file or "").endswith((".cpp", ".cc", ".cxx")) and not f.d.get("virtual") and isinstance(o, dict) and o.get("k") == "ref" and o.get("dk") not in ("local", "param", "field", "enumconst")
            # (c) a method of a helper class nested in the caller's class, called on the caller's own member (m_worker->bindTo(...))
            nested_helper = bool(caller.cls) and bool(f.cls) and strip_tmpl(f.cls).startswith(strip_tmpl(caller.cls) + "::") and not f.d.get("virtual") and \
                isinstance(o, dict) and ((o.get("k") == "member" and skip_copies(o.get("base") or {}).get("k") == "this") or
                                         (o.get("k") == "ref" and o.get("dk") == "local"))       # ... or on a local object of that helper class (a save / restore record)
            # (d) a method of a class declared inside a function (a local helper struct), called on a local object of that class
            local_class = "(" in strip_tmpl(f.cls or "").replace("(anonymous namespace)", "").replace("(anonymous class)", "") and not f.d.get("virtual")
            if named and ("(anonymous namespace)" in f.name or private_peer or src_local or nested_helper or local_class):
                # (b) a private method of the enclosing class called by a nested helper class through its back pointer (Worker -> handler)
                receiver = o
            else:
                return None
    m = _method_info(facts, f)
    if m is not None:
        # access: 0 public, 1 protected, 2 private (clang AS_* order: public=0, protected=1, private=2)
        if m.get("access") == 0 and "(anonymous namespace)" not in f.name and "Private::" not in f.name and not (receiver is not None and (src_local or nested_helper or local_class)):
            return None
        if m.get("kind") in ("ctor", "dtor"):
            return None
    else:
        # free function: only internal helpers (anonymous namespace / static / defined in a source file, not in a header)
        if "(anonymous namespace)" not in f.name and not f.d.get("static") and not (f.file or "").endswith((".cpp", ".cc", ".cxx")):
            return None
    if f.d.get("kind") in ("ctor", "dtor"):
        return None
    if receiver is not None:
        return f, call.get("args", []), receiver
    return f, call.get("args", [])


def _method_info(facts, f):
    """record entry of a member function; for a member of a class-template instantiation the entry of the template"""
    m = facts.methods.get(f.id)
    if m is not None or not f.cls:
        return m
    cache = getattr(facts, "_tmpl_methods", None)
    if cache is None:
        cache = {}
        for mm in facts.methods.values():
            cache.setdefault((strip_tmpl(mm.get("record") or ""), (mm.get("name") or "").split("::")[-1]), []).append(mm)
        facts._tmpl_methods = cache
    c = cache.get((strip_tmpl(f.cls), strip_tmpl(f.name).split("::")[-1]), [])
    if c:
        return c[0]
    if f.d.get("kind") == "method" and f.d.get("access") in (0, 1, 2):
        # an instantiation of a member function template: the extractor records the template's access on the function itself
        return {"access": f.d["access"], "kind": "method", "virtual": f.d.get("virtual")}
    return {"access": 0, "kind": f.d.get("kind"), "virtual": f.d.get("virtual")} if f.d.get("kind") == "method" else None


class _Ids:
    def __init__(self, start):
        self.next = start

    def take(self, n):
        v = self.next
        self.next += n
        return v


def _remap(node, off):
    """deep copy of a node tree with ids shifted by off"""
    n = copy.deepcopy(node)
    for x in walk(n):
        x["id"] = x["id"] + off
    return n


def flatten(facts, fn, stop=(), depth=MAX_DEPTH):
    stop = set(stop)
    d = copy.deepcopy(fn.d)
    if d.get("body") is None or d.get("cfg") is None:
        return fn
    ids = _Ids(ID_STRIDE)
    changed = _flatten_dict(facts, fn, d, stop, depth, ids, {fn.id})
    if not changed:
        return fn
    d["flattened"] = True
    nf = Fn(d)
    nf.flat_of = fn
    return nf


def _lambdas_in(body):
    out = {}
    for x in walk(body):
        if x.get("k") == "decl":
            for v in x.get("vars", []):
                i = skip_copies(v.get("init")) if isinstance(v.get("init"), dict) else None
                if isinstance(i, dict) and i.get("k") == "lambda" and v.get("decl"):
                    out[v["decl"]] = i["fn"]
    return out


def _flatten_dict(facts, owner, d, stop, depth, ids, active):
    """splice inlinable callees into d (a function dict: body + cfg); returns True if anything was spliced"""
    if depth <= 0:
        return False
    changed = False
    lambdas = _lambdas_in(d["body"])
    # call nodes in evaluation order
    calls = [x for x in walk(d["body"]) if x.get("k") == "call" and "inl_body" not in x]
    for i in d.get("inits", []) or []:
        if isinstance(i.get("e"), dict):
            calls += [x for x in walk(i["e"]) if x.get("k") == "call" and "inl_body" not in x]
    for call in calls:
        r = _inlinable(facts, owner, call, stop, lambdas)
        if r is None:
            continue
        receiver = r[2] if len(r) > 2 else None
        callee, args = r[0], r[1]
        if callee.id in active:
            continue
        cd = copy.deepcopy(callee.d)
        if cd.get("cfg") is None:
            continue
        # recursively flatten the callee first (its own helpers)
        _flatten_dict(facts, callee, cd, stop, depth - 1, ids, active | {callee.id})
        maxid = max([x["id"] for x in walk(cd["body"])] + [0])
        off = ids.take(maxid + 10 + len(cd.get("params", [])) + 5)
        body = cd["body"]
        for x in walk(body):
            x["id"] += off
            if x.get("inl_value") is not None:
                x["inl_value"] += off
        if receiver is not None:
            # `this` of the wrapper method is the object the method was called on
            for x in [y for y in walk(body) if y.get("k") == "this"]:
                if True:
                    keep_id = x["id"]
                    x.clear()
                    x.update(copy.deepcopy({k_: v_ for k_, v_ in receiver.items() if k_ not in ("id",)}))
                    x["id"] = keep_id
                    x["inl_receiver"] = True
        # returns no longer leave the function
        rets = []
        for x in walk(body):
            if x.get("k") == "return" and not x.get("_inl_done"):
                x["k"] = "inl_return"
                x["_inl_done"] = True
                rets.append(x)
        # every declaration of the callee (parameters, locals, loop variables) gets a name of its own per spliced instance
        declared = {p["decl"] for p in cd.get("params", [])}
        for x in walk(body):
            if x.get("k") == "decl":
                declared |= {v["decl"] for v in x.get("vars", []) if v.get("decl") and not v.get("static")}
            elif x.get("k") == "rangefor" and x.get("var", {}).get("decl"):
                declared.add(x["var"]["decl"])
        suffix = "@inl%d" % off
        ren = {dcl: dcl + suffix for dcl in declared}
        for x in walk(body):
            if x.get("decl") in ren and x.get("k") in ("ref",):
                x["decl"] = ren[x["decl"]]
            if x.get("k") == "decl":
                for v in x.get("vars", []):
                    if v.get("decl") in ren:
                        v["decl"] = ren[v["decl"]]
            if x.get("k") == "rangefor" and x.get("var", {}).get("decl") in ren:
                x["var"]["decl"] = ren[x["var"]["decl"]]
            if x.get("k") == "lambda":
                for c_ in x.get("captures", []):
                    if c_.get("decl") in ren:
                        c_["decl"] = ren[c_["decl"]]
        for cb in cd["cfg"]["blocks"]:
            for e in cb["els"]:
                if e.get("decl") in ren:
                    e["decl"] = ren[e["decl"]]
        # parameters become locals bound to the arguments
        binds = []
        pdecls = {}
        for pi, p in enumerate(cd.get("params", [])):
            if pi >= len(args):
                break
            a = args[pi]
            bid = off + maxid + 1 + pi
            binds.append({"id": bid, "k": "decl", "l": call.get("l", 0), "c": call.get("c", 0), "inl_param": True,
                          "vars": [{"decl": ren[p["decl"]], "name": p.get("name"), "type": p.get("type"), "static": False, "const": False, "init": a}]})
            pdecls[ren[p["decl"]]] = a
        for x in walk(body):
            if x.get("k") == "ref" and x.get("decl") in pdecls and x.get("dk") == "param":
                x["dk"] = "local"
                x["inl_param"] = True
        for pd, a in pdecls.items():
            PARAM_BIND.setdefault(pd, [])
            if not any(x is a for x in PARAM_BIND[pd]):
                PARAM_BIND[pd].append(a)
        call["inl_body"] = body
        call["inl_binds"] = binds
        call["inl_fn"] = callee.id
        call["inl_name"] = strip_tmpl(callee.name)
        if len(rets) == 1 and isinstance(rets[0].get("e"), dict):
            call["inl_value"] = rets[0]["e"]["id"]
        _splice_cfg(d["cfg"], call, cd["cfg"], off, ids, d, body)
        changed = True
    return changed


def _const_bool(n):
    n = skip_copies(n)
    if isinstance(n, dict) and n.get("k") == "bool":
        return bool(n["v"])
    if isinstance(n, dict) and "cv" in n and (n.get("type") or "") == "bool" and n.get("k") not in ("call",):
        return bool(n["cv"])
    return None


def _null_pointer(e, body, depth=0):
    """True: the returned smart pointer is empty; False: it holds a freshly created object; None: unknown"""
    e = skip_copies(e)
    while isinstance(e, dict) and e.get("k") in ("cast",):
        e = skip_copies(e.get("e"))
    if not isinstance(e, dict):
        return None
    if e.get("k") == "nullptr" or (e.get("k") == "int" and e.get("v") == 0 and "ptr" in (e.get("type") or "")):
        return True
    if e.get("k") == "construct" and ("Pointer" in (e.get("class") or "") or "_ptr" in (e.get("class") or "")):
        args = [a for a in e.get("args", []) if a.get("k") != "defaultarg"]
        if not args:
            return True
        if len(args) == 1:
            return _null_pointer(args[0], body, depth + 1)
        return None
    if e.get("k") == "initlist" and not e.get("elems") and not e.get("args"):
        return True
    if e.get("k") == "call" and strip_tmpl(e.get("callee") or "").split("::")[-1] in ("create", "make_shared", "make_unique"):
        return False
    if e.get("k") == "new":
        return False
    if e.get("k") == "ref" and e.get("dk") == "local" and depth < 3:
        inits, writes = [], 0
        for x in walk(body):
            if x.get("k") == "decl":
                for v in x.get("vars", []):
                    if v.get("decl") == e.get("decl") and isinstance(v.get("init"), dict):
                        inits.append(v["init"])
            elif x.get("k") == "call" and x.get("op") == "=" and x.get("args") and skip_copies(x["args"][0]).get("decl") == e.get("decl") and skip_copies(x["args"][0]).get("k") == "ref":
                writes += 1
            elif x.get("k") == "call" and x.get("ck") == "member" and (x.get("callee") or "").split("::")[-1] in ("reset", "clear", "swap") and isinstance(x.get("obj"), dict) and skip_copies(x["obj"]).get("decl") == e.get("decl"):
                writes += 1
        if len(inits) == 1 and not writes:
            return _null_pointer(inits[0], body, depth + 1)
    return None


def _splice_cfg(cfg, call, ccfg, off, ids, d=None, cbody=None):
    """insert the callee's CFG in front of the element that evaluates `call`"""
    blocks = cfg["blocks"]
    pos = None
    for b in blocks:
        for i, e in enumerate(b["els"]):
            if e.get("k") in ("s", "init") and e.get("n") == call["id"]:
                pos = (b, i)
                break
        if pos:
            break
    if pos is None:
        return  # the call has no CFG element of its own (e.g. default member initialiser): the tree still carries the body
    b, i = pos
    used = {x["id"] for x in blocks}
    base = max(used) + 1
    # callee blocks with fresh ids
    cmap = {}
    cblocks = copy.deepcopy(ccfg["blocks"])
    for k, cb in enumerate(cblocks):
        cmap[cb["id"]] = base + k
    post_id = base + len(cblocks)
    post = {"id": post_id, "els": b["els"][i:], "succ": b.get("succ", [])}
    for key in ("term", "termk", "cond", "label"):
        if key in b:
            post[key] = b.pop(key)
    b["els"] = b["els"][:i]
    centry, cexit = ccfg["entry"], ccfg["exit"]
    for cb in cblocks:
        cb["id"] = cmap[cb["id"]]
        cb["succ"] = [None if s is None else (post_id if s == cexit else cmap[s]) for s in cb.get("succ", [])]
        for e in cb["els"]:
            if "n" in e and e["n"] is not None:
                e["n"] += off
        for key in ("term", "cond"):
            if cb.get(key) is not None:
                cb[key] += off
        cb["inl"] = True
    # jump threading: when the value of the call is the branch condition right after it and a return path of the callee
    # returns a boolean literal, that path continues on the corresponding branch (so `if (!helper()) ...` with
    # `helper() { if (!rename()) return false; return true; }` keeps the correlation with rename()'s result)
    if d is not None and cbody is not None and post.get("cond") is not None and len(post.get("succ", [])) == 2:
        byid = {x["id"]: x for x in walk(d["body"])}
        cond = byid.get(post["cond"])
        inv = False
        c0 = skip_copies(cond) if cond else None
        while isinstance(c0, dict) and c0.get("k") == "unop" and c0.get("op") == "!":
            inv = not inv
            c0 = skip_copies(c0.get("e"))
        only_call = all(e.get("n") in (call["id"],) or (byid.get(e.get("n"), {}).get("k") == "unop") for e in post["els"] if e.get("k") == "s")
        if isinstance(c0, dict) and c0.get("id") == call["id"] and only_call:
            rnodes = {x["id"]: x for x in walk(cbody) if x.get("k") == "inl_return"}
            for cb in cblocks:
                if post_id not in cb.get("succ", []):
                    continue
                rv = None
                for e in cb["els"]:
                    rn = rnodes.get(e.get("n"))
                    if rn is not None and isinstance(rn.get("e"), dict):
                        rv = _const_bool(rn["e"])
                if rv is None:
                    continue
                val = (not rv) if inv else rv
                tgt = post["succ"][0] if val else post["succ"][1]
                if tgt is not None:
                    cb["succ"] = [tgt if s_ == post_id else s_ for s_ in cb["succ"]]
                    cb["threaded"] = True
                    cb["threaded_cond"] = call["id"]
                    cb["threaded_val"] = bool(rv)
    # the same for a smart pointer: `auto r = helper(...); if (r.isNull()) ...` / `if (!r)` where a return path of the helper yields an empty
    # pointer (`return {};`, `return nullptr;`) and the other a freshly created object (`T::create()`, make_shared, new)
    if d is not None and cbody is not None and post.get("cond") is not None and len(post.get("succ", [])) == 2 and not any(cb.get("threaded") for cb in cblocks):
        byid = {x["id"]: x for x in walk(d["body"])}
        cond = byid.get(post["cond"])
        inv = False
        c0 = skip_copies(cond) if cond else None
        while isinstance(c0, dict) and c0.get("k") == "unop" and c0.get("op") == "!":
            inv = not inv
            c0 = skip_copies(c0.get("e"))
        holder, null_test = None, None
        if isinstance(c0, dict) and c0.get("k") == "call" and c0.get("ck") == "member" and (c0.get("callee") or "").split("::")[-1] in ("isNull",) and "Pointer" in (c0.get("callee") or ""):
            holder, null_test = skip_copies(c0.get("obj")), True
        elif isinstance(c0, dict) and c0.get("k") == "call" and (c0.get("callee") or "").split("::")[-1] in ("operator bool", "operator RestrictedBool", "operator!") and "ointer" in (c0.get("callee") or "") + (c0.get("cls") or ""):
            holder = skip_copies(c0.get("obj") if c0.get("ck") == "member" else (c0.get("args") or [None])[0])
            null_test = (c0.get("callee") or "").endswith("operator!")
        decl_stmt = None
        if isinstance(holder, dict) and holder.get("k") == "ref" and holder.get("dk") == "local":
            for x in byid.values():
                if x.get("k") == "decl":
                    for v in x.get("vars", []):
                        if v.get("decl") == holder.get("decl") and isinstance(v.get("init"), dict) and skip_copies(v["init"]).get("id") == call["id"]:
                            decl_stmt = x
        if decl_stmt is not None:
            benign = {x["id"] for x in walk(decl_stmt)} | {x["id"] for x in walk(cond)} | {call["id"]}
            only = all(e.get("n") in benign for e in post["els"] if e.get("k") == "s")
            rnodes = {x["id"]: x for x in walk(cbody) if x.get("k") == "inl_return"}
            if only:
                for cb in cblocks:
                    if post_id not in cb.get("succ", []):
                        continue
                    isnull = None
                    for e in cb["els"]:
                        rn = rnodes.get(e.get("n"))
                        if rn is not None and isinstance(rn.get("e"), dict):
                            isnull = _null_pointer(rn["e"], cbody)
                    if isnull is None:
                        continue
                    val = isnull if null_test else (not isnull)
                    if inv:
                        val = not val
                    tgt = post["succ"][0] if val else post["succ"][1]
                    if tgt is not None:
                        cb["succ"] = [tgt if s_ == post_id else s_ for s_ in cb["succ"]]
                        cb["threaded"] = True
    # the callee's own exit block is dropped (nothing points to it any more)
    cblocks = [cb for cb in cblocks if cb["id"] != cmap[cexit]]
    b["succ"] = [cmap[centry]] if centry != cexit else [post_id]
    blocks.extend(cblocks)
    blocks.append(post)
    if cfg.get("exit") == b["id"]:
        cfg["exit"] = post_id


def owner_of(facts, fn, stop=()):
    """the function a private helper belongs to: if every call site of `fn` lies in one function (transitively), that function"""
    stop = set(stop)
    seen = set()
    cur = fn
    cache = getattr(facts, "_callers", None)
    if cache is None:
        cache = {}
        for g in facts.fns.values():
            for n in g.all_nodes():
                if n.get("k") in ("call", "construct") and n.get("fn"):
                    cache.setdefault(n["fn"], set()).add(g.id)
                elif n.get("k") == "lambda" and n.get("fn"):
                    cache.setdefault(n["fn"], set()).add(g.id)
        facts._callers = cache
    while cur.id not in seen:
        seen.add(cur.id)
        if cur.id in stop:
            return cur
        m = _method_info(facts, cur)
        private = cur.lambda_of or "(anonymous namespace)" in cur.name or (m is not None and m.get("access") in (1, 2)) or "Private::" in cur.name
        if not private or (m is not None and m.get("virtual")):
            return cur
        cs = cache.get(cur.id, set()) - {cur.id}
        if cur.lambda_of:
            cs = {cur.lambda_of}
        if len(cs) != 1:
            return cur
        nxt = facts.fns.get(next(iter(cs)))
        if nxt is None:
            return cur
        cur = nxt
    return cur
