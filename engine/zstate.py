"""Abstract state of the zone interpreter: a small set of DBMs partitioned by the values of boolean locals, and linear
expressions over symbols."""
from .dbm import DBM, INF, Z

MAX_PARTS = 48


class Lin:
    """sum(coef * sym) + k"""
    __slots__ = ("t", "k")

    def __init__(self, t=None, k=0):
        self.t = {s: c for s, c in (t or {}).items() if c != 0}
        self.k = k

    @staticmethod
    def const(k):
        return Lin({}, k)

    @staticmethod
    def sym(s, c=1, k=0):
        return Lin({s: c}, k)

    def add(self, o, sign=1):
        t = dict(self.t)
        for s, c in o.t.items():
            t[s] = t.get(s, 0) + sign * c
        return Lin(t, self.k + sign * o.k)

    def scale(self, f):
        return Lin({s: c * f for s, c in self.t.items()}, self.k * f)

    def is_const(self):
        return not self.t

    def single(self):
        """(sym, k) if the expression is sym + k"""
        if len(self.t) == 1:
            (s, c), = self.t.items()
            if c == 1:
                return s, self.k
        return None

    def syms(self):
        return list(self.t)

    def __repr__(self):
        return "Lin(%s%+d)" % ("".join("%+d*%s" % (c, s) for s, c in self.t.items()), self.k)


def lin_upper(d, lin):
    """upper bound of a linear expression in DBM d"""
    if d.bottom:
        return -INF
    t = lin.t
    if not t:
        return lin.k
    if len(t) == 2:
        (a, ca), (b, cb) = t.items()
        if ca == 1 and cb == -1:
            v = d.get(a, b)
            if v != INF:
                return min(v + lin.k, _interval_upper(d, lin))
        if ca == -1 and cb == 1:
            v = d.get(b, a)
            if v != INF:
                return min(v + lin.k, _interval_upper(d, lin))
    if len(t) == 3:
        # x - y - z: bound (x - y) and z separately, all three pairings
        best = _interval_upper(d, lin)
        items = list(t.items())
        for i in range(3):
            for j in range(3):
                if i != j and items[i][1] == 1 and items[j][1] == -1:
                    k = 3 - i - j
                    rest = Lin({items[k][0]: items[k][1]})
                    v = d.get(items[i][0], items[j][0])
                    if v != INF:
                        best = min(best, v + _interval_upper(d, rest) + lin.k)
        return best
    return _interval_upper(d, lin)


def _interval_upper(d, lin):
    tot = lin.k
    for s, c in lin.t.items():
        b = d.upper(s) if c > 0 else d.lower(s)
        if b in (INF, -INF):
            return INF
        tot += c * b
    return tot


def lin_lower(d, lin):
    v = lin_upper(d, lin.scale(-1))
    return -v if v != INF else -INF


def lin_taint(d, lin):
    """None if no tainted symbol takes part, else an upper bound of the value in tainted executions"""
    if not any(s in d.taint for s in lin.t):
        return None
    tot = lin.k
    for s, c in lin.t.items():
        if c > 0:
            b = d.taint.get(s)
            if b is None:
                b = d.upper(s)
            else:
                b = min(b, d.upper(s))
        else:
            b = d.lower(s)
        if b in (INF, -INF):
            tot = INF
            break
        tot += c * b
    return min(tot, lin_upper(d, lin))


def assign_lin(d, x, lin, unknown=False, taint=None):
    """x := lin in DBM d (lin None = no information)"""
    if d.bottom:
        return
    if lin is None:
        d.assign_top(x, unknown=unknown)
        if taint is not None:
            d.taint[x] = taint
        return
    tnt = lin_taint(d, lin)
    unk = any(s in d.unk for s in lin.t)
    if lin.is_const():
        d.assign_const(x, lin.k)
    elif lin.single():
        s, k = lin.single()
        d.assign_sym(x, s, k)
        tnt = d.taint.get(x)
    else:
        # bounds against every other symbol, computed before x is overwritten
        ups, los = {}, {}
        for u in list(d.m):
            if u == x:
                continue
            lu = lin.add(Lin.sym(u), -1) if u != Z else lin
            hi = lin_upper(d, lu)
            lo = lin_lower(d, lu)
            if hi != INF:
                ups[u] = hi
            if lo != -INF:
                los[u] = lo
        d.forget(x)
        d.ensure(x)
        for u, hi in ups.items():
            d.add(x, u, hi)
        for u, lo in los.items():
            d.add(u, x, -lo)
    if tnt is not None:
        d.taint[x] = min(tnt, d.upper(x))
    else:
        d.taint.pop(x, None)
    if taint is not None:
        d.taint[x] = taint
    if unk or unknown:
        d.unk.add(x)


def refine(d, a, op, b):
    """conjoin  a op b  (op in < <= > >= == !=) where a, b are Lin; unrepresentable facts are ignored (sound)"""
    if d.bottom:
        return
    diff = a.add(b, -1)  # diff op 0
    if op in (">", ">="):
        diff = diff.scale(-1)
        op = "<" if op == ">" else "<="
    if op == "<":
        diff = diff.add(Lin.const(1))
        op = "<="
    t = diff.t
    if op == "<=":
        _le0(d, diff)
    elif op == "==":
        _le0(d, diff)
        _le0(d, diff.scale(-1))
    elif op == "!=":
        hi = lin_upper(d, diff)
        lo = lin_lower(d, diff)
        if hi == 0 and lo == 0:
            d.bottom = True
        elif hi == 0:
            _le0(d, diff.add(Lin.const(1)))
        elif lo == 0:
            _le0(d, diff.scale(-1).add(Lin.const(1)))


def _le0(d, lin):
    """conjoin lin <= 0"""
    t = lin.t
    if not t:
        if lin.k > 0:
            d.bottom = True
        return
    if len(t) == 1:
        (s, c), = t.items()
        if c == 1:
            d.add(s, Z, -lin.k)
        elif c == -1:
            d.add(Z, s, -lin.k)
        elif c > 0:
            d.add(s, Z, (-lin.k) // c)
        else:
            # c*s + k <= 0, c<0  ->  s >= k/(-c) (ceil)
            d.add(Z, s, -(-((-lin.k) // c)) if False else -_ceil_div(lin.k, -c))
        return
    if len(t) == 2:
        (a, ca), (b, cb) = t.items()
        if ca == 1 and cb == -1:
            d.add(a, b, -lin.k)
            return
        if ca == -1 and cb == 1:
            d.add(b, a, -lin.k)
            return
    # weaker consequences: bound each unit-coefficient symbol by the interval of the rest
    for s, c in t.items():
        if c in (1, -1):
            rest = Lin({x: y for x, y in t.items() if x != s}, lin.k)
            if c == 1:
                lo = lin_lower(d, rest)  # s <= -rest
                if lo != -INF:
                    d.add(s, Z, -lo)
            else:
                hi_rest = lin_upper(d, rest.scale(-1))  # -s + rest <= 0 -> s >= rest
                lo = lin_lower(d, rest)
                if lo != -INF:
                    d.add(Z, s, -lo)


def _ceil_div(a, b):
    return -((-a) // b)


class St:
    """partitioned abstract state: {frozenset((booldecl, 0|1), ...): DBM}"""
    __slots__ = ("parts",)

    def __init__(self, parts=None):
        self.parts = parts if parts is not None else {frozenset(): DBM()}

    @staticmethod
    def bottom():
        return St({})

    def is_bottom(self):
        return not any(not d.bottom for d in self.parts.values())

    def copy(self):
        return St({k: d.copy() for k, d in self.parts.items() if not d.bottom})

    def dbms(self):
        return [d for d in self.parts.values() if not d.bottom]

    def each(self, fn):
        for d in self.parts.values():
            if not d.bottom:
                fn(d)
        self.prune()
        return self

    def prune(self):
        for k in [k for k, d in self.parts.items() if d.bottom]:
            del self.parts[k]

    def _put(self, parts, k, d, widen=False):
        if d.bottom:
            return
        if k in parts:
            parts[k] = parts[k].widen(d) if widen else parts[k].join(d)
        else:
            parts[k] = d.copy()

    def join(self, other):
        parts = {}
        for k, d in self.parts.items():
            self._put(parts, k, d)
        for k, d in other.parts.items():
            self._put(parts, k, d)
        s = St(parts)
        s.limit()
        return s

    def widen(self, other):
        """self ∇ other, partition-wise (keys only in other are added as they are)"""
        parts = {}
        for k, d in self.parts.items():
            self._put(parts, k, d)
        for k, d in other.parts.items():
            if k in parts:
                parts[k] = parts[k].widen(d)
            else:
                self._put(parts, k, d)
        s = St(parts)
        s.limit()
        return s

    def leq(self, other):
        for k, d in self.parts.items():
            if d.bottom:
                continue
            o = other.parts.get(k)
            if o is None:
                # covered if some partition of other with a sub-key contains it
                cands = [od for ok, od in other.parts.items() if ok <= k]
                if not any(d.leq(c) for c in cands):
                    return False
            elif not d.leq(o):
                return False
        return True

    def limit(self):
        while len(self.parts) > MAX_PARTS:
            decls = sorted({b for k in self.parts for b, _ in k})
            if not decls:
                break
            self.drop_bool(decls[0])

    # ---- boolean locals
    def set_bool(self, decl, val):
        parts = {}
        for k, d in self.parts.items():
            nk = frozenset([(b, v) for b, v in k if b != decl] + ([(decl, val)] if val is not None else []))
            self._put(parts, nk, d)
        self.parts = parts

    def drop_bool(self, decl):
        self.set_bool(decl, None)

    def split_bool(self, decl):
        """(state where decl is true, state where decl is false)"""
        t, f = {}, {}
        for k, d in self.parts.items():
            v = dict(k).get(decl)
            if v is None:
                self._put(t, k | {(decl, 1)}, d)
                self._put(f, k | {(decl, 0)}, d)
            elif v:
                self._put(t, k, d)
            else:
                self._put(f, k, d)
        return St(t), St(f)

    def forget(self, syms=(), bools=()):
        for s in syms:
            for d in self.parts.values():
                d.forget(s)
        for b in bools:
            self.drop_bool(b)
        return self


def join_all(states):
    out = None
    for s in states:
        if s is None or s.is_bottom():
            continue
        out = s.copy() if out is None else out.join(s)
    return out if out is not None else St.bottom()
