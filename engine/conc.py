"""Case evaluation over finite domains: evaluates expressions and whole function bodies of the normalised AST on concrete
values (integers, booleans, strings, constant tables), so that a rule can tabulate a small pure function of the program -
"verdict of Rule::matches for every (type suffix, message type)" - instead of recognising the one syntactic form it has today.
This is constant propagation by cases over the *source*: nothing is compiled or run. Anything outside the modelled fragment
makes the whole evaluation Unknown (the caller reports the obligation as undecidable, never as held).

Values: int (bool as 0/1), str, Table (constant associative container / list), or raise Unknown."""
from .facts import skip_copies, const_str, const_int, is_call, strip_tmpl, name_is, walk


_UNK = object()


class Unknown(Exception):
    pass


class Table:
    def __init__(self, pairs=None, items=None, default=None):
        self.pairs = pairs      # dict for associative containers
        self.items = items      # list for sequences / arrays
        self.default = default

    def __repr__(self):
        return "Table(%r)" % (self.pairs if self.pairs is not None else self.items)


class Ptr:
    """a smart pointer (QSharedPointer, std::shared_ptr, std::unique_ptr) of which only emptiness is known"""
    def __init__(self, null):
        self.null = bool(null)

    def __eq__(self, other):
        return isinstance(other, Ptr) and other.null and self.null

    def __hash__(self):
        return hash(("ptr", self.null))

    def __repr__(self):
        return "Ptr(%s)" % ("null" if self.null else "object")


SMART_POINTERS = ("QSharedPointer", "std::shared_ptr", "std::unique_ptr", "QScopedPointer", "std::__shared_ptr")


class Opt:
    """std::optional / QVariant-like maybe-value: v is None when empty"""
    def __init__(self, v=None):
        self.v = v

    def __eq__(self, other):
        return isinstance(other, Opt) and other.v == self.v

    def __hash__(self):
        return hash(("opt", self.v))

    def __repr__(self):
        return "Opt(%r)" % (self.v,)


class _Ret(Exception):
    def __init__(self, v):
        self.v = v


class _Brk(Exception):
    pass


class _Cont(Exception):
    pass


INT_MASKS = {"quint8": (8, False), "unsigned char": (8, False), "uchar": (8, False), "qint8": (8, True), "signed char": (8, True), "char": (8, True),
             "quint16": (16, False), "unsigned short": (16, False), "ushort": (16, False), "qint16": (16, True), "short": (16, True),
             "quint32": (32, False), "unsigned int": (32, False), "uint": (32, False), "unsigned": (32, False), "qint32": (32, True), "int": (32, True),
             "quint64": (64, False), "unsigned long": (64, False), "unsigned long long": (64, False), "qulonglong": (64, False), "size_t": (64, False),
             "qint64": (64, True), "long": (64, True), "long long": (64, True), "qlonglong": (64, True), "qsizetype": (64, True), "bool": (1, False)}

STRING_TYPES = ("QString", "QByteArray", "QLatin1String", "QStringView", "QStringRef", "std::string", "std::basic_string", "QLatin1StringView", "QAnyStringView", "QByteArrayView")


def _conv(v, t):
    """integer conversion to the static type of the expression (truncation of narrow unsigned types matters for bit masks)"""
    if not isinstance(v, int) or not t:
        return v
    t = t.replace("const ", "").replace("volatile ", "").replace("&", "").strip()
    m = INT_MASKS.get(t)
    if m is None:
        return v
    bits, signed = m
    if bits == 1:
        return int(bool(v))
    v &= (1 << bits) - 1
    if signed and v >= 1 << (bits - 1):
        v -= 1 << bits
    return v


class Conc:
    def __init__(self, facts, leaf=None, max_depth=8, max_steps=20000, tolerant=False, store_hook=None):
        self.F = facts
        self.tolerant = tolerant        # statements outside the fragment havoc what they mention instead of aborting
        self.store_hook = store_hook
        self.leaf = leaf or (lambda n, env: None)
        self.max_depth = max_depth
        self.steps = max_steps
        self.trace = []

    # ------------------------------------------------------------------ expressions
    def eval(self, n, env, depth=0):
        self.steps -= 1
        if self.steps < 0:
            raise Unknown("evaluation budget exhausted")
        if not isinstance(n, dict):
            raise Unknown("missing expression")
        v = self.leaf(n, env)
        if v is not None:
            return v
        k = n.get("k")
        if k in ("int", "char"):
            return n["v"]
        if k == "bool":
            return int(n["v"])
        if "cv" in n:
            return n["cv"]          # folded by the compiler front end: a constant whatever the environment
        if k == "subscript":
            o = self.eval(n.get("base"), env, depth)
            i = self.eval(n.get("idx"), env, depth)
            if isinstance(o, Table) and o.items is not None and isinstance(i, int) and 0 <= i < len(o.items):
                return o.items[i]
            if isinstance(o, str) and isinstance(i, int) and 0 <= i < len(o):
                return ord(o[i])
            raise Unknown("subscript outside the constant table")
        s = const_str(n)
        if s is not None:
            return s
        if k in ("str", "qstr"):
            return n.get("v", "")
        if k == "cast" or k == "paren":
            return _conv(self.eval(n.get("e"), env, depth), n.get("type"))
        if k == "defaultarg":
            if isinstance(n.get("e"), dict):
                return self.eval(n["e"], env, depth)
            if "cv" in n:
                return n["cv"]
            raise Unknown("default argument")
        if k == "ref" and (n.get("name") or "").endswith("nullopt"):
            return Opt(None)
        if k == "ref":
            d = n.get("decl")
            if d in env:
                return env[d]
            if env.get("__unk__:%s" % d):
                raise Unknown("value of %s" % n.get("name"))
            if "cv" in n:
                return n["cv"]
            if n.get("dk") in ("global", "local", "static"):
                g = self.F.globals.get(d) if hasattr(self.F, "globals") else None
                if isinstance(g, dict) and g.get("const") and isinstance(g.get("init"), dict):
                    return self.value_of_init(g["init"], env, depth)
            fn = env.get("__fn__")
            if fn is not None and n.get("dk") == "local":
                from .facts import single_assignment_init
                init = single_assignment_init(fn, d)
                if init is not None:
                    return self.value_of_init(init, env, depth)
            raise Unknown("value of %s" % n.get("name"))
        if k == "this":
            return ("this",)
        if k == "member":
            nm = n.get("name")
            fields = env.get("__fields__") or {}
            base = n.get("base")
            b = skip_copies(base) if isinstance(base, dict) else None
            if (b is None or b.get("k") == "this" or (isinstance(b, dict) and b.get("k") == "unop" and skip_copies(b.get("e")).get("k") == "this")) and nm in fields:
                return fields[nm]
            if isinstance(b, dict) and b.get("k") == "member" and not n.get("arrow") and nm in fields:
                # field of a member struct held by value (this->m_spec.width): keyed by the leaf's qualified name
                bb = skip_copies(b.get("base")) if isinstance(b.get("base"), dict) else None
                if bb is None or bb.get("k") == "this":
                    return fields[nm]
            if "cv" in n:
                return n["cv"]
            raise Unknown("field %s" % nm)
        if k == "unop":
            op = n.get("op")
            if op in ("++", "--"):
                t = skip_copies(n.get("e"))
                old = self.eval(t, env, depth)
                if not isinstance(old, int):
                    raise Unknown("increment of a non-integer")
                new = _conv(old + (1 if op == "++" else -1), t.get("type"))
                self.store(t, new, env)
                return old if n.get("postfix") else new
            if op == "*" or op == "&":
                return self.eval(n.get("e"), env, depth)
            x = self.eval(n.get("e"), env, depth)
            if not isinstance(x, int):
                raise Unknown("unary %s on a non-integer" % op)
            r = {"-": -x, "+": x, "!": int(not x), "~": ~x}.get(op)
            if r is None:
                raise Unknown("unary %s" % op)
            return _conv(r, n.get("type"))
        if k == "cond":
            c = self.truth(self.eval(n.get("cond"), env, depth))
            return self.eval(n.get("t") if c else n.get("f"), env, depth)
        if k == "binop":
            return self.binop(n, env, depth)
        if k in ("construct", "initlist", "new"):
            return self.value_of_init(n, env, depth)
        if k == "call":
            return self.call(n, env, depth)
        if "cv" in n:
            return n["cv"]
        raise Unknown("expression kind %s" % k)

    def truth(self, v):
        if isinstance(v, Opt):
            return v.v is not None
        if isinstance(v, Ptr):
            return not v.null
        if isinstance(v, int):
            return bool(v)
        raise Unknown("condition is not an integer")

    def binop(self, n, env, depth):
        op = n["op"]
        if op == "&&":
            return int(self.truth(self.eval(n["lhs"], env, depth)) and self.truth(self.eval(n["rhs"], env, depth)))
        if op == "||":
            return int(self.truth(self.eval(n["lhs"], env, depth)) or self.truth(self.eval(n["rhs"], env, depth)))
        if op == ",":
            self.eval(n["lhs"], env, depth)
            return self.eval(n["rhs"], env, depth)
        if op == "=" or (op.endswith("=") and op not in ("==", "!=", "<=", ">=")):
            lhs = skip_copies(n["lhs"])
            v = self.eval(n["rhs"], env, depth)
            if op != "=":
                old = self.eval(lhs, env, depth)
                v = self.arith(op[:-1], old, v)
            v = _conv(v, lhs.get("type"))
            self.store(lhs, v, env)
            return v
        a = self.eval(n["lhs"], env, depth)
        b = self.eval(n["rhs"], env, depth)
        return _conv(self.arith(op, a, b), n.get("type"))

    def arith(self, op, a, b):
        if isinstance(a, str) and isinstance(b, str):
            if op == "+":
                return a + b
            r = {"==": a == b, "!=": a != b, "<": a < b, ">": a > b, "<=": a <= b, ">=": a >= b}.get(op)
            if r is None:
                raise Unknown("string operator %s" % op)
            return int(r)
        if not (isinstance(a, int) and isinstance(b, int)):
            raise Unknown("operator %s on %s, %s" % (op, type(a).__name__, type(b).__name__))
        if op in ("/", "%") and b == 0:
            raise Unknown("division by zero")
        if op in ("<<", ">>") and not 0 <= b < 64:
            raise Unknown("shift by %d" % b)
        r = {"+": lambda: a + b, "-": lambda: a - b, "*": lambda: a * b, "<": lambda: int(a < b), ">": lambda: int(a > b), "<=": lambda: int(a <= b), ">=": lambda: int(a >= b),
             "==": lambda: int(a == b), "!=": lambda: int(a != b), "&": lambda: a & b, "|": lambda: a | b, "^": lambda: a ^ b,
             "/": lambda: int(a / b), "%": lambda: a - b * int(a / b), "<<": lambda: a << b, ">>": lambda: a >> b}.get(op)
        if r is None:
            raise Unknown("operator %s" % op)
        return r()

    def store(self, lhs, v, env):
        lhs = skip_copies(lhs)
        if "std::optional<" in (lhs.get("type") or "") and not isinstance(v, Opt):
            v = Opt(v)
        if self.store_hook is not None and self.store_hook(lhs, v, env):
            return
        if lhs.get("k") == "ref" and lhs.get("decl"):
            env[lhs["decl"]] = v
            return
        if lhs.get("k") == "member":
            b = skip_copies(lhs.get("base")) if isinstance(lhs.get("base"), dict) else None
            if b is None or b.get("k") == "this":
                env.setdefault("__fields__", {})[lhs.get("name")] = v
                return
        raise Unknown("store to %s" % lhs.get("k"))

    def value_of_init(self, n, env, depth):
        """value of an initialiser: scalars, strings, brace-initialised constant tables"""
        n0 = n
        n = skip_copies(n)
        s = const_str(n)
        if s is not None:
            return s
        if n.get("k") == "construct" and strip_tmpl((n.get("class") or "")) == "std::optional":
            a_ = [x for x in n.get("args", []) if x.get("k") != "defaultarg"]
            if not a_:
                return Opt(None)
            v_ = self.eval(a_[0], env, depth)
            return v_ if isinstance(v_, Opt) else Opt(v_)
        if n.get("k") in ("construct", "initlist"):
            t = strip_tmpl((n.get("class") or n.get("type") or "").replace("const ", ""))
            args = n.get("args") if n.get("k") == "construct" else n.get("els")
            args = [a for a in (args or []) if isinstance(a, dict) and a.get("k") != "defaultarg"]
            if t in SMART_POINTERS:
                if not args:
                    return Ptr(True)
                if len(args) == 1:
                    v_ = self.eval(args[0], env, depth) if skip_copies(args[0]).get("k") != "new" else Ptr(False)
                    if isinstance(v_, Ptr):
                        return v_
                    if v_ == 0 and skip_copies(args[0]).get("k") in ("nullptr", "int"):
                        return Ptr(True)
                raise Unknown("value of a %s object" % t)
            if t in STRING_TYPES:
                if not args:
                    return ""
                if len(args) == 1:
                    return self.eval(args[0], env, depth)
                if len(args) == 2:
                    a0, a1 = self.eval(args[0], env, depth), self.eval(args[1], env, depth)
                    if isinstance(a0, int) and isinstance(a1, (int, str)):      # QString(count, fill)
                        c_ = chr(a1) if isinstance(a1, int) else a1
                        return c_ * max(a0, 0)
                    if isinstance(a0, str) and isinstance(a1, int):              # QString(text, length)
                        return a0 if a1 < 0 else a0[:a1]
            # associative / sequence containers from brace lists
            from .util import initlist_pairs
            try:
                pairs = initlist_pairs(n0)
            except Exception:
                pairs = None
            if pairs:
                out = {}
                for kx, vx in pairs:
                    kk, vv = self.eval(kx, env, depth), self.eval(vx, env, depth)
                    if kk not in out or "QMultiHash" in t or "QMultiMap" in t:
                        out[kk] = vv
                return Table(pairs=out)
            els = None
            if n.get("k") == "initlist":
                els = n.get("els", [])
            elif len(args) == 1 and skip_copies(args[0]).get("k") == "initlist":
                els = skip_copies(args[0]).get("els", [])
            if els is not None:
                return Table(items=[self.eval(e, env, depth) for e in els])
            if len(args) == 1:
                return self.eval(args[0], env, depth)
            if not args and "cv" in n:
                return n["cv"]
            if "cv" in n:
                return n["cv"]
            if not [a for a in args if a.get("k") != "defaultarg"] and any(c_ in ((t or "") + " " + (n.get("type") or "")) for c_ in ("QSet<", "QList<", "QVector<", "QStringList", "std::vector<", "std::set<", "QStack<", "QQueue<")):
                return Table(items=[])       # default-constructed sequence / set
            raise Unknown("value of a %s object" % (t or "class"))
        if n.get("k") == "new":
            raise Unknown("allocation")
        return self.eval(n, env, depth)

    # ------------------------------------------------------------------ calls
    def call(self, n, env, depth):
        callee = n.get("callee") or ""
        short = strip_tmpl(callee).split("::")[-1]
        args = [a for a in n.get("args", [])]
        op = n.get("op")
        if op in ("==", "!=") and len(args) == 2:
            a_, b_ = self.eval(args[0], env, depth), self.eval(args[1], env, depth)
            if isinstance(a_, Opt) or isinstance(b_, Opt):
                av_ = a_.v if isinstance(a_, Opt) else a_
                bv_ = b_.v if isinstance(b_, Opt) else b_
                eq = (av_ is not None or isinstance(a_, Opt) and isinstance(b_, Opt)) and av_ == bv_
                return int(eq if op == "==" else not eq)
            return self.arith(op, a_, b_)
        if op in ("<", ">", "<=", ">=", "+") and len(args) == 2:
            return self.arith(op, self.eval(args[0], env, depth), self.eval(args[1], env, depth))
        if op == "*" and len(args) == 1:
            o_ = self.eval(args[0], env, depth)
            if isinstance(o_, Opt):
                if o_.v is None:
                    raise Unknown("dereference of an empty optional")
                return o_.v
            return o_
        if op == "!" and len(args) == 1:
            return int(not self.truth(self.eval(args[0], env, depth)))
        if op == "=" and len(args) == 2:
            v = self.value_of_init(args[1], env, depth)
            self.store(args[0], v, env)
            return v
        obj = n.get("obj")
        if short in ("create", "make_shared", "make_unique") and n.get("ck") != "member" and (strip_tmpl(n.get("cls") or "") in SMART_POINTERS or callee.startswith("std::make_")):
            return Ptr(False)           # a freshly created object (its constructor is not run: only emptiness is modelled)
        if n.get("ck") == "member" and isinstance(obj, dict) and strip_tmpl(n.get("cls") or "") in SMART_POINTERS:
            o = self.eval(obj, env, depth)
            if isinstance(o, Ptr):
                if short in ("isNull",):
                    return int(o.null)
                if short in ("operator bool", "operator RestrictedBool") or n.get("conv"):
                    return int(not o.null)
                if short == "operator!":
                    return int(o.null)
                if short in ("reset", "clear") and not [a for a in args if a.get("k") != "defaultarg"]:
                    self.store(obj, Ptr(True), env)
                    return 0
            raise Unknown("smart pointer method %s" % short)
        if n.get("ck") == "member" and isinstance(obj, dict) and strip_tmpl(n.get("cls") or "") in ("std::optional", "std::_Optional_base", "std::_Optional_base_impl"):
            o = self.eval(obj, env, depth)
            if isinstance(o, Opt):
                if short in ("operator bool", "has_value") or n.get("conv"):
                    return int(o.v is not None)
                if short in ("value", "operator*", "operator->"):
                    if o.v is None:
                        raise Unknown("value of an empty optional")
                    return o.v
                if short == "value_or" and args:
                    return o.v if o.v is not None else self.eval(args[0], env, depth)
                if short == "reset":
                    self.store(obj, Opt(None), env)
                    return 0
            raise Unknown("optional method %s" % short)
        if n.get("ck") == "member" and isinstance(obj, dict) and strip_tmpl(n.get("cls") or "") in ("QChar", "QCharRef") and not [a for a in args if a.get("k") != "defaultarg"]:
            u = self.eval(obj, env, depth)
            if isinstance(u, str) and len(u) == 1:
                u = ord(u)
            if isinstance(u, int):
                tests = {"isHighSurrogate": 0xD800 <= u <= 0xDBFF, "isLowSurrogate": 0xDC00 <= u <= 0xDFFF, "isSurrogate": 0xD800 <= u <= 0xDFFF, "isNull": u == 0,
                         "isDigit": chr(u).isdigit() if u < 0xD800 else None, "isSpace": chr(u).isspace() if u < 0xD800 else None, "isLetter": chr(u).isalpha() if u < 0xD800 else None,
                         "isUpper": chr(u).isupper() if u < 0xD800 else None, "isLower": chr(u).islower() if u < 0xD800 else None}
                if short in tests and tests[short] is not None:
                    return int(tests[short])
                if short in ("unicode", "toLatin1", "cell") or n.get("conv"):
                    return u if short != "toLatin1" or u < 256 else 0
            raise Unknown("QChar method %s" % short)
        if n.get("ck") == "member" and isinstance(obj, dict):
            cls = strip_tmpl(n.get("cls") or "")
            if cls in STRING_TYPES or cls.startswith("QString"):
                o = self.eval(obj, env, depth)
                if isinstance(o, str):
                    av = lambda i: self.eval(args[i], env, depth)
                    real = [a for a in args if a.get("k") != "defaultarg"]
                    if short in ("isEmpty", "isNull", "empty") and not real:
                        return int(o == "")
                    if short in ("at", "operator[]") and len(real) == 1:
                        i_ = self.eval(real[0], env, depth)
                        if isinstance(i_, int) and 0 <= i_ < len(o):
                            return ord(o[i_])       # a QChar: its UTF-16 code unit
                        raise Unknown("character index %r outside the string" % (i_,))
                    if short in ("front", "back") and not real and o:
                        return ord(o[0] if short == "front" else o[-1])
                    if short in ("size", "length", "count") and not real:
                        return len(o)
                    if short == "toLower" and not real:
                        return o.lower()
                    if short == "toUpper" and not real:
                        return o.upper()
                    if short == "trimmed" and not real:
                        return o.strip()
                    if short in ("toString", "toUtf8", "toLatin1", "toLocal8Bit", "data", "constData", "toStdString") and not real:
                        return o
                    if short == "startsWith" and len(real) == 1 and isinstance(av(0), str):
                        return int(o.startswith(av(0)))
                    if short == "endsWith" and len(real) == 1 and isinstance(av(0), str):
                        return int(o.endswith(av(0)))
                    if short == "contains" and len(real) == 1 and isinstance(av(0), str):
                        return int(av(0) in o)
                    if short == "compare" and len(real) == 1 and isinstance(av(0), str):
                        a0 = av(0)
                        return (o > a0) - (o < a0)
                    ints = [self.eval(a_, env, depth) for a_ in real]
                    ch = lambda v: chr(v) if isinstance(v, int) else v
                    if short == "left" and len(real) == 1 and isinstance(ints[0], int):
                        return o if ints[0] < 0 or ints[0] >= len(o) else o[:ints[0]]
                    if short == "right" and len(real) == 1 and isinstance(ints[0], int):
                        return o if ints[0] < 0 or ints[0] >= len(o) else o[len(o) - ints[0]:]
                    if short == "mid" and real and all(isinstance(i_, int) for i_ in ints) and ints[0] >= 0:
                        return o[ints[0]:] if len(ints) == 1 or ints[1] < 0 else o[ints[0]:ints[0] + ints[1]]
                    if short in ("chopped",) and len(real) == 1 and isinstance(ints[0], int) and 0 <= ints[0] <= len(o):
                        return o[:len(o) - ints[0]]
                    if short in ("leftJustified", "rightJustified") and real and isinstance(ints[0], int):
                        fill = ch(ints[1]) if len(ints) > 1 else " "
                        trunc = bool(ints[2]) if len(ints) > 2 else False
                        if not isinstance(fill, str) or len(fill) != 1:
                            raise Unknown("fill character")
                        w = ints[0]
                        if len(o) >= w:
                            return o[:w] if trunc and w >= 0 else o
                        return o + fill * (w - len(o)) if short == "leftJustified" else fill * (w - len(o)) + o
                    if short in ("replace", "insert", "remove") and real and all(isinstance(i_, int) for i_ in ints[:1]):
                        tgt = skip_copies(obj)
                        new = None
                        if short == "replace" and len(ints) == 3 and isinstance(ints[1], int) and isinstance(ch(ints[2]), str):
                            # QString::replace(pos, n, after): nothing when pos is outside [0, size]; n is clipped to the tail
                            pos, cnt, aft = ints[0], ints[1], ch(ints[2])
                            if pos < 0 or pos > len(o):
                                new = o
                            elif cnt >= 0:
                                cnt = min(cnt, len(o) - pos)
                                new = o[:pos] + aft + o[pos + cnt:]
                        elif short == "insert" and len(ints) == 2 and isinstance(ch(ints[1]), str) and 0 <= ints[0] <= len(o):
                            new = o[:ints[0]] + ch(ints[1]) + o[ints[0]:]
                        elif short == "remove" and len(ints) == 2 and isinstance(ints[1], int) and 0 <= ints[0]:
                            new = o if ints[0] >= len(o) or ints[1] <= 0 else o[:ints[0]] + o[ints[0] + ints[1]:]
                        if new is None:
                            raise Unknown("string method %s with these arguments" % short)
                        self.store(tgt, new, env)
                        return new
                    if short in ("append", "prepend", "operator+=", "push_back", "reserve", "squeeze", "clear", "truncate", "chop") :
                        tgt = skip_copies(obj)
                        if short in ("reserve", "squeeze"):
                            return o
                        if short == "clear":
                            new = ""
                        elif short == "truncate" and isinstance(ints[0], int):
                            new = o[:max(ints[0], 0)]
                        elif short == "chop" and isinstance(ints[0], int):
                            new = o[:max(len(o) - ints[0], 0)] if ints[0] > 0 else o
                        elif len(ints) == 1 and isinstance(ch(ints[0]), str):
                            new = ch(ints[0]) + o if short == "prepend" else o + ch(ints[0])
                        else:
                            raise Unknown("string method %s" % short)
                        self.store(tgt, new, env)
                        return new
                    raise Unknown("string method %s" % short)
            if any(c in cls for c in ("QHash", "QMap", "std::map", "std::unordered_map", "QList", "QVector", "QSet", "std::array", "std::vector", "QStringList", "std::initializer_list")):
                o = self.eval(obj, env, depth)
                if isinstance(o, Table):
                    real = [a for a in args if a.get("k") != "defaultarg"]
                    if o.pairs is not None:
                        if short == "value" and real:
                            kx = self.eval(real[0], env, depth)
                            if kx in o.pairs:
                                return o.pairs[kx]
                            if len(real) > 1:
                                return self.eval(real[1], env, depth)
                            if len(args) > 1 and "cv" in args[1]:
                                return args[1]["cv"]
                            raise Unknown("default-constructed table value")
                        if short in ("contains", "count") and len(real) == 1:
                            return int(self.eval(real[0], env, depth) in o.pairs)
                        if short in ("size", "count") and not real:
                            return len(o.pairs)
                        if short == "key" and real:
                            vx = self.eval(real[0], env, depth)
                            for kk, vv in o.pairs.items():
                                if vv == vx:
                                    return kk
                            if len(real) > 1:
                                return self.eval(real[1], env, depth)
                            raise Unknown("default-constructed table key")
                    else:
                        if short in ("at", "value", "operator[]") and real:
                            i = self.eval(real[0], env, depth)
                            if isinstance(i, int) and 0 <= i < len(o.items):
                                return o.items[i]
                            if short == "value" and len(real) > 1:
                                return self.eval(real[1], env, depth)
                            raise Unknown("index %r outside the constant table" % (i,))
                        if short == "contains" and len(real) == 1:
                            return int(self.eval(real[0], env, depth) in o.items)
                        if short in ("size", "count", "length") and not real:
                            return len(o.items)
                        if short == "indexOf" and len(real) == 1:
                            x = self.eval(real[0], env, depth)
                            return o.items.index(x) if x in o.items else -1
                        if short in ("isEmpty", "empty") and not real:
                            return int(not o.items)
                        if short in ("first", "constFirst", "front", "last", "constLast", "back") and not real:
                            if not o.items:
                                raise Unknown("%s() of an empty list" % short)
                            return o.items[0] if short in ("first", "constFirst", "front") else o.items[-1]
                        if short in ("removeFirst", "pop_front", "takeFirst", "removeLast", "pop_back", "takeLast", "removeAt", "takeAt"):
                            items = list(o.items)
                            if short in ("removeAt", "takeAt"):
                                i = self.eval(real[0], env, depth) if real else None
                                if not isinstance(i, int):
                                    raise Unknown("index of %s" % short)
                                if not (0 <= i < len(items)):
                                    if short == "takeAt":
                                        raise Unknown("takeAt outside the list")
                                    return 0
                                x = items.pop(i)
                            else:
                                if not items:
                                    raise Unknown("%s() of an empty list" % short)
                                x = items.pop(0 if short in ("removeFirst", "pop_front", "takeFirst") else -1)
                            self.store(skip_copies(obj), Table(items=items), env)
                            return x if short.startswith("take") else 0
                        if short == "mid" and real:
                            ii = [self.eval(a_, env, depth) for a_ in real]
                            if all(isinstance(i_, int) for i_ in ii) and ii[0] >= 0:
                                return Table(items=list(o.items[ii[0]:] if len(ii) == 1 or ii[1] < 0 else o.items[ii[0]:ii[0] + ii[1]]))
                        if short in ("insert", "append", "push_back", "prepend", "push_front", "operator<<", "operator+=", "unite", "remove", "removeAll", "removeOne", "clear") and len(real) <= 1:
                            # value semantics: the container named by the receiver gets a new value
                            is_set = "QSet" in cls or "std::set" in cls or "unordered_set" in cls
                            items = list(o.items)
                            if short == "clear":
                                items = []
                            else:
                                x = self.eval(real[0], env, depth)
                                xs = list(x.items) if isinstance(x, Table) and x.items is not None else [x]
                                if short in ("remove", "removeAll", "removeOne"):
                                    items = [y for y in items if y not in xs]
                                elif short in ("prepend", "push_front"):
                                    items = xs + items
                                else:
                                    for y in xs:
                                        if not (is_set and y in items):
                                            items.append(y)
                            new = Table(items=items)
                            self.store(skip_copies(obj), new, env)
                            return new
                    raise Unknown("container method %s" % short)
        if op == "[]" and len(args) == 2:
            o = self.eval(args[0], env, depth)
            i = self.eval(args[1], env, depth)
            if isinstance(o, Table):
                if o.pairs is not None and i in o.pairs:
                    return o.pairs[i]
                if o.items is not None and isinstance(i, int) and 0 <= i < len(o.items):
                    return o.items[i]
            raise Unknown("subscript")
        # transparent wrappers
        if short in ("qAsConst", "as_const", "move", "forward") and len(args) == 1:
            return self.eval(args[0], env, depth)
        if short in ("qMax", "max", "qMin", "min") and len(args) == 2:
            a, b = self.eval(args[0], env, depth), self.eval(args[1], env, depth)
            if isinstance(a, int) and isinstance(b, int):
                return (max if short in ("qMax", "max") else min)(a, b)
        if short in ("fromUtf8", "fromLatin1", "fromLocal8Bit", "fromStdString") and args:
            v = self.eval(args[0], env, depth)
            if isinstance(v, str):
                return v
        if "cv" in n:
            return n["cv"]
        # a function of the repository with a body: evaluate it
        f = self.F.fns.get(n.get("fn")) if n.get("fn") else None
        if f is not None and f.body is not None and not n.get("virtual"):
            if depth >= self.max_depth:
                raise Unknown("call depth")
            vals = []
            for a in args:
                try:
                    vals.append(self.eval(a, env, depth))
                except Unknown:
                    vals.append(_UNK)       # unknown until the callee uses it
            this_fields = None
            if n.get("ck") == "member" and isinstance(obj, dict):
                ob = skip_copies(obj)
                if ob.get("k") == "this" or (ob.get("k") == "unop" and skip_copies(ob.get("e")).get("k") == "this"):
                    this_fields = env.get("__fields__")
                elif not f.d.get("static"):
                    raise Unknown("method call on another object")
            return self.call_fn(f, vals, this_fields, depth + 1)
        raise Unknown("call of %s" % (callee or "?"))

    def call_fn(self, f, vals, fields=None, depth=0):
        env = {"__fn__": f, "__fields__": fields if fields is not None else {}}
        ps = f.params
        if len(vals) > len(ps):
            raise Unknown("argument count of %s" % f.name)
        for p, v in zip(ps, vals):
            if v is _UNK:
                env["__unk__:%s" % p["decl"]] = True
                continue
            env[p["decl"]] = _conv(v, p.get("type"))
        if len(vals) < len(ps):
            raise Unknown("missing arguments of %s" % f.name)
        try:
            self.exec(f.body, env, depth)
        except _Ret as r:
            return r.v
        return 0

    # ------------------------------------------------------------------ statements
    def exec(self, s, env, depth=0):
        if not isinstance(s, dict):
            return
        self.steps -= 1
        if self.steps < 0:
            raise Unknown("evaluation budget exhausted")
        k = s.get("k")
        if k == "compound":
            for c in s.get("body", []):
                self.exec(c, env, depth)
        elif k == "decl":
            for v in s.get("vars", []):
                if v.get("decl") and not isinstance(v.get("init"), dict) and any(c_ in (v.get("type") or "") for c_ in ("QSet<", "QList<", "QVector<", "QStringList", "std::vector<", "std::set<")):
                    env[v["decl"]] = Table(items=[])
                    env.pop("__unk__:" + v["decl"], None)
                    continue
                if v.get("decl") and isinstance(v.get("init"), dict):
                    try:
                        env[v["decl"]] = _conv(self.value_of_init(v["init"], env, depth), v.get("type"))
                        env.pop("__unk__:" + v["decl"], None)
                    except Unknown:
                        env.pop(v["decl"], None)   # unknown until used
                        env["__unk__:" + v["decl"]] = True
                        if self.tolerant:
                            self.havoc(v["init"], env, but=v["decl"])
        elif k == "if":
            if isinstance(s.get("init"), dict):
                self.exec(s["init"], env, depth)
            if isinstance(s.get("condvar"), dict):
                self.exec(s["condvar"], env, depth)
            try:
                c = self.truth(self.eval(s.get("cond"), env, depth))
            except Unknown:
                if not self.tolerant or any(x.get("k") in ("return", "break", "continue", "goto") for b in (s.get("then"), s.get("else")) if isinstance(b, dict) for x in walk(b)):
                    raise
                self.havoc(s, env)
                return
            self.exec(s.get("then") if c else s.get("else"), env, depth)
        elif k == "return":
            raise _Ret(self.eval(s["e"], env, depth) if isinstance(s.get("e"), dict) else None)
        elif k == "switch":
            if isinstance(s.get("init"), dict):
                self.exec(s["init"], env, depth)
            v = self.eval(s.get("cond"), env, depth)
            body = s.get("body") or {}
            stmts = body.get("body", []) if body.get("k") == "compound" else [body]
            flat = []
            for c in stmts:          # labels nest: case A: case B: stmt
                while isinstance(c, dict) and c.get("k") in ("case", "default"):
                    flat.append(("label", c))
                    c = c.get("sub")
                if isinstance(c, dict):
                    flat.append(("stmt", c))
            start = None
            for i, (kind, c) in enumerate(flat):
                if kind == "label" and c.get("k") == "case":
                    lo = self.eval(c.get("val"), env, depth)
                    hi = self.eval(c["rhs"], env, depth) if isinstance(c.get("rhs"), dict) else lo
                    if isinstance(v, int) and lo <= v <= hi:
                        start = i
                        break
            if start is None:
                for i, (kind, c) in enumerate(flat):
                    if kind == "label" and c.get("k") == "default":
                        start = i
                        break
            if start is not None:
                try:
                    for kind, c in flat[start:]:
                        if kind == "stmt":
                            self.exec(c, env, depth)
                except _Brk:
                    pass
        elif k == "break":
            raise _Brk()
        elif k == "continue":
            raise _Cont()
        elif k in ("for", "while", "do"):
            if isinstance(s.get("init"), dict):
                self.exec(s["init"], env, depth)
            first = True
            while True:
                if not (k == "do" and first):
                    if isinstance(s.get("cond"), dict) and not self.truth(self.eval(s["cond"], env, depth)):
                        break
                first = False
                try:
                    self.exec(s.get("body"), env, depth)
                except _Brk:
                    break
                except _Cont:
                    pass
                if k == "for" and isinstance(s.get("inc"), dict):
                    self.step(s["inc"], env, depth)
        elif k == "rangefor":
            o = self.eval(s.get("range"), env, depth)
            if not isinstance(o, Table) or o.items is None:
                raise Unknown("range-for over a non-constant container")
            for x in o.items:
                env[s["var"]["decl"]] = x
                try:
                    self.exec(s.get("body"), env, depth)
                except _Brk:
                    break
                except _Cont:
                    pass
        elif k == "null":
            pass
        elif k in ("label", "case", "default"):
            self.exec(s.get("sub"), env, depth)
        elif k in ("goto", "try"):
            raise Unknown("statement kind %s" % k)
        else:
            if self.tolerant:
                try:
                    self.step(s, env, depth)
                except Unknown:
                    self.havoc(s, env)
            else:
                self.step(s, env, depth)

    def havoc(self, s, env, but=None):
        """forget every local and own field a statement outside the fragment mentions (it may have changed them)"""
        # a smart pointer that is only dereferenced (p->field = ..., *p, p.data()) keeps its emptiness: the statement works on the pointee
        deref_only = set()
        for x in walk(s):
            if x.get("k") == "call" and strip_tmpl(x.get("cls") or "") in SMART_POINTERS and (x.get("op") in ("->", "*") or (x.get("callee") or "").split("::")[-1] in ("operator->", "operator*", "data", "get", "isNull", "operator bool")):
                o_ = skip_copies(x.get("obj") if x.get("ck") == "member" else (x.get("args") or [None])[0])
                if isinstance(o_, dict) and o_.get("k") == "ref":
                    deref_only.add(o_.get("id"))
        for x in walk(s):
            if x.get("k") == "ref" and x.get("id") in deref_only and isinstance(env.get(x.get("decl")), Ptr):
                continue
            if x.get("k") == "ref" and x.get("decl") and x.get("dk") in ("local", "param", "staticlocal") and x["decl"] != but:
                if x["decl"] in env or True:
                    env.pop(x["decl"], None)
                    env["__unk__:" + x["decl"]] = True
            elif x.get("k") == "member" and x.get("dk") == "field":
                (env.get("__fields__") or {}).pop(x.get("name"), None)
                env.setdefault("__unkfields__", set()).add(x.get("name"))

    def step(self, e, env, depth):
        """expression statement: assignments and increments of locals / own fields; anything else must be evaluable"""
        self.eval(e, env, depth)
