"""Checker self-test (thorough tier): every mutant patch must be detected at the named rule, every equivalent rewrite
must stay silent. Works on scratch copies of /repo's working tree outside /repo and /verif; removed afterwards.
Patch files: /verif/mutants/<PID>/<name>.patch with header lines
    # kind: break | equivalent
    # expect: <substring of the violated obligation key>      (break only)
    # why: <one line>
Self-test output never uses the `VIOLATION property=` prefix."""
import json
import os
import shutil
import subprocess
import sys
import tempfile

from .extract import VERIF, REPO


def parse_header(path):
    h = {}
    for line in open(path):
        if line.startswith("# ") and ":" in line:
            k, v = line[2:].split(":", 1)
            h[k.strip()] = v.strip()
        elif not line.startswith("#"):
            break
    return h


def run_patch(pid, patch, keep=False):
    h = parse_header(patch)
    scratch = tempfile.mkdtemp(prefix="qlmut.")
    # everything under equivalents/ is a behaviour-preserving refactoring whether or not the file carries a header
    in_eq = os.path.dirname(os.path.abspath(patch)) == os.path.join(VERIF, "equivalents")
    res = {"patch": os.path.relpath(patch, VERIF), "kind": "equivalent" if in_eq else h.get("kind", "break"), "expect": h.get("expect", ""), "why": h.get("why", "")}
    try:
        tree = os.path.join(scratch, "repo")
        subprocess.run(["rsync", "-a", "--exclude", "_build", "--exclude", ".git", REPO + "/", tree + "/"], check=True)
        r = subprocess.run(["patch", "-p1", "--no-backup-if-mismatch", "-s", "-f", "-i", patch], cwd=tree, stdout=subprocess.PIPE, stderr=subprocess.STDOUT, text=True)
        if r.returncode != 0:
            res["status"] = "skipped"
            res["detail"] = "patch does not apply: " + r.stdout.strip()[:300]
            return res
        env = dict(os.environ, VERIF_REPO=tree, VERIF_EVIDENCE_DIR=os.path.join(scratch, "ev"), VERIF_REPORT_DIR=os.path.join(scratch, "rep"), VERIF_NOCACHE="1", VERIF_SELFTEST_CHILD="1")
        r = subprocess.run([os.path.join(VERIF, "verif"), "check", pid, "--tier", h.get("tier", "quick")], env=env, stdout=subprocess.PIPE, stderr=subprocess.STDOUT, text=True)
        res["rc"] = r.returncode
        keys = []
        rp = os.path.join(scratch, "rep", pid + ".json")
        if os.path.exists(rp):
            keys = [v.get("key", "") + " @ " + v.get("site", "") for v in json.load(open(rp))["violations"]]
        known = [l for l in r.stdout.splitlines() if l.startswith("KNOWN-FINDING")]
        res["violations"] = keys
        if res["kind"] == "equivalent":
            res["status"] = "ok" if r.returncode == 0 else "FALSE-ALARM" if r.returncode == 1 else "undecidable"
        else:
            if r.returncode == 1 and any(res["expect"] in k for k in keys):
                res["status"] = "ok"
            elif r.returncode == 1:
                res["status"] = "detected-elsewhere"
            elif r.returncode == 2:
                res["status"] = "undecidable"
                res["detail"] = [l for l in r.stdout.splitlines() if "ANALYSIS-BROKEN" in l][:3]
            else:
                res["status"] = "MISSED"
                # a stored change that was delivered for this property but, on inspection, does not break it (meta.json says which property it does break and
                # why) is listed, not counted as a miss of this checker
                mp = os.path.join(os.path.dirname(os.path.abspath(patch)), "meta.json")
                if os.path.exists(mp):
                    try:
                        km = json.load(open(mp)).get("not_a_violation_of_the_named_property")
                    except Exception:
                        km = None
                    if km:
                        res["status"] = "reclassified"
                        res["detail"] = km
        return res
    finally:
        if not keep:
            shutil.rmtree(scratch, ignore_errors=True)


def run_all(pid, jobs=None):
    d = os.path.join(VERIF, "mutants", pid)
    patches = []
    if os.path.isdir(d):
        patches += [os.path.join(d, f) for f in sorted(os.listdir(d)) if f.endswith(".patch")]
    # the independently seeded changes for this property (written by sub-agents without access to /verif) must be reported too
    sd = os.path.join(VERIF, "seeded")
    if os.path.isdir(sd):
        for s in sorted(os.listdir(sd)):
            p = os.path.join(sd, s, "patch.diff")
            if s.startswith(pid) and os.path.exists(p):
                patches.append(p)
    # behaviour-preserving refactorings written by independent sub-agents (cross-property corpus): must stay silent
    eq = os.path.join(VERIF, "equivalents")
    idx = os.path.join(eq, "index.json")
    if os.path.exists(idx):
        for f in json.load(open(idx)).get(pid, []):
            if os.path.exists(os.path.join(eq, f)):
                patches.append(os.path.join(eq, f))
    if not patches:
        return []
    from concurrent.futures import ThreadPoolExecutor
    jobs = jobs or max(1, min(6, (os.cpu_count() or 4) // 3))
    with ThreadPoolExecutor(max_workers=jobs) as ex:
        return list(ex.map(lambda p: run_patch(pid, p), patches))


if __name__ == "__main__":
    pids = sys.argv[1:]
    bad = 0
    for pid in pids:
        for r in run_all(pid):
            print("%-7s %-18s %-40s %s %s" % (pid, r["status"], os.path.basename(r["patch"]), r.get("violations", "")[:3] if r["status"] != "ok" else "", r.get("detail", "")))
            if r["status"] in ("MISSED", "FALSE-ALARM"):
                bad += 1
    sys.exit(1 if bad else 0)
