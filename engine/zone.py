"""Abstract interpreter (zone domain + boolean partitioning) over qlx statement trees.

Decides, for every input, obligations of four kinds in the functions it is pointed at:
  access   every unchecked element access (at / operator[] / first / last / array subscript) has 0 <= index < size
  term     every loop has a ranking function: on each back edge a bounded integer (or the size of the scanned
           container) has strictly progressed, possibly lexicographically over two of them
  alloc    an integer parsed out of untrusted text reaches an allocation size only below ALLOC_LIMIT
  loopbd   the trip count of a loop is not governed by an unbounded parsed integer

Unmodelled constructs give unknown values (sound); a proof that fails only because of an unmodelled source is reported
as undecidable, a proof that fails on modelled values as a violation.  Qt semantics used are listed in QT_MODEL_DOC.
"""
import os
import re

from .dbm import DBM, INF, Z
from .zstate import Lin, St, lin_upper, lin_lower, lin_taint, assign_lin, refine, join_all
from .facts import skip_copies, const_int, const_str, name_is, strip_tmpl, describe, walk
from .extract import AnalysisBroken

ALLOC_LIMIT = 1 << 24
import os as _os
DEBUG_LINES = set(int(x) for x in _os.environ.get('ZDBG_LINES', '').split(',') if x)
QSTRING_MAX = (1 << 30) - 16       # Qt 5: MaxAllocSize / sizeof(QChar) minus header
QBYTEARRAY_MAX = (1 << 31) - 32

QT_MODEL_DOC = [
    "QString/QByteArray/QStringRef/QList/QVector: size()/length()/count() = len >= 0; isEmpty() <=> len == 0",
    "indexOf(x[,from]) in {-1} U [max(from,0), len-|x|]; lastIndexOf(x[,from]) in [-1, len-|x|] and <= from when from >= 0",
    "startsWith(x)/endsWith(x) true => len >= |x| for a constant x",
    "mid/left/right/chopped/trimmed results are no longer than the source; mid(p) with p >= 1 on a non-empty source is strictly shorter; mid(p, n) and left(n)/right(n) are no longer than n for n >= 0; all of them clamp their arguments",
    "chop(n)/truncate(n)/remove(p, n) never grow the container and clamp; chop(n >= 1) on len >= n gives len - n; remove(p, n >= 1) with 0 <= p < len shrinks by at least 1",
    "append/push_back of one element: len + 1; clear(): 0; any other non-const member call: len unknown",
    "toInt()/toUInt()/toLong()...: any integer (the parsed-integer taint source)",
    "qMin/qMax/qBound/std::min/std::max: the usual bounds",
    "QString(n, ch), QByteArray(n, ch), reserve/resize/fill/leftJustified/rightJustified/repeated(n): allocation of n elements",
    "containers never exceed Qt's hard limits (QString < 2^30 characters, QByteArray < 2^31 - 32 bytes)",
]

CONTAINER_RE = re.compile(r"^(?:const\s+)?(?:class\s+)?(QString|QByteArray|QStringRef|QStringView|QLatin1String|QStringList|QList<.*>|QVector<.*>|QStack<.*>|QQueue<.*>|QVarLengthArray<.*>|std::stack<.*>|std::queue<.*>|std::deque<.*>|std::vector<.*>|std::(?:__cxx11::)?basic_string<.*>|std::string)\s*&?&?$")
INT_RE = re.compile(r"^(?:const\s+)?(?:unsigned\s+|signed\s+)?(?:int|long|long long|short|size_t|std::size_t|qsizetype|uint|quint\d+|qint\d+|qlonglong|qulonglong|unsigned|ptrdiff_t|qptrdiff|unsigned long|unsigned long long|unsigned int|unsigned short|ushort|ulong)\s*&?$")
UNSIGNED_RE = re.compile(r"^(?:const\s+)?(?:unsigned|size_t|std::size_t|uint|quint\d+|qulonglong|ushort|ulong)")
LEN_CALLS = ("size", "length", "count")
PURE_CONTAINER_CALLS = ("contains", "compare", "isNull", "toInt", "toUInt", "toLong", "toULong", "toLongLong", "toULongLong", "toShort", "toUShort", "toDouble", "toFloat",
                        "constData", "data", "toUtf8", "toLatin1", "toLocal8Bit", "toStdString", "begin", "end", "cbegin", "cend", "constBegin", "constEnd", "capacity",
                        "toLower", "toUpper", "split", "arg", "toString", "unicode", "utf16", "isUpper", "isLower", "join", "value", "toHtmlEscaped", "operator==", "operator!=",
                        "operator<", "section", "toCaseFolded", "isRightToLeft", "localeAwareCompare", "hasMatch", "match", "globalMatch", "captured", "toList", "toVector", "mid",
                        "left", "right", "chopped", "trimmed", "simplified", "midRef", "leftRef", "rightRef", "startsWith", "endsWith", "indexOf", "lastIndexOf", "at", "isEmpty",
                        "size", "length", "count", "first", "last", "front", "back", "constFirst", "constLast", "repeated", "leftJustified", "rightJustified", "number", "rbegin", "rend", "crbegin", "crend")
PARSE_INT_CALLS = ("toInt", "toUInt", "toLong", "toULong", "toLongLong", "toULongLong", "toShort", "toUShort")
SUBSTR_CALLS = ("mid", "left", "right", "chopped", "trimmed", "simplified", "midRef", "leftRef", "rightRef", "sliced", "first", "last")


class Flow:
    __slots__ = ("normal", "brk", "cont", "ret")

    def __init__(self, normal=None, brk=None, cont=None, ret=None):
        self.normal = normal if normal is not None else St.bottom()
        self.brk = brk or []
        self.cont = cont or []
        self.ret = ret or []


def typ(n):
    return (n.get("type") or "") if isinstance(n, dict) else ""


def is_container_type(t):
    return bool(CONTAINER_RE.match(t.strip()))


def is_int_type(t):
    return bool(INT_RE.match(t.strip()))


def max_len_of(t):
    return QBYTEARRAY_MAX if "QByteArray" in t else QSTRING_MAX


class Interp:
    def __init__(self, facts, fn, env):
        """env: shared analysis context (field/param/return invariants, enum ranges, obligations sink)"""
        self.F = facts
        self.fn = fn
        self.env = env
        self.record = False
        self.names = {}
        self.lambdas = {}      # decl -> fn id
        self.strarrays = {}    # decl -> [lengths]
        self.arr_extent = {}   # decl -> extent
        self.temps = set()
        self.ctx = []          # inline context (call sites) for reports
        self.ret_lin_sym = None
        self.depth = 0
        self.tracked_bools = self._bools_in_conditions(fn)
        self.loop_stack = []
        self.written_fields = set()
        self.escaped_structs = set()
        self.local_struct_fields = {}   # decl -> {symbol: field qname}

    # ------------------------------------------------------------------ set-up helpers
    def _bools_in_conditions(self, fn):
        out = set()
        for n in fn.all_nodes():
            if n.get("k") in ("if", "while", "for", "do", "cond"):
                c = n.get("cond")
                for x in walk(c) if isinstance(c, dict) else ():
                    if x.get("k") == "ref" and typ(x).replace("const ", "").strip() == "bool" and x.get("dk") in ("local", "param"):
                        out.add(x["decl"])
        return out

    def name(self, sym, text):
        self.names.setdefault(sym, text)
        return sym

    def site(self, node):
        s = "%s (%s)" % (self.fn.loc(node), strip_tmpl(self.fn.name).replace("QtLogger::", "").replace("(anonymous namespace)::", ""))
        if self.ctx:
            s += " via " + " <- ".join(self.ctx)
        return s

    # ------------------------------------------------------------------ symbols
    def lvalue_path(self, n):
        """stable textual path for an lvalue made of this / locals / params and field accesses, else None"""
        n = skip_copies(n)
        if not isinstance(n, dict):
            return None
        k = n.get("k")
        if k == "ref" and n.get("dk") in ("local", "param", "staticlocal", "global", "staticmember"):
            self.names.setdefault("v:" + n["decl"], n.get("name", "?").split("::")[-1])
            return "v:" + n["decl"]
        if k == "this":
            return "this"
        if k == "member" and n.get("dk") == "field":
            b = self.lvalue_path(n.get("base"))
            if b is None:
                return None
            p = b + "." + n["name"].split("::")[-1]
            self.names.setdefault(p, (self.names.get(b, b) + "." if b != "this" else "") + n["name"].split("::")[-1])
            return p
        if k == "unop" and n.get("op") == "*":
            return self.lvalue_path(n.get("e"))
        if k == "call" and n.get("ck") == "operator" and n.get("op") in ("*", "->") and len(n.get("args", [])) == 1:
            b = self.lvalue_path(n["args"][0])
            return None if b is None else b + ".*"
        return None

    def int_sym(self, n, st=None):
        """symbol of an integer lvalue (created on demand with its type/field invariant)"""
        p = self.lvalue_path(n)
        if p is None:
            return None
        sym = p
        if st is not None:
            self.materialise(sym, n, st)
        return sym

    def len_sym(self, n, st=None):
        p = self.lvalue_path(n)
        if p is None:
            return None
        sym = "len(" + p + ")"
        self.names.setdefault(sym, "|%s|" % self.names.get(p, p))
        if st is not None:
            mx = max_len_of(typ(n))

            def mk(d):
                if not d.has(sym):
                    d.ensure(sym)
                    d.add_lower(sym, 0)
                    d.add_upper(sym, mx)
            st.each(mk)
        return sym

    def materialise(self, sym, n, st):
        """first use of an integer lvalue: apply what is known a priori (field invariants, constant values, enum ranges)"""
        nn = skip_copies(n)

        def mk(d):
            if d.has(sym):
                return
            d.ensure(sym)
            if nn.get("k") == "ref" and "value" in nn:
                d.add_eq(sym, Z, nn["value"])
                return
            if nn.get("k") == "member" and nn.get("dk") == "field":
                self.env.fields_read.add(strip_tmpl(nn.get("name", "")))
                inv = self.env.field_inv.get(strip_tmpl(nn.get("name", "")))
                if inv is not None:
                    up, tnt = inv
                    if up != INF:
                        d.add_upper(sym, up)
                    if tnt is not None:
                        d.taint[sym] = tnt
                elif strip_tmpl(nn.get("name", "")) in self.env.fields_seen_unanalysed:
                    d.unk.add(sym)
            if nn.get("k") == "ref" and nn.get("dk") == "param":
                if self.env.param_owner.get(nn["decl"]) not in self.env.open_fns and self.depth == 0:
                    d.unk.add(sym)   # value comes from analysed call sites through a context-free summary: relations are lost
                inv = self.env.param_inv.get(nn["decl"])
                if inv is not None:
                    up, tnt = inv
                    if up != INF:
                        d.add_upper(sym, up)
                    if tnt is not None:
                        d.taint[sym] = tnt
            rng = self.env.enum_range(typ(nn))
            if rng:
                d.add_lower(sym, rng[0])
                d.add_upper(sym, rng[1])
            if UNSIGNED_RE.match(typ(nn).strip()):
                d.add_lower(sym, 0)
        st.each(mk)

    def temp(self, node, tag="t"):
        s = "%s#%s%s" % (tag, node.get("id"), "@" + str(len(self.ctx)) if self.ctx else "")
        self.temps.add(s)
        self.names.setdefault(s, describe(node)[:60])
        return s

    def drop_temps(self, *states):
        if not self.temps:
            return
        for st in states:
            if st is not None:
                st.forget(syms=self.temps)
        self.temps = set()

    # ------------------------------------------------------------------ obligations
    def ob(self, kind, node, ok, what, key):
        if not self.record:
            return
        self.env.obligations.append({"kind": kind, "site": self.site(node), "ok": ok, "what": what,
                                     "key": key, "fn": self.fn.sig, "line": node.get("l", 0)})

    def prove_all(self, st, pred):
        """(True/False/None) — pred(dbm) -> (bool proved, set syms involved); None if a failure involves an unmodelled symbol"""
        res = True
        for d in st.dbms():
            ok, syms = pred(d)
            if not ok:
                if any(s in d.unk for s in syms):
                    if res is True:
                        res = None
                else:
                    res = False
        return res

    def check_access(self, node, st, idx, lsym, what, extent=None):
        """0 <= idx <= len-1 (or extent-1)"""
        if st.is_bottom():
            return
        if idx is None:
            self.ob("access", node, None, "%s: index is not an integer expression the analysis models" % what, "access|%s|%s" % (self.fn.name.split("::")[-1], what))
            return

        def lo(d):
            return lin_lower(d, idx) >= 0, idx.syms()

        def hi(d):
            if extent is not None:
                return lin_upper(d, idx) <= extent - 1, idx.syms()
            return lin_upper(d, idx.add(Lin.sym(lsym), -1)) <= -1, idx.syms()
        rl, rh = self.prove_all(st, lo), self.prove_all(st, hi)
        ok = False if (rl is False or rh is False) else None if (rl is None or rh is None) else True
        det = []
        if rl is not True:
            det.append("index may be negative (lower bound %s)" % min(lin_lower(d, idx) for d in st.dbms()))
        if rh is not True:
            det.append("index may reach the size (no bound index <= size-1)" if extent is None else "index may exceed the extent %d" % extent)
        self.ob("access", node, ok, "%s in range%s" % (what, "" if ok else ": " + "; ".join(det)), "access|%s|%s" % (self.fn.name.split("::")[-1], what))

    def check_nonempty(self, node, st, lsym, what):
        if st.is_bottom():
            return
        r = self.prove_all(st, lambda d: (d.lower(lsym) >= 1, [lsym]))
        self.ob("access", node, r, "%s on a non-empty container%s" % (what, "" if r else ": the container may be empty"), "access|%s|%s" % (self.fn.name.split("::")[-1], what))

    def check_alloc(self, node, st, n, what):
        if n is None or st.is_bottom():
            return
        worst = None
        for d in st.dbms():
            t = lin_taint(d, n)
            if t is not None:
                worst = t if worst is None else max(worst, t)
        if worst is None:
            return
        # accumulator idiom: every write of the variable is `x = const` or `x += e` with a bounded tainted e
        sg = n.single()
        if worst > ALLOC_LIMIT and sg and sg[0] in self.env.accumulators.get(self.fn.id, {}):
            acc = self.env.accumulators[self.fn.id][sg[0]]
            if acc["ok"]:
                self.ob("alloc", node, True, "%s: size is a sum of per-item estimates each bounded by %s (parsed integers enter only through bounded fields)" % (what, acc["max"]),
                        "alloc|%s|%s" % (self.fn.name.split("::")[-1], what))
                return
        ok = worst <= ALLOC_LIMIT
        self.ob("alloc", node, ok, "%s: size derived from a parsed integer is bounded by %s%s" % (what, worst, "" if ok else " (no clamp on the way)"),
                "alloc|%s|%s" % (self.fn.name.split("::")[-1], what))

    # ------------------------------------------------------------------ expressions
    def eval(self, n, st):
        """evaluate for value and side effects; returns Lin or None"""
        n0 = n
        n = skip_copies(n)
        if not isinstance(n, dict) or st.is_bottom():
            return None
        k = n.get("k")
        if k in ("int", "char"):
            return Lin.const(n["v"])
        if k == "bool":
            return Lin.const(int(n["v"]))
        if "cv" in n and k not in ("binop", "unop", "call", "cond"):
            return Lin.const(n["cv"])
        if k == "ref":
            if n.get("dk") == "enumconst":
                return Lin.const(n["value"])
            if "value" in n:
                return Lin.const(n["value"])
            if is_int_type(typ(n)) or self.env.enum_range(typ(n)):
                s = self.int_sym(n, st)
                return Lin.sym(s) if s else None
            if n.get("decl") in self.local_struct_fields:
                self.escape_struct(n["decl"], st)
            return None
        if k == "member":
            if n.get("dk") == "field" and (is_int_type(typ(n)) or self.env.enum_range(typ(n))):
                s = self.int_sym(n, st)
                if s:
                    return Lin.sym(s)
            self.eval(n.get("base"), st)
            return None
        if k == "cast":
            v = self.eval(n.get("e"), st)
            return self._convert(v, typ(n), st)
        if k == "unop":
            return self.eval_unop(n, st)
        if k == "binop":
            return self.eval_binop(n, st)
        if k == "cond":
            t, f = self.cond(n.get("cond"), st)
            r = self.temp(n)
            vt = self.eval(n.get("t"), t)
            self.assign(t, r, vt)
            vf = self.eval(n.get("f"), f)
            self.assign(f, r, vf)
            j = t.join(f)
            st.parts = j.parts
            return Lin.sym(r) if (is_int_type(typ(n)) or self.env.enum_range(typ(n))) else None
        if k == "call":
            return self.eval_call(n, st)
        if k == "construct":
            return self.eval_construct(n, st)
        if k == "subscript":
            return self.eval_subscript(n, st)
        if k == "lambda":
            return None
        if k == "new":
            self.eval(n.get("init"), st)
            return None
        if k in ("defaultarg", "defaultinit"):
            return self.eval(n.get("e"), st)
        if k == "initlist":
            for e in n.get("els", []):
                self.eval(e, st)
            return None
        # anything else: evaluate children for their effects
        from .facts import children
        for c in children(n):
            self.eval(c, st)
        return None

    def _convert(self, v, t, st):
        if v is None:
            return None
        if UNSIGNED_RE.match(t.strip()):
            # conversion to unsigned keeps the value only if it is provably non-negative
            if all(lin_lower(d, v) >= 0 for d in st.dbms()):
                return v
            return None
        return v

    def assign(self, st, sym, lin, unknown=False, taint=None):
        self.drop_char_facts(st, sym)
        st.each(lambda d: assign_lin(d, sym, lin, unknown=unknown, taint=taint))

    # ---- character facts: `S[p + c] == ch` / `!=` decided by a condition, kept as a partition key "c|<S>|<p>|<c>|<ch>" -> 1/0
    # (the state is split like on a boolean local). A fact dies as soon as p or S is written.
    def drop_char_facts(self, st, sym):
        names = {b for k in st.parts for b, _ in k if isinstance(b, str) and b.startswith("c|")}
        if not names:
            return
        path = sym[4:-1] if sym.startswith("len(") and sym.endswith(")") else None
        for b in names:
            _, sp, sy, _, _ = b.split("|")
            if sy == sym or (path is not None and sp == path) or sp == sym:
                if self.record and getattr(self, "freeze", None) is not None and len(st.parts) <= 32:
                    # final pass over a loop: the fact dies, but the case distinction it made is kept (under a name that means nothing)
                    # until the back edge, so that "this iteration changed nothing" can be seen per case instead of being joined away
                    self.freeze[0] += 1
                    z = "z|%d" % self.freeze[0]
                    self.freeze[1].add(z)
                    parts = {}
                    for k, d in st.parts.items():
                        nk = frozenset((z if bb == b else bb, v) for bb, v in k)
                        st._put(parts, nk, d)
                    st.parts = parts
                else:
                    st.drop_bool(b)

    @staticmethod
    def char_const(n):
        n = skip_copies(n)
        for _ in range(4):
            if not isinstance(n, dict):
                return None
            if n.get("k") in ("char", "int"):
                return n.get("v")
            if "cv" in n and n.get("k") not in ("call",):
                return n["cv"]
            if n.get("k") in ("construct", "cast") and (n.get("e") or (n.get("args") and len(n["args"]) == 1)):
                n = skip_copies(n.get("e") or n["args"][0])
                continue
            return None
        return None

    def char_atom(self, n, st):
        """name of the fact `S[p+c] == ch` for a comparison node (== / !=), with its polarity; None if it is not one"""
        n = skip_copies(n)
        if not isinstance(n, dict):
            return None
        if n.get("k") == "call" and n.get("ck") == "operator" and n.get("op") in ("==", "!=") and len(n.get("args", [])) == 2:
            a, b, op = n["args"][0], n["args"][1], n["op"]
        elif n.get("k") == "binop" and n.get("op") in ("==", "!="):
            a, b, op = n.get("lhs"), n.get("rhs"), n["op"]
        else:
            return None
        for x, y in ((a, b), (b, a)):
            ch = self.char_const(y)
            if ch is None:
                continue
            e = skip_copies(x)
            for _ in range(4):
                if isinstance(e, dict) and e.get("k") in ("construct", "cast") and (e.get("e") or (e.get("args") and len(e["args"]) == 1)):
                    e = skip_copies(e.get("e") or e["args"][0])
                elif isinstance(e, dict) and e.get("k") == "call" and e.get("ck") == "member" and (e.get("callee") or "").split("::")[-1] in ("unicode", "toLatin1", "cell", "operator QChar", "operator char") and not e.get("args"):
                    e = skip_copies(e.get("obj"))
                else:
                    break
            cont = idx = None
            if isinstance(e, dict) and e.get("k") == "call" and e.get("op") == "[]" and len(e.get("args", [])) == 2:
                cont, idx = e["args"]
            elif isinstance(e, dict) and e.get("k") == "call" and e.get("ck") == "member" and (e.get("callee") or "").split("::")[-1] in ("at", "operator[]") and len(e.get("args", [])) == 1:
                cont, idx = e.get("obj"), e["args"][0]
            elif isinstance(e, dict) and e.get("k") == "subscript":
                cont, idx = e.get("base"), e.get("idx")
            if cont is None or not is_container_type(typ(cont)):
                continue
            path = self.lvalue_path(cont)
            if path is None:
                continue
            iv = self.eval(idx, st.copy())
            sg = iv.single() if iv is not None else None
            if sg is None or "|" in sg[0] or "|" in path:
                continue
            return "c|%s|%s|%d|%d" % (path, sg[0], sg[1], ch), op == "=="
        return None

    def havoc_len(self, st, lsym, mx=QSTRING_MAX):
        self.drop_char_facts(st, lsym)

        def f(d):
            d.forget(lsym)
            d.ensure(lsym)
            d.add_lower(lsym, 0)
            d.add_upper(lsym, mx)
        st.each(f)

    def eval_unop(self, n, st):
        op = n.get("op")
        e = n.get("e")
        if op in ("++", "--"):
            s = self.int_sym(e, st) if (is_int_type(typ(e)) or typ(e) == "") else None
            if s is None:
                self.eval(e, st)
                return None
            delta = 1 if op == "++" else -1
            old = None
            if n.get("postfix"):
                old = self.temp(n)
                self.assign(st, old, Lin.sym(s))
            if op == "--" and UNSIGNED_RE.match(typ(e).strip()) and not all(d.lower(s) >= 1 for d in st.dbms()):
                self.assign(st, s, None)
                st.each(lambda d: d.add_lower(s, 0))
            else:
                st.each(lambda d: d.assign_shift(s, delta))
            self.note_write(s, e, st, Lin.sym(s))
            return Lin.sym(old) if old else Lin.sym(s)
        if op == "-":
            v = self.eval(e, st)
            return v.scale(-1) if v is not None else None
        if op == "+":
            return self.eval(e, st)
        if op == "!":
            self.eval(e, st)
            return None
        if op == "&":
            # address of a tracked variable escapes: its value is unknown from here on
            p = self.lvalue_path(e)
            if p:
                self.escape(p, e, st)
            else:
                self.eval(e, st)
            return None
        if op == "*":
            self.eval(e, st)
            return None
        self.eval(e, st)
        return None

    def escape_struct(self, decl, st, for_good=False):
        """a by-value local struct is used as a whole (returned, copied, passed): its integer fields now count as
        written with their current bounds"""
        for sym, q in self.local_struct_fields.get(decl, {}).items():
            up, tn = -INF, None
            for d in st.dbms():
                if not d.has(sym):
                    up = INF
                    continue
                up = max(up, d.upper(sym))
                t = d.taint.get(sym)
                if t is not None:
                    tn = t if tn is None else max(tn, t)
            if up == -INF:
                up = INF
            self.env.record_field_write(q, up, tn, self.fn)
        if for_good:
            self.escaped_structs.add(decl)

    def escape(self, p, node, st):
        if p.startswith("v:") and p[2:] in self.local_struct_fields:
            self.escape_struct(p[2:], st, for_good=True)
        def f(d):
            if d.has(p):
                d.assign_top(p)
            ls = "len(" + p + ")"
            if d.has(ls):
                d.forget(ls)
                d.ensure(ls)
                d.add_lower(ls, 0)
        st.each(f)
        if p in {"v:" + b for b in self.tracked_bools}:
            st.drop_bool(p[2:])
        if p.startswith("v:") and p[2:] in self.tracked_bools:
            st.drop_bool(p[2:])

    def eval_binop(self, n, st):
        op = n.get("op")
        lhs, rhs = n.get("lhs"), n.get("rhs")
        if op == "=":
            return self.eval_assign(lhs, rhs, st, n)
        if op in ("+=", "-=", "*=", "/=", "%=", "<<=", ">>=", "&=", "|=", "^="):
            s = self.int_sym(lhs, st) if is_int_type(typ(lhs)) else None
            r = self.eval(rhs, st)
            if s is None:
                self.eval(lhs, st)
                return None
            if op in ("+=", "-=") and r is not None:
                new = Lin.sym(s).add(r, 1 if op == "+=" else -1)
                if op == "-=" and UNSIGNED_RE.match(typ(lhs).strip()) and not all(lin_lower(d, new) >= 0 for d in st.dbms()):
                    new = None
            else:
                new = None
            self.note_accumulate(s, lhs, op, r, st)
            self.assign(st, s, new, unknown=new is None and r is None)
            if new is None and UNSIGNED_RE.match(typ(lhs).strip()):
                st.each(lambda d: d.add_lower(s, 0))
            self.note_write(s, lhs, st, Lin.sym(s), accumulate=True)
            return Lin.sym(s)
        if op in ("&&", "||", "<", ">", "<=", ">=", "==", "!="):
            t, f = self.cond(n, st)
            j = t.join(f)
            st.parts = j.parts
            return None
        if op == ",":
            self.eval(lhs, st)
            return self.eval(rhs, st)
        a = self.eval(lhs, st)
        b = self.eval(rhs, st)
        if not (is_int_type(typ(n)) or typ(n) == ""):
            return None
        if a is None or b is None:
            if op in ("/", "%") and b is not None and b.is_const() and b.k > 0 and a is None:
                return None
            return None
        uns = bool(UNSIGNED_RE.match(typ(n).strip()))
        if op == "+":
            return a.add(b)
        if op == "-":
            r = a.add(b, -1)
            if uns and not all(lin_lower(d, r) >= 0 for d in st.dbms()):
                return None
            return r
        if op == "*":
            if a.is_const():
                return b.scale(a.k)
            if b.is_const():
                return a.scale(b.k)
            return None
        if op == "/" and b.is_const() and b.k > 0:
            # floor division of a non-negative value: result in [0, a/b] -> fresh temp with those bounds
            r = self.temp(n)
            bk = b.k

            def f(d):
                lo, hi = lin_lower(d, a), lin_upper(d, a)
                tn = lin_taint(d, a)
                d.assign_top(r)
                if lo >= 0:
                    d.add_lower(r, lo // bk)
                    if hi != INF:
                        d.add_upper(r, hi // bk)
                    # r <= a when a >= 0 and b >= 1
                    sg = a.single()
                    if sg:
                        d.add(r, sg[0], sg[1])
                else:
                    d.unk |= set()
                if tn is not None:
                    d.taint[r] = tn
            st.each(f)
            return Lin.sym(r)
        if op == "%" and b.is_const() and b.k > 0:
            r = self.temp(n)

            def f(d):
                d.assign_top(r)
                if lin_lower(d, a) >= 0:
                    d.add_lower(r, 0)
                    d.add_upper(r, b.k - 1)
                else:
                    d.add_lower(r, -(b.k - 1))
                    d.add_upper(r, b.k - 1)
            st.each(f)
            return Lin.sym(r)
        return None

    def eval_assign(self, lhs, rhs, st, node):
        tl = typ(lhs).replace("const ", "").strip()
        if tl == "bool":
            l = skip_copies(lhs)
            if l.get("k") == "ref" and l.get("decl") in self.tracked_bools:
                t, f = self.cond(rhs, st)
                t.set_bool(l["decl"], 1)
                f.set_bool(l["decl"], 0)
                j = t.join(f)
                st.parts = j.parts
                return None
            self.eval(rhs, st)
            return None
        if is_int_type(tl) or self.env.enum_range(tl):
            v = self.eval(rhs, st)
            s = self.int_sym(lhs, st)
            if s is None:
                self.eval(lhs, st)
                return None
            v = self._convert(v, tl, st) if v is not None else None
            self.assign(st, s, v, unknown=(v is None))
            rng = self.env.enum_range(tl)
            if v is None and UNSIGNED_RE.match(tl):
                st.each(lambda d: d.add_lower(s, 0))
            self.note_write(s, lhs, st, Lin.sym(s))
            return Lin.sym(s)
        if is_container_type(tl):
            return self.assign_container(lhs, rhs, st)
        self.eval(lhs, st)
        self.eval(rhs, st)
        return None

    def note_write(self, sym, lhs, st, lin, accumulate=False):
        """bookkeeping for field invariants: every write to an integer field is recorded with its bound and taint"""
        l = skip_copies(lhs)
        if isinstance(l, dict) and l.get("k") == "member" and l.get("dk") == "field":
            b = skip_copies(l.get("base"))
            if isinstance(b, dict) and b.get("k") == "ref" and b.get("dk") == "local" and b.get("decl") not in self.escaped_structs \
                    and not (b.get("type") or "").rstrip().endswith(("*", "&")):
                self.local_struct_fields.setdefault(b["decl"], {})[sym] = strip_tmpl(l.get("name", ""))
                return  # a by-value local: its fields count when the value is used as a whole (escape_struct)
            q = strip_tmpl(l.get("name", ""))
            up, tn = -INF, None
            for d in st.dbms():
                up = max(up, lin_upper(d, lin))
                t = lin_taint(d, lin)
                if t is not None:
                    tn = t if tn is None else max(tn, t)
            self.env.record_field_write(q, up, tn, self.fn)

    def note_accumulate(self, s, lhs, op, r, st):
        accs = self.env.acc_events.setdefault(self.fn.id, {})
        e = accs.setdefault(s, {"ok": True, "max": 0})
        if op != "+=" or r is None:
            e["ok"] = False
            return
        for d in st.dbms():
            t = lin_taint(d, r)
            if t is None:
                continue
            if t > ALLOC_LIMIT:
                e["ok"] = False
            e["max"] = max(e["max"], t)
            if lin_lower(d, r) < 0:
                e["ok"] = False

    # ---- containers
    def cval(self, n, st):
        """length of a container-valued expression as Lin (temp symbol with constraints), or None"""
        n = skip_copies(n)
        if not isinstance(n, dict):
            return None
        k = n.get("k")
        if k in ("str", "qstr"):
            v = n.get("len")
            if v is None and n.get("v") is not None:
                v = len(n["v"])
            return Lin.const(v) if v is not None else None
        cs = const_str(n)
        if cs is not None and k in ("construct", "call"):
            return Lin.const(len(cs))
        if k in ("ref", "member") and is_container_type(typ(n)):
            s = self.len_sym(n, st)
            return Lin.sym(s) if s else None
        if k == "construct":
            cls = n.get("class", "")
            args = n.get("args", [])
            if cls in ("QString", "QByteArray") and not args:
                return Lin.const(0)
            if cls in ("QString", "QByteArray") and len(args) == 2 and is_int_type(typ(args[0])):
                cnt = self.eval(args[0], st)
                self.eval(args[1], st)
                self.check_alloc(n, st, cnt, "%s(%s, ch)" % (cls, describe(args[0])))
                if cnt is None:
                    return None
                r = self.temp(n, "L")

                def f(d):
                    d.assign_top(r)
                    d.add_lower(r, 0)
                    lo = lin_lower(d, cnt)
                    if lo >= 0:
                        assign_lin(d, r, cnt)
                    else:
                        hi = lin_upper(d, cnt)
                        d.add_upper(r, max(hi, 0))
                st.each(f)
                return Lin.sym(r)
            if len(args) == 1 and is_container_type(typ(args[0])):
                return self.cval(args[0], st)
            for a in args:
                self.eval(a, st)
            return None
        if k == "call" and n.get("ck") == "member" and is_container_type(typ(n.get("obj"))):
            m = (n.get("callee") or "").split("::")[-1]
            elem = m in ("first", "last") and not [a for a in n.get("args", []) if a.get("k") != "defaultarg"]   # QList::first(): an element, not a prefix
            if m == "split" and "QString" in typ(n.get("obj")) and "List" in typ(n):
                # QString::split: at least one part unless empty parts are skipped; at most one more than the text has characters
                src = self.cval(n.get("obj"), st)
                real = [a for a in n.get("args", []) if a.get("k") != "defaultarg"]
                keep = len(real) < 2 or const_int(real[1]) == 0
                r = self.temp(n, "L")

                def f(d):
                    d.assign_top(r)
                    d.add_lower(r, 1 if keep else 0)
                    hi = lin_upper(d, src) if src is not None else INF
                    if hi != INF:
                        d.add_upper(r, hi + 1)
                st.each(f)
                return Lin.sym(r)
            if m in SUBSTR_CALLS and is_container_type(typ(n)) and not elem:
                return self.eval_substr(n, m, st)
        if k == "cond":
            t, f = self.cond(n.get("cond"), st)
            r = self.temp(n, "L")
            a = self.cval(n.get("t"), t)
            self.assign(t, r, a)
            b = self.cval(n.get("f"), f)
            self.assign(f, r, b)
            for x in (t, f):
                x.each(lambda d: d.add_lower(r, 0))
            j = t.join(f)
            st.parts = j.parts
            return Lin.sym(r)
        self.eval(n, st)
        return None

    def eval_substr(self, n, m, st):
        obj = n.get("obj")
        src = self.cval(obj, st)
        args = [self.eval(a, st) for a in n.get("args", [])]
        r = self.temp(n, "L")

        def f(d):
            d.assign_top(r)
            d.add_lower(r, 0)
            if src is None:
                return
            hi = lin_upper(d, src)
            sg = src.single()
            if sg:
                d.add(r, sg[0], sg[1])
            elif hi != INF:
                d.add_upper(r, hi)
            if m in ("mid", "midRef", "sliced") and args and args[0] is not None:
                p = args[0]
                plo = lin_lower(d, p)
                if plo >= 1 and lin_lower(d, src) >= 1 and sg:
                    d.add(r, sg[0], sg[1] - 1)
                # exact when 0 <= p <= len: r = len - p
                if plo >= 0 and lin_upper(d, p.add(src, -1)) <= 0 and len(args) == 1:
                    assign_lin(d, r, src.add(p, -1))
                if len(args) >= 2 and args[1] is not None and lin_lower(d, args[1]) >= 0:
                    self._le(d, Lin.sym(r), args[1])
            if m in ("left", "right", "leftRef", "rightRef", "first", "last") and args and args[0] is not None and lin_lower(d, args[0]) >= 0:
                self._le(d, Lin.sym(r), args[0])
                # exact when 0 <= n <= len: the result has n elements
                if lin_upper(d, args[0].add(src, -1)) <= 0:
                    assign_lin(d, r, args[0])
        st.each(f)
        return Lin.sym(r)

    @staticmethod
    def _le(d, a, b):
        refine(d, a, "<=", b)

    def assign_container(self, lhs, rhs, st):
        ls = self.len_sym(lhs, st)
        v = self.cval(rhs, st)
        if ls is None:
            self.eval(lhs, st)
            return None
        mx = max_len_of(typ(lhs))
        if v is None:
            self.havoc_len(st, ls, mx)
        else:
            self.assign(st, ls, v)
            st.each(lambda d: (d.add_lower(ls, 0), d.add_upper(ls, mx)))
        return None

    def eval_subscript(self, n, st):
        base = skip_copies(n.get("base"))
        idx = self.eval(n.get("idx"), st)
        ext = None
        if isinstance(base, dict) and base.get("k") == "ref":
            m = re.search(r"\[(\d+)\]\s*$", typ(base).replace("(&)", ""))
            if m:
                ext = int(m.group(1))
        else:
            self.eval(base, st)
        what = "%s[%s]" % (describe(base), describe(n.get("idx")))
        if ext is None:
            if idx is not None and idx.is_const() and idx.k == 0:
                return None
            self.ob("access", n, None, "%s: subscript of a pointer or array of unknown extent" % what, "access|%s|%s" % (self.fn.name.split("::")[-1], what))
            return None
        self.check_access(n, st, idx, None, what, extent=ext)
        return None

    FIXED_EXTENT_RE = re.compile(r"^(?:const\s+)?std::(?:bitset<\s*(\d+)\s*>|array<.*,\s*(\d+)\s*>)\s*&?$")
    KEYED_RE = re.compile(r"^(?:const\s+)?(?:QHash|QMap|QMultiHash|QMultiMap|std::map|std::unordered_map|std::multimap|QJsonObject|QJsonValue|QJsonValueRef|QVariantMap|QVariantHash|QCache)\b")
    CHAR_RANGE = {"char": (-128, 127), "signed char": (-128, 127), "unsigned char": (0, 255), "uchar": (0, 255), "qint8": (-128, 127), "quint8": (0, 255)}

    def index_value(self, idxnode, st):
        """value of an index expression before its implicit conversion to the (unsigned) index type: a byte of input text read through
        a plain char is any value the character type has — negative for bytes >= 0x80 where char is signed"""
        x = idxnode
        while True:
            y = skip_copies(x)
            if isinstance(y, dict) and y.get("k") == "cast" and (y.get("castkind") in ("IntegralCast", "NoOp", "LValueToRValue") or (y.get("ck") or "") == "ImplicitCastExpr") and isinstance(y.get("e"), dict) \
                    and typ(y).replace("const ", "").strip() not in self.CHAR_RANGE:
                x = y["e"]
                continue
            break
        inner = skip_copies(x)
        t = typ(inner).replace("const ", "").replace("&", "").strip() if isinstance(inner, dict) else ""
        if t in self.CHAR_RANGE:
            v = self.eval(inner, st)
            lo, hi = self.CHAR_RANGE[t]
            if v is None or not all(lin_lower(d, v) >= lo and lin_upper(d, v) <= hi for d in st.dbms()):
                # a character the analysis does not track: any value of its type when it is a byte of input text (a definite
                # witness exists), an unknown value of its type otherwise
                r = self.temp(inner)
                self.assign(st, r, None, unknown=not self.is_input_element(inner))
                st.each(lambda d: (d.add_lower(r, lo), d.add_upper(r, hi)))
                return Lin.sym(r), t
            return v, t
        return self.eval(idxnode, st), None

    ELEMENT_READS = ("at", "operator[]", "front", "back", "first", "last", "constFirst", "constLast")
    TEXT_ACCESSORS = ("QtLogger::LogMessage::message", "QtLogger::LogMessage::function", "QtLogger::LogMessage::file", "QtLogger::LogMessage::category",
                      "QtLogger::LogMessage::formattedMessage")

    def is_input_text(self, obj, depth=0):
        """the container holds text chosen by whoever logs: a container parameter of the function (followed to the caller's argument
        when the function is analysed inlined), or a local initialised once from one / from a message accessor"""
        o = skip_copies(obj) if isinstance(obj, dict) else None
        if not isinstance(o, dict) or depth > 4:
            return False
        if o.get("k") == "call" and strip_tmpl(o.get("callee") or "") in self.TEXT_ACCESSORS:
            return True
        if o.get("k") == "call" and o.get("ck") == "member" and (o.get("callee") or "").split("::")[-1] in ("toUtf8", "toLatin1", "toLocal8Bit", "mid", "left", "right", "trimmed", "simplified", "toLower", "toUpper"):
            return self.is_input_text(o.get("obj"), depth + 1)
        if o.get("k") in ("construct", "cast") and len([a for a in (o.get("args") or [o.get("e")]) if isinstance(a, dict) and a.get("k") != "defaultarg"]) == 1:
            return self.is_input_text([a for a in (o.get("args") or [o.get("e")]) if isinstance(a, dict) and a.get("k") != "defaultarg"][0], depth + 1)
        if o.get("k") != "ref":
            return False
        if o.get("dk") == "param":
            pa = getattr(self, "param_args", {}).get(o.get("decl"))
            if pa is not None and getattr(self, "caller", None) is not None:
                return self.caller.is_input_text(pa, depth + 1)
            return is_container_type(typ(o))
        if o.get("dk") == "local":
            from .facts import single_assignment_init
            ini = single_assignment_init(self.fn, o.get("decl"))
            return isinstance(ini, dict) and self.is_input_text(ini, depth + 1)
        return False

    def is_input_element(self, x, depth=0):
        x = skip_copies(x) if isinstance(x, dict) else None
        if not isinstance(x, dict) or depth > 4:
            return False
        if x.get("k") == "call" and (x.get("callee") or "").split("::")[-1] in self.ELEMENT_READS:
            o = x.get("obj") if x.get("ck") == "member" else (x.get("args") or [None])[0]
            return self.is_input_text(o, depth + 1)
        if x.get("k") == "ref" and x.get("dk") == "param":
            pa = getattr(self, "param_args", {}).get(x.get("decl"))
            written = any(y.get("k") in ("binop", "call") and y.get("op") in ("=", "+=", "-=", "++", "--") and skip_copies((y.get("lhs") or (y.get("args") or [None])[0]) or {}).get("decl") == x.get("decl")
                          for y in self.fn.all_nodes()) or any(y.get("k") == "unop" and y.get("op") in ("++", "--") and skip_copies(y.get("e") or {}).get("decl") == x.get("decl") for y in self.fn.all_nodes())
            if pa is not None and getattr(self, "caller", None) is not None and not written:
                return self.caller.is_input_element(pa, depth + 1)
        if x.get("k") == "ref" and x.get("dk") == "local":
            from .facts import single_assignment_init
            ini = single_assignment_init(self.fn, x.get("decl"))
            return isinstance(ini, dict) and self.is_input_element(ini, depth + 1)
        return False

    def fixed_extent_access(self, n, obj, idxnode, st):
        """operator[] of std::bitset<N> / std::array<T, N> (no range check); operator[] with an integer index on a class the analysis does
        not model is reported as undecided rather than passed over"""
        t = typ(obj)
        m = self.FIXED_EXTENT_RE.match(t.strip())
        what = "%s[%s]" % (describe(obj), describe(idxnode))
        if m:
            ext = int(m.group(1) or m.group(2))
            self.eval(obj, st)
            v, ct = self.index_value(idxnode, st)
            self.check_access(n, st, v, None, what + (" (index of type %s)" % ct if ct else ""), extent=ext)
            return True
        if is_container_type(t) or self.KEYED_RE.match(t.strip()):
            return False
        it = typ(idxnode).replace("const ", "").replace("&", "").strip()
        if is_int_type(it) or it in self.CHAR_RANGE:
            self.eval(obj, st)
            self.eval(idxnode, st)
            if "*" in t or re.search(r"\[\d*\]", t):
                return False
            self.ob("access", n, None, "%s: operator[] of %s, whose extent the analysis does not model" % (what, t), "access|%s|%s" % (self.fn.name.split("::")[-1], what))
            return True
        return False

    def eval_construct(self, n, st):
        self.check_raw_extents(n, st)
        if is_container_type(n.get("class", "")) or n.get("class") in ("QString", "QByteArray"):
            self.cval(n, st)
            return None
        for a in n.get("args", []):
            self.eval(a, st)
        # constructor of a repo class: record argument invariants for its parameters
        self.env.record_call_args(self, n, st)
        return None

    PTR_CALLS = ("constData", "data", "unicode", "utf16", "constBegin", "cbegin", "begin", "c_str")

    def strarray_of(self, x):
        """declaration of the constant string table an expression designates (the array, std::begin/std::end of it)"""
        x = skip_copies(x) if isinstance(x, dict) else None
        for _ in range(3):
            if not isinstance(x, dict):
                return None
            if x.get("k") == "ref" and x.get("decl") in self.strarrays:
                return x["decl"]
            if x.get("k") == "call" and strip_tmpl(x.get("callee") or "").split("::")[-1] in ("begin", "end", "cbegin", "cend") and x.get("args"):
                x = skip_copies(x["args"][0])
                continue
            return None
        return None

    def find_over_strarray(self, ini):
        if not (isinstance(ini, dict) and ini.get("k") == "call" and strip_tmpl(ini.get("callee") or "") in ("std::find_if", "std::find", "std::find_if_not") and len(ini.get("args", [])) >= 3):
            return None
        arr = self.strarray_of(ini["args"][0])
        if arr is None or self.strarray_of(ini["args"][1]) != arr:
            return None
        info = {"arr": arr, "lens": self.strarrays[arr], "holds": None}
        lam = skip_copies(ini["args"][2])
        if strip_tmpl(ini.get("callee") or "") == "std::find_if" and lam.get("k") == "lambda":
            lf = self.F.fns.get(lam.get("fn"))
            rets = [x for x in lf.all_nodes() if x.get("k") == "return"] if lf is not None and lf.body is not None else []
            if len(rets) == 1 and len(lf.params) == 1:
                e = skip_copies(rets[0].get("e"))
                if isinstance(e, dict) and e.get("k") == "call" and e.get("ck") == "member" and (e.get("callee") or "").split("::")[-1] in ("endsWith", "startsWith", "contains") \
                        and e.get("args") and skip_copies(e["args"][0]).get("k") == "ref" and skip_copies(e["args"][0]).get("decl") == lf.params[0]["decl"] and is_container_type(typ(e.get("obj"))):
                    info["holds"] = e.get("obj")     # the found element is a suffix / prefix / part of this container
        return info

    def helper_to_inline(self, n):
        """a call to a non-virtual helper of the same class or file (private / static member, file-local function): analysed in the
        context of this call site, like a lambda, so that relations between its arguments (index < size of the container passed
        along) are not lost in a context-free summary"""
        f = self.F.fns.get(n.get("fn")) if n.get("fn") else None
        if f is None or f.body is None or n.get("virtual") or f.d.get("virtual") or f.d.get("kind") in ("ctor", "dtor", "conv") or f.lambda_of:
            return None
        if f.id == self.fn.id or f.id in getattr(self, "inline_stack", ()):
            self.env.not_inlined.add(f.id)
            return None
        same_file = (f.file or "") == (self.fn.file or "")
        local = "(anonymous namespace)" in f.name and same_file
        sibling = bool(f.cls) and f.cls == self.fn.cls
        if n.get("ck") == "member" and sibling:
            ob = skip_copies(n.get("obj")) if isinstance(n.get("obj"), dict) else None
            if ob is not None and ob.get("k") != "this":
                sibling = False      # a method of another object of the class
        if not (local or sibling) or f.id in self.env.root_ids:
            return None
        if self.depth > 3:
            self.env.not_inlined.add(f.id)
            return None
        return f

    def check_raw_extents(self, n, st):
        """(pointer, count) argument pairs: when the pointer is the buffer of a container the analysis tracks
        (`blanks.constData()`), reading `count` elements from it must stay inside that container"""
        args = n.get("args", [])
        for i in range(len(args) - 1):
            a, c = args[i], args[i + 1]
            ta, tc = typ(a), typ(c)
            if not ta.rstrip().endswith("*") or not is_int_type(tc):
                continue
            src = skip_copies(a)
            if isinstance(src, dict) and src.get("k") == "ref" and src.get("dk") == "local":
                from .facts import single_assignment_init
                ini = single_assignment_init(self.fn, src.get("decl"))
                if isinstance(ini, dict):
                    src = skip_copies(ini)
            off = None
            if isinstance(src, dict) and src.get("k") == "binop" and src.get("op") == "+":
                off = src.get("rhs")
                src = skip_copies(src.get("lhs"))
            if not (isinstance(src, dict) and src.get("k") == "call" and src.get("ck") == "member" and (src.get("callee") or "").split("::")[-1] in self.PTR_CALLS and not src.get("args")):
                continue
            obj = src.get("obj")
            if not is_container_type(typ(obj)):
                continue
            ls = self.len_sym(obj, st)
            cnt = self.eval(c, st)
            if cnt is not None and cnt.is_const() and cnt.k < 0:
                continue    # -1: "up to the terminator"
            what = "%s elements read from %s%s" % (describe(c), describe(a), "")
            key = "access|%s|%s" % (self.fn.name.split("::")[-1], what)
            if ls is None or cnt is None:
                self.ob("access", n, None, "%s: %s" % (what, "the container is not tracked" if ls is None else "the count is not an integer expression the analysis models"), key)
                continue
            o = self.eval(off, st) if off is not None else Lin.const(0)
            if o is None:
                self.ob("access", n, None, "%s: the offset is not modelled" % what, key)
                continue
            tot = cnt.add(o)
            rh = self.prove_all(st, lambda d: (lin_upper(d, tot.add(Lin.sym(ls), -1)) <= 0, tot.syms()))
            rl = self.prove_all(st, lambda d: (lin_lower(d, cnt) >= 0 and lin_lower(d, o) >= 0, tot.syms()))
            ok = False if (rl is False or rh is False) else None if (rl is None or rh is None) else True
            self.ob("access", n, ok, "%s stay inside it%s" % (what, "" if ok else ": the count may exceed the %s elements of the buffer (no bound count <= size)" %
                    ("%d" % max(d.upper(ls) for d in st.dbms()) if all(d.upper(ls) < INF for d in st.dbms()) else "available")), key)

    # ------------------------------------------------------------------ calls
    def eval_call(self, n, st):
        self.check_raw_extents(n, st)
        ck = n.get("ck")
        callee = n.get("callee") or ""
        short = callee.split("::")[-1]
        args = n.get("args", [])
        # lambda call: inline
        if ck == "operator" and n.get("op") == "()" and args:
            f0 = skip_copies(args[0])
            if isinstance(f0, dict) and f0.get("k") == "ref" and f0.get("decl") in self.lambdas:
                return self.inline(self.lambdas[f0["decl"]], args[1:], st, n)
        if ck == "operator":
            return self.eval_operator_call(n, st)
        hf = self.helper_to_inline(n)
        if hf is not None:
            if n.get("ck") == "member" and isinstance(n.get("obj"), dict):
                self.eval(n.get("obj"), st)
            return self.inline(hf.id, args, st, n)
        if ck == "member":
            obj = n.get("obj")
            if is_container_type(typ(obj)) or is_container_type(strip_tmpl(n.get("cls") or "")):
                return self.eval_container_call(n, short, st)
            # accessor of a repo class on the same object: inline `return <expr>`
            r = self.try_inline_accessor(n, st)
            if r is not NotImplemented:
                return r
            self.eval(obj, st)
            vals = [self.eval_arg(a, st) for a in args]
            return self.call_result(n, st)
        # free functions
        if short in ("qMin", "qMax", "min", "max") and len(args) == 2:
            a, b = self.eval(args[0], st), self.eval(args[1], st)
            return self.minmax(n, short in ("qMin", "min"), a, b, st)
        if short == "qBound" and len(args) == 3:
            lo, v, hi = [self.eval(a, st) for a in args]
            m = self.minmax(n, True, hi, v, st, tag="tb")
            return self.minmax(n, False, lo, m, st)
        if short in ("qstrlen", "strlen") and len(args) == 1:
            a = skip_copies(args[0])
            cs = const_str(a)
            if cs is not None:
                return Lin.const(len(cs))
            if a.get("k") == "ref":
                s = "strlen(v:%s)" % a["decl"]
                if any(d.has(s) for d in st.dbms()):
                    return Lin.sym(s)
            r = self.temp(n)
            self.assign(st, r, None, unknown=True)
            st.each(lambda d: d.add_lower(r, 0))
            fi_ = None
            if a.get("k") == "unop" and a.get("op") == "*":
                it_ = skip_copies(a.get("e"))
                fi_ = getattr(self, "found_iters", {}).get(it_.get("decl")) if it_.get("k") == "ref" else None
            if fi_ is not None:
                lo_, hi_ = min(fi_["lens"]), max(fi_["lens"])
                st.each(lambda d: (d.unk.discard(r), d.add_lower(r, lo_), d.add_upper(r, hi_)))
            return Lin.sym(r)
        if short in ("as_const", "qAsConst", "move", "forward") and len(args) == 1:
            return self.eval(args[0], st)
        vals = [self.eval_arg(a, st) for a in args]
        return self.call_result(n, st)

    def eval_arg(self, a, st):
        """argument of an unmodelled call: evaluated; a tracked container or integer passed bare may be modified through a
        non-const reference, so what is known about it is dropped unless the parameter is known to be by value / const"""
        v = self.eval(a, st)
        return v

    def minmax(self, n, is_min, a, b, st, tag="t"):
        r = self.temp(n, tag)

        def f(d):
            ta = lin_taint(d, a) if a is not None else None
            tb = lin_taint(d, b) if b is not None else None
            ua = lin_upper(d, a) if a is not None else INF
            ub = lin_upper(d, b) if b is not None else INF
            la = lin_lower(d, a) if a is not None else -INF
            lb = lin_lower(d, b) if b is not None else -INF
            unk = any(s in d.unk for x in (a, b) if x is not None for s in x.syms()) or a is None or b is None
            d.assign_top(r)
            if is_min:
                for x in (a, b):
                    if x is not None:
                        refine(d, Lin.sym(r), "<=", x)
                lo = min(la, lb)
                if lo != -INF:
                    d.add_lower(r, lo)
            else:
                for x in (a, b):
                    if x is not None:
                        refine(d, Lin.sym(r), ">=", x)
                hi = max(ua, ub)
                if hi != INF:
                    d.add_upper(r, hi)
            if ta is not None or tb is not None:
                if is_min:
                    d.taint[r] = min(d.upper(r), min(x for x in (ta if ta is not None else ua, tb if tb is not None else ub)))
                else:
                    d.taint[r] = max(x for x in (ta if ta is not None else ua, tb if tb is not None else ub))
            if unk and d.upper(r) == INF and d.lower(r) == -INF:
                d.unk.add(r)
        st.each(f)
        return Lin.sym(r)

    def call_result(self, n, st):
        """value of a call the interpreter does not model structurally"""
        t = typ(n)
        short = (n.get("callee") or "").split("::")[-1]
        rng = self.env.enum_range(t)
        self.env.record_call_args(self, n, st)
        # a non-const member call on `this` may change any field
        if n.get("ck") == "member" and n.get("constm") is False:
            o = skip_copies(n.get("obj"))
            if isinstance(o, dict) and o.get("k") == "this":
                self.havoc_fields(st)
        if rng:
            r = self.temp(n)
            self.assign(st, r, None)
            st.each(lambda d: (d.add_lower(r, rng[0]), d.add_upper(r, rng[1])))
            return Lin.sym(r)
        if not is_int_type(t):
            return None
        r = self.temp(n)
        if short in PARSE_INT_CALLS:
            self.assign(st, r, None, taint=INF)
            if short.startswith("toU"):
                st.each(lambda d: d.add_lower(r, 0))
            return Lin.sym(r)
        summ = self.env.return_summary(self, n)
        if summ is not None:
            up, tn, lo = summ
            self.assign(st, r, None, taint=tn)

            def f(d):
                if up != INF:
                    d.add_upper(r, up)
                if lo != -INF:
                    d.add_lower(r, lo)
            st.each(f)
            return Lin.sym(r)
        self.assign(st, r, None, unknown=True)
        if UNSIGNED_RE.match(t.strip()):
            st.each(lambda d: d.add_lower(r, 0))
        return Lin.sym(r)

    def havoc_fields(self, st):
        def f(d):
            for s in d.syms():
                if s.startswith("this.") or s.startswith("len(this."):
                    if s.startswith("len("):
                        d.forget(s)
                        d.ensure(s)
                        d.add_lower(s, 0)
                    else:
                        d.forget(s)
        st.each(f)

    def try_inline_accessor(self, n, st):
        fid = n.get("fn")
        f = self.F.fns.get(fid)
        o = skip_copies(n.get("obj"))
        if f is None or n.get("virtual") or not isinstance(o, dict) or o.get("k") != "this" or n.get("args"):
            return NotImplemented
        b = f.body
        if not (isinstance(b, dict) and b.get("k") == "compound" and len(b.get("body", [])) == 1 and b["body"][0].get("k") == "return"):
            return NotImplemented
        e = b["body"][0].get("e")
        if not isinstance(e, dict) or any(x.get("k") in ("call", "lambda") and x.get("fn") == fid for x in walk(e)):
            return NotImplemented
        if self.depth > 4:
            return NotImplemented
        self.depth += 1
        try:
            if typ(n).replace("const ", "").strip() == "bool":
                return ("cond", e)
            return self.eval(e, st)
        finally:
            self.depth -= 1

    def eval_operator_call(self, n, st):
        op = n.get("op")
        args = n.get("args", [])
        if op == "[]" and len(args) == 2 and is_container_type(typ(args[0])):
            ls = self.len_sym(args[0], st)
            idx = self.eval(args[1], st)
            what = "%s[%s]" % (describe(args[0]), describe(args[1]))
            if ls is None:
                self.eval(args[0], st)
                self.ob("access", n, None, "%s: container is not a local, parameter or field" % what, "access|%s|%s" % (self.fn.name.split("::")[-1], what))
            else:
                self.check_access(n, st, idx, ls, what)
            return None
        if op == "[]" and len(args) == 2:
            r = self.fixed_extent_access(n, args[0], args[1], st)
            if r:
                return None
        if op == "=" and len(args) == 2:
            if is_container_type(typ(args[0])):
                return self.assign_container(args[0], args[1], st)
            self.eval(args[0], st)
            self.eval(args[1], st)
            p = self.lvalue_path(args[0])
            if p:
                self.forget_struct(p, st)
            return None
        if op in ("+=", "<<") and len(args) == 2 and is_container_type(typ(args[0])):
            ls = self.len_sym(args[0], st)
            add = self.cval(args[1], st) if is_container_type(typ(args[1])) or skip_copies(args[1]).get("k") in ("str", "qstr", "construct", "call") and is_container_type(typ(args[1])) else None
            if add is None:
                self.eval(args[1], st)
            if ls:
                t = typ(args[1])
                if add is None and re.match(r"^(const )?(QChar|char|QLatin1Char)\b", t):
                    add = Lin.const(1)
                if add is not None:
                    self.assign(st, ls, Lin.sym(ls).add(add))
                    st.each(lambda d: d.add_lower(ls, 0))
                else:
                    self.grow_len(st, ls)
            return None
        for a in args:
            if op in ("+=", "-=", "++", "--", "<<=", ">>=") and a is args[0]:
                p = self.lvalue_path(a)
                if p:
                    self.escape(p, a, st)
                    continue
            self.eval(a, st)
        if op in ("==", "!=", "<", ">", "<=", ">=", "!"):
            return None
        return self.call_result(n, st) if is_int_type(typ(n)) else None

    def grow_len(self, st, ls):
        self.drop_char_facts(st, ls)
        """len := some value >= len"""
        def f(d):
            if not d.has(ls):
                d.ensure(ls)
                d.add_lower(ls, 0)
                return
            lo = d.lower(ls)
            d.forget(ls)
            d.ensure(ls)
            d.add_lower(ls, max(lo, 0))
        st.each(f)

    def forget_struct(self, p, st):
        def f(d):
            for s in d.syms():
                if s.startswith(p + ".") or s.startswith("len(" + p + "."):
                    d.forget(s)
        st.each(f)

    def needle_len(self, a, st):
        """(constant length or None, Lin length or None) of a search needle / prefix argument"""
        a0 = skip_copies(a)
        t = typ(a0)
        if a0.get("k") == "char" or re.match(r"^(const )?(char|QChar|QLatin1Char)$", t.strip()):
            return 1, Lin.const(1)
        cs = const_str(a0)
        if cs is not None:
            return len(cs), Lin.const(len(cs))
        if a0.get("k") == "ref" and a0.get("decl"):
            s = "strlen(v:%s)" % a0["decl"]
            if any(d.has(s) for d in st.dbms()):
                return None, Lin.sym(s)
        if is_container_type(t):
            v = self.cval(a0, st)
            return None, v
        return None, None

    def eval_container_call(self, n, m, st):
        obj = n.get("obj")
        args = n.get("args", [])
        ls = self.len_sym(obj, st)
        what = "%s.%s(%s)" % (describe(obj), m, ", ".join(describe(a) for a in args))
        if ls is None:
            # container-valued temporary (e.g. s.mid(1).at(0)): length as a value
            lv = self.cval(obj, st)
            if lv is not None and (m in ("at", "first", "last", "front", "back", "constFirst", "constLast") or m in LEN_CALLS):
                ls = self.temp(n, "LT")
                self.assign(st, ls, lv)
            elif m in LEN_CALLS and not args:
                return lv
        mx = max_len_of(typ(obj))
        if m in LEN_CALLS and not args:
            return Lin.sym(ls) if ls else None
        if m in ("at", "operator[]") and len(args) == 1:
            idx = self.eval(args[0], st)
            if ls is None:
                self.ob("access", n, None, "%s: container is not a local, parameter or field" % what, "access|%s|%s" % (self.fn.name.split("::")[-1], what))
            else:
                self.check_access(n, st, idx, ls, what)
            return None
        if m in ("first", "last", "front", "back", "constFirst", "constLast", "takeFirst", "takeLast", "removeFirst", "removeLast", "pop_back", "pop_front", "pop", "top", "dequeue", "head") and not args:
            if ls is None:
                self.ob("access", n, None, "%s: container is not a local, parameter or field" % what, "access|%s|%s" % (self.fn.name.split("::")[-1], what))
            else:
                self.check_nonempty(n, st, ls, what)
                if m.startswith(("take", "remove", "pop", "dequeue")):
                    st.each(lambda d: d.assign_shift(ls, -1))
            return None
        if m in ("indexOf", "lastIndexOf") and args:
            kconst, klin = self.needle_len(args[0], st)
            frm = self.eval(args[1], st) if len(args) > 1 else None
            r = self.temp(n)
            last = m == "lastIndexOf"

            impls = []  # (symbol or Z, offset): found => r >= symbol + offset
            if frm is not None and not last:
                sg = frm.single()
                if frm.is_const():
                    impls.append((Z, frm.k))
                elif sg:
                    # `pos = s.indexOf(x, pos)`: a ghost keeps the old start position alive across the assignment; the
                    # fact on the original symbol survives the end of the statement
                    g = self.temp(n, "g")
                    self.assign(st, g, Lin.sym(sg[0]))
                    impls.append((g, sg[1]))
                    impls.append((sg[0], sg[1]))

            needle = const_str(args[0])
            if needle is None and self.char_const(args[0]) is not None:
                needle = chr(self.char_const(args[0]))
            opath = self.lvalue_path(obj)
            fsg = frm.single() if frm is not None else None

            def no_match_at_start(key, d):
                """the needle cannot occur at position `from` in this partition: it does not fit, or a character is known to differ"""
                if last or not needle or frm is None:
                    return False
                if ls and lin_lower(d, frm.add(Lin.sym(ls), -1)) >= 1 - len(needle):
                    return True          # from + |needle| > size
                if opath is not None and fsg is not None:
                    for j, chx in enumerate(needle):
                        if ("c|%s|%s|%d|%d" % (opath, fsg[0], fsg[1] + j, ord(chx)), 0) in key:
                            return True
                return False

            # a one-character needle searched from a symbolic position: decide by cases whether it stands right there (the search then
            # answers that position, which is what makes `pos = s.indexOf(c, pos)` repeat itself) or not (strict progress)
            if not last and needle and len(needle) == 1 and frm is not None and opath is not None and fsg is not None and ls and len(st.parts) <= 24:
                name = "c|%s|%s|%d|%d" % (opath, fsg[0], fsg[1], ord(needle))
                if any(dict(k).get(name) is None for k in st.parts):
                    t_, f_ = st.split_bool(name)
                    t_.each(lambda d: refine(d, frm, "<=", Lin.sym(ls).add(Lin.const(-1))))
                    t_.each(lambda d: refine(d, frm, ">=", Lin.const(0)))
                    merged = dict(f_.parts)
                    for k_, d_ in t_.parts.items():
                        if not d_.bottom:
                            merged[k_] = d_
                    st.parts = merged

            def match_at_start(key):
                """a one-character needle that is known to stand at position `from`: the search answers `from` itself"""
                if last or not needle or len(needle) != 1 or frm is None or opath is None or fsg is None:
                    return False
                return ("c|%s|%s|%d|%d" % (opath, fsg[0], fsg[1], ord(needle)), 1) in key

            def f(key, d):
                strict = 1 if no_match_at_start(key, d) else 0
                d.assign_top(r)
                d.add_lower(r, -1)
                if match_at_start(key) and lin_lower(d, frm) >= 0:
                    refine(d, Lin.sym(r), "==", frm)
                    return
                if ls:
                    k = kconst if kconst is not None else 0 if klin is None else max(lin_lower(d, klin), 0)
                    d.add(r, ls, -max(k, 0))
                if frm is not None:
                    flo = lin_lower(d, frm)
                    if last:
                        if flo >= 0:
                            refine(d, Lin.sym(r), "<=", frm)
                    elif flo >= 0:
                        for sy, off in impls:
                            d.impl.append((r, sy, r, -off - strict))
                        d._apply_impl()
            for key, d in list(st.parts.items()):
                if not d.bottom:
                    f(key, d)
            st.prune()
            return Lin.sym(r)
        if m in ("startsWith", "endsWith", "contains", "compare", "isNull", "isEmpty"):
            for a in args:
                self.eval(a, st)
            return None
        if m in SUBSTR_CALLS and is_container_type(typ(n)):
            self.cval(n, st)
            return None
        if m in PARSE_INT_CALLS:
            for a in args:
                self.eval(a, st)
            return self.call_result(n, st)
        # ---- mutators
        if n.get("constm") is False and ls is not None:
            self.drop_char_facts(st, ls)
            vals = [self.eval(a, st) for a in args]
            if m == "clear":
                self.assign(st, ls, Lin.const(0))
            elif m == "chop" and len(args) == 1:
                k = vals[0]

                def f(d):
                    if k is None:
                        d.shrink(ls)
                        d.unk.add(ls)
                        return
                    if any(s_ in d.unk for s_ in k.syms()):
                        d.shrink(ls)
                        d.unk.add(ls)
                        return
                    klo = lin_lower(d, k)
                    if klo >= 1 and lin_upper(d, k.add(Lin.sym(ls), -1)) <= 0:
                        assign_lin(d, ls, Lin.sym(ls).add(k, -1))
                        d.add_lower(ls, 0)
                    elif klo >= 1 and d.lower(ls) >= 1:
                        d.shrink(ls, 1)
                    else:
                        d.shrink(ls)
                st.each(f)
            elif m == "truncate" and len(args) == 1:
                k = vals[0]

                def f(d):
                    d.shrink(ls)
                    if k is not None and lin_lower(d, k) >= 0:
                        refine(d, Lin.sym(ls), "<=", k)
                st.each(f)
            elif m == "remove" and len(args) == 2 and is_int_type(typ(args[0])):
                p, cnt = vals

                def f(d):
                    if p is not None and cnt is not None and lin_lower(d, p) >= 0 and lin_upper(d, p.add(Lin.sym(ls), -1)) <= -1 and lin_lower(d, cnt) >= 1:
                        d.shrink(ls, 1)
                    else:
                        d.shrink(ls)
                st.each(f)
            elif m in ("append", "push_back", "prepend", "push_front", "push", "enqueue") and len(args) == 1:
                t = typ(args[0])
                add = None
                if re.match(r"^(const )?(QChar|char|QLatin1Char)\b", t) or not is_container_type(typ(obj)) or typ(obj).startswith(("QList", "QVector", "const QList", "QStack", "QQueue", "std::stack", "std::queue", "std::deque")) or m in ("push", "enqueue"):
                    if not is_container_type(t) or "QList" in typ(obj) or "QVector" in typ(obj) or m in ("push", "enqueue") or "QStack" in typ(obj) or "QQueue" in typ(obj):
                        add = Lin.const(1)
                if add is None and is_container_type(t):
                    add = self.cval(args[0], st)
                if add is not None:
                    self.assign(st, ls, Lin.sym(ls).add(add))
                    st.each(lambda d: (d.add_lower(ls, 0), d.add_upper(ls, mx)))
                else:
                    self.grow_len(st, ls)
            elif m == "replace" and len(args) >= 2 and const_str(args[0]) is not None and const_str(args[1]) is not None and len(const_str(args[1])) <= len(const_str(args[0])):
                st.each(lambda d: d.shrink(ls))
            elif m in ("reserve", "squeeze", "detach", "begin", "end", "data", "swap") and m != "swap":
                if m == "reserve" and args:
                    self.check_alloc(n, st, vals[0], what)
            elif m in ("resize", "fill") and args:
                cnt = vals[0] if m == "resize" else (vals[1] if len(vals) > 1 else None)
                self.check_alloc(n, st, cnt, what)
                self.havoc_len(st, ls, mx)
            elif m in ("insert", "operator+=", "push_back", "append", "prepend"):
                self.grow_len(st, ls)
            else:
                self.havoc_len(st, ls, mx)
            return None
        vals = [self.eval(a, st) for a in args]
        if m in ("leftJustified", "rightJustified", "repeated") and args:
            self.check_alloc(n, st, vals[0], what)
        if ls is None:
            self.eval(obj, st)
        return self.call_result(n, st) if is_int_type(typ(n)) else None

    # ------------------------------------------------------------------ inlining
    def bind_params(self, f, args, vals, st):
        """parameters of an inlined callee: integers get the argument values, containers the argument's length; returns the
        (argument length, parameter length) pairs to copy back for non-const reference parameters"""
        back = []
        for p, a, v in zip(f.params, args, vals):
            t = p.get("type", "")
            if is_int_type(t) or self.env.enum_range(t):
                s_ = "v:" + p["decl"]
                self.names.setdefault(s_, p.get("name"))
                self.assign(st, s_, v, unknown=v is None)
            elif is_container_type(t.replace("&", "").strip()):
                lp = "len(v:%s)" % p["decl"]
                self.names.setdefault(lp, "|%s|" % p.get("name"))
                la = self.len_sym(a, st)
                lv = Lin.sym(la) if la is not None else self.cval(a, st)
                mx = max_len_of(t)
                if lv is None:
                    self.havoc_len(st, lp, mx)
                else:
                    self.assign(st, lp, lv)
                    st.each(lambda d, lp=lp, mx=mx: (d.add_lower(lp, 0), d.add_upper(lp, mx)))
                if la is not None and "&" in t and not t.strip().startswith("const "):
                    back.append((la, lp))
        return back

    def inline_cond(self, fid, args, st, call):
        """a boolean lambda used as a condition: (states where it returns true, states where it returns false)"""
        f = self.F.fns.get(fid)
        if f is None or f.body is None:
            return None
        st = st.copy()
        vals = [self.eval(a, st) for a in args]
        self.env.inlined.add(fid)
        sub = Interp(self.F, f, self.env)
        sub.record = self.record
        sub.lambdas = dict(self.lambdas)
        sub.strarrays = self.strarrays
        sub.names = self.names
        sub.depth = self.depth + 1
        sub.inline_stack = tuple(getattr(self, "inline_stack", ())) + (self.fn.id,)
        sub.ctx = ["%s:%d" % (self.fn.loc().rsplit(":", 1)[0].split("/")[-1], call.get("l", 0))] + self.ctx
        sub.tracked_bools = sub.tracked_bools | self.tracked_bools
        sub.ret_as_cond = True
        sub.caller, sub.param_args = self, {p_["decl"]: a_ for p_, a_ in zip(f.params, args)}
        self.bind_params(f, args, vals, st)
        flow = sub.exec(f.body, st)
        ts, fs = [], []
        for rs, rv in flow.ret:
            if isinstance(rv, tuple) and rv[0] == "cond":
                ts.append(rv[1])
                fs.append(rv[2])
            else:
                ts.append(rs)
                fs.append(rs.copy())
        dead = set()
        for x in f.all_nodes():
            if x.get("k") == "decl":
                for v in x.get("vars", []):
                    if v.get("decl"):
                        dead.add("v:" + v["decl"])
        for p in f.params:
            dead.add("v:" + p["decl"])
            dead.add("len(v:%s)" % p["decl"])
        t, fl = join_all(ts), join_all(fs)
        for x in (t, fl):
            x.forget(syms=list(dead))
        return t, fl

    def inline(self, fid, args, st, call):
        f = self.F.fns.get(fid)
        if f is None or self.depth > 3:
            for a in args:
                self.eval(a, st)
            return self.call_result(call, st)
        vals = [self.eval(a, st) for a in args]
        self.env.inlined.add(fid)
        sub = Interp(self.F, f, self.env)
        sub.record = self.record
        sub.lambdas = dict(self.lambdas)
        sub.strarrays = self.strarrays
        sub.names = self.names
        sub.depth = self.depth + 1
        sub.ctx = ["%s:%d" % (self.fn.loc().rsplit(":", 1)[0].split("/")[-1], call.get("l", 0))] + self.ctx
        sub.tracked_bools = sub.tracked_bools | self.tracked_bools
        sub.caller, sub.param_args = self, {p_["decl"]: a_ for p_, a_ in zip(f.params, args)}
        back = self.bind_params(f, args, vals, st)
        flow = sub.exec(f.body, st.copy())
        rets = list(flow.ret)
        if not flow.normal.is_bottom():
            rets.append((flow.normal, None))
        r = self.temp(call, "ret")
        outs = []
        for rs, rv in rets:
            if rs.is_bottom():
                continue
            rs = rs.copy()
            self.assign(rs, r, rv, unknown=False)
            for la, lp in back:          # non-const reference parameter: the caller's container has the callee's final length
                self.assign(rs, la, Lin.sym(lp))
            outs.append(rs)
        j = join_all(outs)
        # locals of the inlined body are dead
        dead = set()
        for x in f.all_nodes():
            if x.get("k") == "decl":
                for v in x.get("vars", []):
                    if v.get("decl"):
                        dead.add("v:" + v["decl"])
        for p in f.params:
            dead.add("v:" + p["decl"])
            dead.add("len(v:%s)" % p["decl"])
        j.forget(syms=[s for s in dead], bools=[s[2:] for s in dead if s[2:] in sub.tracked_bools and s[2:] not in self.tracked_bools])
        st.parts = j.parts
        return Lin.sym(r) if is_int_type(typ(call)) else None

    # ------------------------------------------------------------------ conditions
    def cond(self, n, st):
        """(state where n is true, state where n is false); both are fresh states"""
        n = skip_copies(n)
        if st.is_bottom():
            return St.bottom(), St.bottom()
        if not isinstance(n, dict):
            return st.copy(), st.copy()
        k = n.get("k")
        if k == "bool":
            return (st.copy(), St.bottom()) if n["v"] else (St.bottom(), st.copy())
        if "cv" in n and k not in ("binop", "unop", "call"):
            return (st.copy(), St.bottom()) if n["cv"] else (St.bottom(), st.copy())
        if k == "unop" and n.get("op") == "!":
            t, f = self.cond(n.get("e"), st)
            return f, t
        if k == "call" and n.get("ck") == "operator" and n.get("op") == "!" and len(n.get("args", [])) == 1:
            t, f = self.cond(n["args"][0], st)
            return f, t
        if k == "binop" and n.get("op") == "&&":
            t1, f1 = self.cond(n.get("lhs"), st)
            t2, f2 = self.cond(n.get("rhs"), t1)
            return t2, f1.join(f2)
        if k == "binop" and n.get("op") == "||":
            t1, f1 = self.cond(n.get("lhs"), st)
            t2, f2 = self.cond(n.get("rhs"), f1)
            return t1.join(t2), f2
        if k in ("binop", "call") and n.get("op") in ("==", "!=") and getattr(self, "found_iters", None):
            ops = n.get("args") or [n.get("lhs"), n.get("rhs")]
            ops = [skip_copies(o_) for o_ in ops if isinstance(o_, dict)]
            its = [o_ for o_ in ops if o_.get("k") == "ref" and o_.get("decl") in self.found_iters]
            if len(ops) == 2 and len(its) == 1:
                fi_ = self.found_iters[its[0]["decl"]]
                other = [o_ for o_ in ops if o_ is not its[0]][0]
                if other.get("k") == "call" and strip_tmpl(other.get("callee") or "").split("::")[-1] in ("end", "cend") and self.strarray_of(other) == fi_["arr"]:
                    notfound, found = st.copy(), st.copy()
                    if fi_["holds"] is not None:
                        ls_ = self.len_sym(fi_["holds"], found)
                        if ls_ is not None:
                            lo_ = min(fi_["lens"])
                            found.each(lambda d: d.add_lower(ls_, lo_))    # the predicate held for the element found
                    return (notfound, found) if n["op"] == "==" else (found, notfound)
        ca = self.char_atom(n, st) if k in ("binop", "call") and n.get("op") in ("==", "!=") else None
        if ca is not None:
            s = st.copy()
            for sub in (n.get("args") or [n.get("lhs"), n.get("rhs")]):     # the element access itself is an obligation
                if isinstance(sub, dict):
                    self.eval(sub, s)
            t, f = s.split_bool(ca[0])
            return (t, f) if ca[1] else (f, t)
        if k == "binop" and n.get("op") in ("<", ">", "<=", ">=", "==", "!="):
            s = st.copy()
            lt, rt = typ(n.get("lhs")), typ(n.get("rhs"))
            a = self.eval(n.get("lhs"), s)
            b = self.eval(n.get("rhs"), s)
            if a is None or b is None:
                # comparison of a tracked bool with a literal
                return s, s.copy()
            if (UNSIGNED_RE.match(lt.strip()) or UNSIGNED_RE.match(rt.strip())) and not all(lin_lower(d, x) >= 0 for d in s.dbms() for x in (a, b)):
                return s, s.copy()  # mixed-sign comparison: no refinement
            t, f = s, s.copy()
            op = n["op"]
            neg = {"<": ">=", ">": "<=", "<=": ">", ">=": "<", "==": "!=", "!=": "=="}[op]
            t.each(lambda d: refine(d, a, op, b))
            f.each(lambda d: refine(d, a, neg, b))
            return t, f
        if k == "ref" and typ(n).replace("const ", "").strip() == "bool" and n.get("decl") in self.tracked_bools:
            return st.copy().split_bool(n["decl"])
        if k == "call" and n.get("ck") == "member":
            obj = n.get("obj")
            m = (n.get("callee") or "").split("::")[-1]
            args = n.get("args", [])
            if is_container_type(typ(obj)) and m == "isEmpty" and not args:
                s = st.copy()
                ls = self.len_sym(obj, s)
                if ls is None:
                    lv = self.cval(obj, s)
                    if lv is None:
                        return s, s.copy()
                    t, f = s, s.copy()
                    t.each(lambda d: refine(d, lv, "==", Lin.const(0)))
                    f.each(lambda d: refine(d, lv, ">=", Lin.const(1)))
                    return t, f
                t, f = s, s.copy()
                t.each(lambda d: d.add_upper(ls, 0))
                f.each(lambda d: d.add_lower(ls, 1))
                return t, f
            if is_container_type(typ(obj)) and m in ("startsWith", "endsWith") and len(args) >= 1:
                s = st.copy()
                ls = self.len_sym(obj, s)
                kc, kl = self.needle_len(args[0], s)
                for a in args[1:]:
                    self.eval(a, s)
                t, f = s, s.copy()
                if ls is not None and kl is not None:
                    t.each(lambda d: refine(d, Lin.sym(ls), ">=", kl))
                return t, f
            r = self.try_inline_accessor(n, st) if typ(n).replace("const ", "").strip() == "bool" else NotImplemented
            if isinstance(r, tuple) and r and r[0] == "cond":
                self.depth += 1
                try:
                    return self.cond(r[1], st)
                finally:
                    self.depth -= 1
        if k == "call" and typ(n).replace("const ", "").strip() == "bool":
            hf = self.helper_to_inline(n)
            if hf is not None:
                r = self.inline_cond(hf.id, n.get("args", []), st, n)
                if r is not None:
                    return r
        if k == "call" and n.get("ck") == "operator" and n.get("op") == "()" and n.get("args"):
            f0 = skip_copies(n["args"][0])
            if isinstance(f0, dict) and f0.get("k") == "ref" and f0.get("decl") in self.lambdas and self.depth <= 3:
                r = self.inline_cond(self.lambdas[f0["decl"]], n["args"][1:], st, n)
                if r is not None:
                    return r
        s = st.copy()
        v = self.eval(n, s)
        if v is not None and (is_int_type(typ(n))):
            t, f = s, s.copy()
            t.each(lambda d: refine(d, v, "!=", Lin.const(0)))
            f.each(lambda d: refine(d, v, "==", Lin.const(0)))
            return t, f
        return s, s.copy()

    # ------------------------------------------------------------------ statements
    def exec(self, n, st):
        if not isinstance(n, dict) or st.is_bottom():
            return Flow(St.bottom() if st.is_bottom() else st)
        k = n.get("k")
        h = getattr(self, "x_" + k, None)
        if h is not None:
            r = h(n, st)
            if DEBUG_LINES and self.record and n.get("l") in DEBUG_LINES and k not in ("compound",):
                print("[zone] after %s @%s ctx=%s" % (k, n.get("l"), self.ctx))
                for kk, dd in r.normal.parts.items():
                    print("    part", sorted((self.names.get("v:" + b, b)[-16:], v) for b, v in kk), "::", dd.show(self.names))
                for rs, rv in r.ret:
                    for kk, dd in rs.parts.items():
                        print("    RET", rv, sorted((self.names.get("v:" + b, b)[-16:], v) for b, v in kk), "::", dd.show(self.names))
            return r
        if k in ("goto", "label"):
            raise AnalysisBroken("%s uses goto; the structured interpreter refuses to guess" % self.fn.sig)
        if k == "try":
            raise AnalysisBroken("%s contains try/catch, which the interpreter does not model" % self.fn.sig)
        # expression statement
        self.eval(n, st)
        self.drop_temps(st)
        return Flow(st)

    def x_null(self, n, st):
        return Flow(st)

    def x_compound(self, n, st):
        fl = Flow(st)
        decls, bools = [], []
        for s in n.get("body", []):
            if isinstance(s, dict) and s.get("k") == "decl":
                for v in s.get("vars", []):
                    if v.get("decl"):
                        decls.append(v["decl"])
            r = self.exec(s, fl.normal)
            fl.normal = r.normal
            fl.brk += r.brk
            fl.cont += r.cont
            fl.ret += r.ret
            if fl.normal.is_bottom():
                break
        if decls and not fl.normal.is_bottom():
            self.forget_decls(fl.normal, decls)
        return fl

    def forget_decls(self, st, decls):
        pref = tuple("v:" + d for d in decls)
        lp = tuple("len(v:" + d for d in decls)
        sp = tuple("strlen(v:" + d for d in decls)

        def f(d):
            for s in d.syms():
                if s in pref or s.startswith(tuple(p + "." for p in pref)) or s.startswith(lp) or s.startswith(sp):
                    d.forget(s)
        st.each(f)
        for b in decls:
            if b in self.tracked_bools:
                st.drop_bool(b)

    def x_decl(self, n, st):
        for v in n.get("vars", []):
            d = v.get("decl")
            if not d:
                continue
            t = v.get("type", "")
            init = v.get("init")
            ini = skip_copies(init) if isinstance(init, dict) else None
            sym = "v:" + d
            self.names.setdefault(sym, v.get("name"))
            if ini is not None and ini.get("k") == "lambda":
                self.lambdas[d] = ini["fn"]
                for c in ini.get("captures", []):
                    if not c.get("byref") and not c.get("this"):
                        self.env.notes.add("%s: lambda captures %s by value; the copy is not tracked" % (self.fn.sig, c.get("name")))
                continue
            if ini is not None and ini.get("k") == "initlist" and "[" in t:
                lens = [e.get("len") for e in ini.get("els", []) if isinstance(e, dict) and e.get("k") == "str"]
                if lens and len(lens) == len(ini.get("els", [])):
                    self.strarrays[d] = lens
                continue
            fi = self.find_over_strarray(ini)
            if fi is not None:
                # `auto q = std::find_if(std::begin(TABLE), std::end(TABLE), pred)`: an element of a constant string table, or its end
                if not hasattr(self, "found_iters"):
                    self.found_iters = {}
                self.found_iters[d] = fi
                for a_ in ini.get("args", [])[2:]:
                    self.eval(a_, st) if skip_copies(a_).get("k") != "lambda" else None
                continue
            if v.get("static") and not v.get("const"):
                # mutable function-local static: value survives calls, nothing is assumed
                continue
            tb = t.replace("const ", "").strip()
            if tb == "bool" and d in self.tracked_bools:
                if ini is None:
                    st.drop_bool(d)
                else:
                    tt, ff = self.cond(init, st)
                    tt.set_bool(d, 1)
                    ff.set_bool(d, 0)
                    st = tt.join(ff)
                continue
            if is_int_type(t) or self.env.enum_range(t):
                val = self.eval(init, st) if ini is not None else None
                val = self._convert(val, t, st) if val is not None else None
                self.assign(st, sym, val, unknown=(val is None and ini is not None))
                rng = self.env.enum_range(t)
                if rng and val is None:
                    st.each(lambda dd: (dd.add_lower(sym, rng[0]), dd.add_upper(sym, rng[1])))
                if val is None and UNSIGNED_RE.match(t.strip()):
                    st.each(lambda dd: dd.add_lower(sym, 0))
                continue
            if is_container_type(t) or (t.strip() in ("auto", "const auto") and ini is not None and is_container_type(typ(ini))):
                ls = "len(" + sym + ")"
                self.names.setdefault(ls, "|%s|" % v.get("name"))
                lv = self.cval(init, st) if ini is not None else Lin.const(0)
                mx = max_len_of(t)
                if lv is None:
                    self.havoc_len(st, ls, mx)
                else:
                    self.assign(st, ls, lv)
                    st.each(lambda dd: (dd.add_lower(ls, 0), dd.add_upper(ls, mx)))
                continue
            # struct with default member initialisers
            rec = self.F.records.get(t.replace("const ", "").replace("struct ", "").replace("class ", "").strip())
            if ini is not None:
                self.eval(init, st)
            if rec is not None and (ini is None or (ini.get("k") == "construct" and not ini.get("args"))):
                for fld in rec.get("fields", []):
                    if is_int_type(fld.get("type", "")):
                        fs = sym + "." + fld["name"]
                        self.names.setdefault(fs, "%s.%s" % (v.get("name"), fld["name"]))
                        dv = const_int(fld.get("init")) if isinstance(fld.get("init"), dict) else None
                        self.assign(st, fs, Lin.const(dv) if dv is not None else None)
        self.drop_temps(st)
        return Flow(st)

    def x_return(self, n, st):
        e = n.get("e")
        v = None
        if getattr(self, "ret_as_cond", False) and isinstance(e, dict):
            t, f = self.cond(e, st)
            self.drop_temps(t, f)
            return Flow(St.bottom(), ret=[(st, ("cond", t, f))])
        if isinstance(e, dict):
            if is_container_type(typ(e)):
                self.cval(e, st)
            else:
                v = self.eval(e, st)
        if v is not None:
            # keep the value alive across temp clean-up: bind it to a dedicated symbol
            r = "ret!%d" % n["id"]
            self.assign(st, r, v)
            self.drop_temps(st)
            return Flow(St.bottom(), ret=[(st, Lin.sym(r))])
        self.drop_temps(st)
        return Flow(St.bottom(), ret=[(st, None)])

    def x_break(self, n, st):
        return Flow(St.bottom(), brk=[st])

    def x_continue(self, n, st):
        return Flow(St.bottom(), cont=[st])

    def x_if(self, n, st):
        fl = Flow()
        if isinstance(n.get("init"), dict):
            r = self.exec(n["init"], st)
            st = r.normal
        if isinstance(n.get("condvar"), dict):
            r = self.exec(n["condvar"], st)
            st = r.normal
        if n.get("constexpr") and "cv" in (skip_copies(n.get("cond")) or {}):
            pass
        t, f = self.cond(n.get("cond"), st)
        self.drop_temps(t, f)
        rt = self.exec(n.get("then"), t) if isinstance(n.get("then"), dict) else Flow(t)
        rf = self.exec(n.get("else"), f) if isinstance(n.get("else"), dict) else Flow(f)
        fl.normal = rt.normal.join(rf.normal) if not (rt.normal.is_bottom() and rf.normal.is_bottom()) else St.bottom()
        fl.brk = rt.brk + rf.brk
        fl.cont = rt.cont + rf.cont
        fl.ret = rt.ret + rf.ret
        return fl

    def x_switch(self, n, st):
        if isinstance(n.get("init"), dict):
            st = self.exec(n["init"], st).normal
        v = self.eval(n.get("cond"), st)
        body = n.get("body")
        stmts = body.get("body", []) if isinstance(body, dict) and body.get("k") == "compound" else [body]
        fl = Flow(St.bottom())
        cur = St.bottom()
        has_default = False
        seen_vals = []
        for s in stmts:
            while isinstance(s, dict) and s.get("k") in ("case", "default"):
                if s["k"] == "case":
                    cv = const_int(s.get("val"))
                    e = st.copy()
                    if v is not None and cv is not None:
                        e.each(lambda d: refine(d, v, "==", Lin.const(cv)))
                        seen_vals.append(cv)
                    cur = cur.join(e) if not cur.is_bottom() else e
                else:
                    has_default = True
                    e = st.copy()
                    cur = cur.join(e) if not cur.is_bottom() else e
                s = s.get("sub")
            if not isinstance(s, dict):
                continue
            r = self.exec(s, cur)
            cur = r.normal
            fl.brk += r.brk
            fl.cont += r.cont
            fl.ret += r.ret
        outs = [cur] + fl.brk
        if not has_default:
            e = st.copy()
            if v is not None:
                for cv in seen_vals:
                    e.each(lambda d: refine(d, v, "!=", Lin.const(cv)))
            outs.append(e)
        fl.brk = []
        fl.normal = join_all(outs)
        self.drop_temps(fl.normal)
        return fl

    # ------------------------------------------------------------------ loops
    MAX_ITER = 12

    def modified_in(self, node):
        """symbols (ints and container lengths) that the sub-tree may write, including through known lambdas"""
        out = set()
        seen_l = set()
        stack = [node]
        while stack:
            root = stack.pop()
            for x in walk(root):
                k = x.get("k")
                if k == "unop" and x.get("op") in ("++", "--", "&"):
                    p = self.lvalue_path(x.get("e"))
                    if p:
                        out.add(p)
                elif k == "binop" and x.get("op", "").endswith("=") and x["op"] not in ("==", "!=", "<=", ">="):
                    p = self.lvalue_path(x.get("lhs"))
                    if p:
                        out.add(p)
                        out.add("len(" + p + ")")
                elif k == "call" and x.get("ck") == "member" and x.get("constm") is False:
                    p = self.lvalue_path(x.get("obj"))
                    if p:
                        out.add("len(" + p + ")")
                elif k == "call" and x.get("ck") == "operator" and x.get("args"):
                    if x.get("op") in ("=", "+=", "-=", "<<", "++", "--", "<<=", ">>="):
                        p = self.lvalue_path(x["args"][0])
                        if p:
                            out.add(p)
                            out.add("len(" + p + ")")
                    if x.get("op") == "()":
                        f0 = skip_copies(x["args"][0])
                        if isinstance(f0, dict) and f0.get("k") == "ref" and f0.get("decl") in self.lambdas and f0["decl"] not in seen_l:
                            seen_l.add(f0["decl"])
                            lf = self.F.fns.get(self.lambdas[f0["decl"]])
                            if lf is not None and lf.body:
                                stack.append(lf.body)
                elif k == "decl":
                    for v in x.get("vars", []):
                        if v.get("decl"):
                            out.add("v:" + v["decl"])
        return out

    @staticmethod
    def decls_in(node):
        out = []
        if isinstance(node, dict):
            for x in walk(node):
                if x.get("k") == "decl":
                    out += [v["decl"] for v in x.get("vars", []) if v.get("decl")]
                elif x.get("k") == "rangefor" and x.get("var", {}).get("decl"):
                    out.append(x["var"]["decl"])
        return out

    def _iterate(self, entry, step):
        """least fixpoint above `entry` of inv -> entry ⊔ back(inv) with widening; returns the invariant"""
        rec = self.record
        self.record = False
        try:
            inv = entry.copy()
            for it in range(self.MAX_ITER):
                back = step(inv)
                new = entry.join(back) if not back.is_bottom() else entry.copy()
                if new.leq(inv):
                    break
                merged = inv.join(new)
                inv = inv.widen(merged) if it >= 2 else merged
            else:
                raise AnalysisBroken("loop invariant in %s did not stabilise" % self.fn.sig)
            for _ in range(2):
                back = step(inv)
                new = entry.join(back) if not back.is_bottom() else entry.copy()
                if new.leq(inv) and not inv.leq(new):
                    inv = new
                else:
                    break
            return inv
        finally:
            self.record = rec

    def x_while(self, n, st):
        return self._loop(n, st, "while")

    def x_do(self, n, st):
        return self._loop(n, st, "do")

    def x_for(self, n, st):
        decls = []
        if isinstance(n.get("init"), dict):
            for x in walk(n["init"]):
                if x.get("k") == "decl":
                    decls += [v["decl"] for v in x.get("vars", []) if v.get("decl")]
            st = self.exec(n["init"], st).normal
        fl = self._loop(n, st, "for")
        if decls and not fl.normal.is_bottom():
            self.forget_decls(fl.normal, decls)
        return fl

    def _one_pass(self, n, kind, inv):
        """one abstract execution of the loop from the head state `inv`:
        returns (cond-true state at the head, list of back-edge states, list of exit states, returns)"""
        body, cond, inc = n.get("body"), n.get("cond"), n.get("inc")
        if kind in ("while", "for"):
            if isinstance(cond, dict):
                t, f = self.cond(cond, inv)
                self.drop_temps(t, f)
            else:
                t, f = inv.copy(), St.bottom()
            r = self.exec(body, t.copy()) if isinstance(body, dict) else Flow(t.copy())
            backs = [s for s in [r.normal] + r.cont if not s.is_bottom()]
            if kind == "for" and isinstance(inc, dict):
                nb = []
                for b in backs:
                    self.eval(inc, b)
                    self.drop_temps(b)
                    nb.append(b)
                backs = nb
            return t, backs, [f] + r.brk, r.ret
        # do-while
        r = self.exec(body, inv.copy()) if isinstance(body, dict) else Flow(inv.copy())
        c_in = join_all([r.normal] + r.cont)
        t, f = self.cond(cond, c_in)
        self.drop_temps(t, f)
        backs = [t] if not t.is_bottom() else []
        return None, backs, [f] + r.brk, r.ret

    def _loop(self, n, st, kind):
        entry = st

        def step(inv):
            _, backs, _, _ = self._one_pass(n, kind, inv)
            return join_all(backs)
        inv = self._iterate(entry, step)
        # final pass: obligations are recorded, ranking function is searched with ghost copies of the modified symbols
        mod = self.modified_in(n) if self.record else set()
        ghosts = {}
        head = inv.copy()
        if self.record:
            present = set()
            for d in head.dbms():
                present |= set(d.syms())
            for s in sorted(mod & present):
                g = "g0[%d]:%s" % (n["id"], s)
                ghosts[s] = g
                self.names.setdefault(g, "%s@head" % self.names.get(s, s))
            for s, g in ghosts.items():
                head.each(lambda d, s=s, g=g: (d.ensure(g), d.add_eq(g, s, 0)))
        outer_freeze = getattr(self, "freeze", None)
        if self.record:
            self.freeze = [outer_freeze[0] if outer_freeze else 0, set()]
        t, backs, exits, rets = self._one_pass(n, kind, head)
        if self.record:
            self.check_termination(n, kind, entry, t, backs, ghosts, mod)
            zs = list(self.freeze[1])
            if zs:
                for e_ in exits:
                    e_.forget(bools=zs)
                for rs, _ in rets:
                    rs.forget(bools=zs)
            if outer_freeze:
                outer_freeze[0] = self.freeze[0]
            self.freeze = outer_freeze
        out = join_all(exits)
        gs = list(ghosts.values())
        if gs:
            out.forget(syms=gs)
            for rs, _ in rets:
                rs.forget(syms=gs)
        # declarations inside the loop are dead after it
        inner = self.decls_in(n.get("body"))
        if inner and not out.is_bottom():
            self.forget_decls(out, inner)
        return Flow(out, ret=rets)

    def x_rangefor(self, n, st):
        rng = skip_copies(n.get("range"))
        var = n.get("var", {})
        vdecl = var.get("decl")
        vsym = "v:%s" % vdecl
        self.names.setdefault(vsym, var.get("name"))
        # evaluate the range expression once
        while isinstance(rng, dict) and rng.get("k") == "call" and (rng.get("callee") or "").split("::")[-1] in ("as_const", "qAsConst") and rng.get("args"):
            rng = skip_copies(rng["args"][0])
        rpath = self.lvalue_path(rng)
        if rpath is None:
            self.eval(rng, st)
        lens = self.strarrays.get(rng.get("decl")) if isinstance(rng, dict) and rng.get("k") == "ref" else None

        def bind(s):
            if lens:
                ss = "strlen(%s)" % vsym
                self.names.setdefault(ss, "strlen(%s)" % var.get("name"))
                s.each(lambda d: (d.forget(ss), d.ensure(ss), d.add_lower(ss, min(lens)), d.add_upper(ss, max(lens))))
            elif is_int_type(var.get("type", "")) or self.env.enum_range(var.get("type", "")):
                self.assign(s, vsym, None, unknown=True)
            elif is_container_type(var.get("type", "").replace("&", "").strip()):
                self.havoc_len(s, "len(%s)" % vsym, max_len_of(var.get("type", "")))
            return s
        body = n.get("body")

        def step(inv):
            r = self.exec(body, bind(inv.copy()))
            return join_all([r.normal] + r.cont)
        inv = self._iterate(st, step)
        r = self.exec(body, bind(inv.copy()))
        out = join_all([inv] + r.brk + [r.normal] + r.cont)
        if self.record:
            mod = self.modified_in(body) if isinstance(body, dict) else set()
            what = "range-for over %s" % describe(rng)
            if rpath is not None and ("len(" + rpath + ")") in mod:
                self.ob("term", n, False, "%s: the container is modified inside the loop" % what, "term|%s|rangefor|%s" % (self.fn.name.split("::")[-1], describe(rng)))
            else:
                self.ob("term", n, True, "%s: a finite container that the body does not modify" % what, "term|%s|rangefor|%s" % (self.fn.name.split("::")[-1], describe(rng)))
        self.forget_decls(out, [vdecl] + self.decls_in(body))
        return Flow(out, ret=r.ret)

    # ---- ranking functions
    def check_termination(self, n, kind, entry, t, backs, ghosts, mod):
        key = "term|%s|%s@%s" % (self.fn.name.split("::")[-1], kind, self._loop_label(n))
        what = "%s loop (%s)" % (kind, describe(n.get("cond"))[:70] if isinstance(n.get("cond"), dict) else "no condition")
        bd = [d for b in backs for d in b.dbms()]
        if not bd:
            self.ob("term", n, True, "%s: no path returns to the loop head" % what, key)
            return
        idiom = self._iterator_idiom(n, kind)
        cands = []
        for s, g in ghosts.items():
            if all(d.has(s) and d.has(g) for d in bd):
                cands.append((s, g))
        tds = t.dbms() if t is not None else bd

        def progress(d, s, g, up):
            v = d.get(g, s) if up else d.get(s, g)   # up: g - s <= -1  <=> s >= g + 1
            return ("strict" if v <= -1 else "weak" if v <= 0 else None)

        def nonincreasing(u, up):
            """bound symbol u must not move the wrong way on any back edge"""
            if u == Z or u not in mod:
                return True
            gu = ghosts.get(u)
            if gu is None:
                return False
            return all((d.get(u, gu) <= 0) if up else (d.get(gu, u) <= 0) for d in bd)

        def bounded(s, up):
            """a bound u for s that holds whenever the loop continues; returns u or None"""
            best = None
            for u in [Z] + [x for x in (tds[0].syms() if tds else [])]:
                if u == s or u.startswith("g0["):
                    continue
                if all(((d.get(s, u) if up else d.get(u, s)) != INF) for d in tds) and nonincreasing(u, up):
                    if u == Z:
                        return Z
                    best = best or u
            return best

        ranks = []
        for s, g in cands:
            for up in (True, False):
                u = bounded(s, up)
                if u is None:
                    continue
                pr = [progress(d, s, g, up) for d in bd]
                ranks.append((s, g, up, u, pr))
        chosen = None
        for r in ranks:
            if all(p == "strict" for p in r[4]):
                chosen = [r]
                break
        if chosen is None:
            for r1 in ranks:
                if not all(p is not None for p in r1[4]):
                    continue
                for r2 in ranks:
                    if r2[0] == r1[0]:
                        continue
                    if all(p1 == "strict" or (p1 == "weak" and p2 == "strict") for p1, p2 in zip(r1[4], r2[4])):
                        chosen = [r1, r2]
                        break
                if chosen:
                    break
        if chosen is None:
            if idiom:
                self.ob("term", n, True, "%s: %s" % (what, idiom), key)
                return
            if not cands:
                self.ob("term", n, None, "%s: the loop writes no integer or container length the analysis tracks; no ranking function can be formed" % what, key)
                return
            tried = ", ".join(sorted({self.names.get(s, s) for s, _ in cands}))
            if any(s in d.unk for s, _ in cands for d in bd):
                self.ob("term", n, None, "%s: progress of {%s} depends on a value the analysis does not model; no ranking function can be formed" % (what, tried), key)
                return
            # a definite verdict needs a definite witness: a path back to the loop head on which every tracked quantity is provably
            # unchanged (the iteration repeats itself). Weak progress (x' >= x without x' > x) is only "not proved": the equal case
            # may be excluded by a fact outside the domain (a character test on the text, say)
            if os.environ.get("VERIF_ZONE_DEBUG"):
                for b in backs:
                    for key_, d in b.parts.items():
                        if not d.bottom:
                            print("ZDBG", self.fn.name.split("::")[-1], self._loop_label(n), sorted(key_)[:6], {self.names.get(s, s): (d.get(g, s), d.get(s, g)) for s, g in cands})
            stuck = [d for d in bd if all(d.get(g, s) <= 0 and d.get(s, g) <= 0 for s, g in cands)]
            if stuck:
                self.ob("term", n, False, "%s: no ranking function — on a path back to the loop head none of {%s} changes at all: the iteration repeats itself" % (what, tried), key)
            else:
                self.ob("term", n, None, "%s: no ranking function found — none of {%s} is proved to make bounded strict progress on every path back to the loop head (some only weakly: x' >= x)" % (what, tried), key)
            return
        desc = " then ".join("%s %s bounded by %s" % (self.names.get(r[0], r[0]), "increases" if r[2] else "decreases", "0" if r[3] == Z else self.names.get(r[3], r[3])) for r in chosen)
        self.ob("term", n, True, "%s: ranking function %s" % (what, desc), key)
        # trip count must not be governed by an unbounded parsed integer
        s, g, up, u, _ = chosen[0]
        worst = None
        for d in tds:
            if not d.has(s):
                continue
            q = (Lin.sym(u) if u != Z else Lin.const(0)).add(Lin.sym(s), -1) if up else Lin.sym(s).add(Lin.sym(u) if u != Z else Lin.const(0), -1)
            if not all(d.has(x) for x in q.syms()):
                continue
            tn = lin_taint(d, q) if any(x in d.taint for x in q.syms()) else None
            if tn is not None:
                worst = tn if worst is None else max(worst, tn)
        if worst is not None:
            ok = worst <= ALLOC_LIMIT
            self.ob("loopbd", n, ok, "%s: trip count is derived from a parsed integer and bounded by %s%s" % (what, worst, "" if ok else " (unbounded: the loop can run 2^31 times)"),
                    "loopbd|%s|%s@%s" % (self.fn.name.split("::")[-1], kind, self._loop_label(n)))

    def _loop_label(self, n):
        """position-independent label: ordinal of the loop among the loops of its function"""
        loops = [x for x in sorted(self.fn.all_nodes(), key=lambda x: x["id"]) if x.get("k") in ("while", "for", "do")]
        for i, x in enumerate(loops):
            if x["id"] == n["id"]:
                return "#%d" % (i + 1)
        return "#?"

    def _iterator_idiom(self, n, kind):
        cond = skip_copies(n.get("cond")) if isinstance(n.get("cond"), dict) else None
        if cond is None:
            return None
        # while (it.hasNext()) { ... it.next() ... }
        if cond.get("k") == "call" and (cond.get("callee") or "").endswith("hasNext"):
            o = self.lvalue_path(cond.get("obj"))
            body = n.get("body")
            if o and isinstance(body, dict) and body.get("k") == "compound":
                for s in body.get("body", []):
                    for x in walk(s):
                        if x.get("k") == "call" and (x.get("callee") or "").split("::")[-1] in ("next", "previous") and self.lvalue_path(x.get("obj")) == o:
                            return "Qt iterator idiom: hasNext()/next() on every iteration"
                    if s.get("k") in ("if", "while", "for", "do", "switch"):
                        break
        # it = c.begin(); end = c.end(); while (it != end) { ...; ++it; }
        if kind == "while" and (cond.get("k") in ("binop", "call")) and cond.get("op") == "!=":
            ops = [cond.get("lhs"), cond.get("rhs")] if cond.get("k") == "binop" else cond.get("args", [])
            if len(ops) == 2:
                from .util import deref_local
                endc = skip_copies(deref_local(self.fn, ops[1]))
                itp = self.lvalue_path(ops[0])
                if isinstance(endc, dict) and endc.get("k") == "call" and (endc.get("callee") or "").split("::")[-1] in ("end", "cend", "constEnd", "rend", "crend") and itp:
                    cont = self.lvalue_path(endc.get("obj"))
                    body = n.get("body") or {}
                    incs = [x for x in walk(body) if (x.get("k") == "unop" and x.get("op") == "++" and self.lvalue_path(x.get("e")) == itp)
                            or (x.get("k") == "call" and x.get("op") == "++" and x.get("args") and self.lvalue_path(x["args"][0]) == itp)]
                    # the step is a top-level statement of the body (executed on every iteration that does not leave the loop)
                    top = body.get("body", []) if body.get("k") == "compound" else [body]
                    stepped = any(any(y.get("id") == i_.get("id") for y in walk(t_)) and t_.get("k") not in ("if", "while", "for", "do", "switch") for t_ in top for i_ in incs)
                    no_cont = not any(x.get("k") == "continue" for x in walk(body))
                    if cont and stepped and no_cont and ("len(" + cont + ")") not in self.modified_in(body):
                        return "iterator idiom: begin()..end() of a container the body does not modify, stepped once per iteration"
        # for (it = c.begin(); it != c.end(); ++it)
        if kind == "for" and (cond.get("k") == "binop" or cond.get("k") == "call") and cond.get("op") == "!=":
            inc = skip_copies(n.get("inc")) if isinstance(n.get("inc"), dict) else None
            ops = [cond.get("lhs"), cond.get("rhs")] if cond.get("k") == "binop" else cond.get("args", [])
            if inc is not None and len(ops) == 2:
                from .util import deref_local
                endc = skip_copies(deref_local(self.fn, ops[1]))      # the end iterator may be hoisted into a local
                if isinstance(endc, dict) and endc.get("k") == "call" and (endc.get("callee") or "").split("::")[-1] in ("end", "cend", "constEnd", "rend", "crend"):
                    cont = self.lvalue_path(endc.get("obj"))
                    itp = self.lvalue_path(ops[0])
                    incs = inc.get("e") if inc.get("k") == "unop" else (inc.get("args") or [None])[0]
                    if cont and itp and inc.get("op") == "++" and self.lvalue_path(incs) == itp and ("len(" + cont + ")") not in self.modified_in(n.get("body") or {}):
                        return "iterator idiom: begin()..end() of a container the body does not modify"
        return None


# ====================================================================== analysis context and driver

class Env:
    def __init__(self, facts):
        self.F = facts
        self.obligations = []
        self.notes = set()
        self.field_inv = {}          # field qname -> (upper, taint) from the previous round
        self.param_inv = {}          # param decl -> (upper, taint)
        self.ret = {}                # fn id -> (upper, taint, lower)
        self.accumulators = {}       # fn id -> {sym: {ok, max}}
        self.fields_seen_unanalysed = set()
        self._fw, self._pw, self._rw, self.acc_events = {}, {}, {}, {}
        self.fields_read = set()
        self.analysed = set()
        self.inlined = set()
        self.open_fns = set()        # functions with callers outside the analysed set (their parameters are unconstrained)
        self.not_inlined = set()     # helpers with at least one call site that was not analysed in context
        self.root_ids = set()
        self.param_owner = {}
        self._enum_cache = {}

    def enum_range(self, t):
        t = (t or "").replace("const ", "").replace("enum ", "").replace("&", "").strip()
        if not t or t in self._enum_cache:
            return self._enum_cache.get(t)
        r = None
        for name, e in self.F.enums.items():
            if name == t or name.endswith("::" + t) or t.endswith("::" + name):
                vals = [x["value"] for x in e.get("enumerators", [])]
                if vals:
                    r = (min(vals), max(vals))
                break
        self._enum_cache[t] = r
        return r

    def begin_round(self):
        self._fw, self._pw, self._rw, self.acc_events = {}, {}, {}, {}
        self.obligations = []

    @staticmethod
    def _merge(tab, key, up, tn):
        if key in tab:
            u0, t0 = tab[key]
            up = max(u0, up)
            tn = t0 if tn is None else tn if t0 is None else max(t0, tn)
        tab[key] = (up, tn)

    def record_field_write(self, q, up, tn, fn):
        self._merge(self._fw, q, up, tn)

    def record_call_args(self, interp, n, st):
        fid = n.get("fn")
        f = self.F.fns.get(fid)
        if f is None:
            return
        targets = [f]
        if n.get("virtual"):
            targets += [self.F.fns[o] for o in self.F.overriders.get(fid, ()) if o in self.F.fns]
        args = n.get("args", [])
        for tf in targets:
            for p, a in zip(tf.params, args):
                if not (is_int_type(p.get("type", "")) or self.enum_range(p.get("type", ""))):
                    continue
                s2 = st.copy()
                v = interp.eval(a, s2)
                up, tn = -INF, None
                for d in s2.dbms():
                    if v is None:
                        up = INF
                        continue
                    up = max(up, lin_upper(d, v))
                    t = lin_taint(d, v)
                    if t is not None:
                        tn = t if tn is None else max(tn, t)
                self._merge(self._pw, p["decl"], up, tn)

    def return_summary(self, interp, n):
        fid = n.get("fn")
        if fid not in self.F.fns and not (n.get("virtual") and self.F.overriders.get(fid)):
            return None
        targets = [fid] if fid in self.F.fns and self.F.fns[fid].body else []
        if n.get("virtual"):
            targets += [o for o in self.F.overriders.get(fid, ()) if o in self.F.fns and self.F.fns[o].body]
        if not targets:
            return None
        up, tn, lo = -INF, None, INF
        for t in targets:
            r = self.ret.get(t)
            if r is None:
                if t not in self.analysed:
                    self.notes.add("call of %s: callee is outside the analysed set, its result is unknown" % self.F.fns[t].sig)
                return None if t not in self.analysed else (INF, None, -INF)
            up = max(up, r[0])
            lo = min(lo, r[2])
            if r[1] is not None:
                tn = r[1] if tn is None else max(tn, r[1])
        return up, tn, lo

    def end_round(self):
        """tables for the next round; returns True when nothing changed"""
        new_field = dict(self._fw)
        for rec in self.F.records.values():
            for fld in rec.get("fields", []):
                if is_int_type(fld.get("type", "")) and isinstance(fld.get("init"), dict):
                    v = const_int(fld["init"])
                    q = strip_tmpl(rec["name"] + "::" + fld["name"])
                    if q in new_field or True:
                        if v is not None:
                            self._merge(new_field, q, v, None)
                        else:
                            self._merge(new_field, q, INF, None)
        for pd in list(self._pw):
            if self.param_owner.get(pd) in self.open_fns:
                self._pw[pd] = (INF, self._pw[pd][1])
        stable = (new_field == self.field_inv and self._pw == self.param_inv and self._rw == self.ret)
        self.field_inv, self.param_inv, self.ret = new_field, dict(self._pw), dict(self._rw)
        self.accumulators = {f: dict(v) for f, v in self.acc_events.items()}
        return stable


def _ctor_inits(interp, fn, st):
    for i in fn.inits:
        m = i.get("member")
        e = i.get("e")
        if not m or not isinstance(e, dict):
            continue
        fld = None
        for rec in interp.F.records.values():
            if fn.cls and strip_tmpl(rec["name"]) == strip_tmpl(fn.cls):
                for f in rec.get("fields", []):
                    if f["name"] == m.split("::")[-1]:
                        fld = f
        if fld is None or not is_int_type(fld.get("type", "")):
            interp.eval(e, st)
            continue
        v = interp.eval(e, st)
        up, tn = -INF, None
        for d in st.dbms():
            if v is None:
                up = INF
                continue
            up = max(up, lin_upper(d, v))
            t = lin_taint(d, v)
            if t is not None:
                tn = t if tn is None else max(tn, t)
        q = strip_tmpl((fn.cls or "") + "::" + m.split("::")[-1])
        interp.env.record_field_write(q, up, tn, fn)
    interp.drop_temps(st)


def analyse(facts, fns, max_rounds=6, roots=()):
    """runs the interpreter over `fns` until the field / parameter / return invariants are stable, then once more
    recording obligations. Returns the Env."""
    env = Env(facts)
    env.analysed = {f.id for f in fns}
    order = sorted(fns, key=lambda f: (f.file, f.line, f.sig))
    rootids = {f.id for f in roots}
    env.root_ids = set(rootids)
    # a function is closed when every call site that can reach it lies in an analysed function
    callers = {}
    for g in facts.fns.values():
        for n in g.all_nodes():
            if n.get("k") in ("call", "construct") and n.get("fn"):
                tg = {n["fn"]}
                if n.get("virtual"):
                    tg |= facts.overriders.get(n["fn"], set())
                for t in tg:
                    callers.setdefault(t, set()).add(g.id)
            elif n.get("k") == "ref" and n.get("dk") == "func" and n.get("fn"):
                callers.setdefault(n["fn"], set()).add("<address taken in %s>" % g.id)
    for f in fns:
        for p in f.params:
            env.param_owner[p["decl"]] = f.id
        cs = callers.get(f.id, set())
        if f.id in rootids or not cs or not cs <= env.analysed:
            env.open_fns.add(f.id)

    def run(f, record):
        it = Interp(facts, f, env)
        it.record = record
        st = St()
        _ctor_inits(it, f, st)
        return it.exec(f.body, st)

    def one_round():
        env.begin_round()
        for f in order:
            if f.body is None:
                continue
            fl = run(f, False)
            up, tn, lo = -INF, None, INF
            for rs, rv in fl.ret:
                for d in rs.dbms():
                    if rv is None:
                        up, lo = INF, -INF
                        continue
                    up = max(up, lin_upper(d, rv))
                    lo = min(lo, lin_lower(d, rv))
                    t = lin_taint(d, rv)
                    if t is not None:
                        tn = t if tn is None else max(tn, t)
            if up == -INF:
                up, lo = INF, -INF
            env._rw[f.id] = (up, tn, lo)
        return env.end_round()

    for r in range(max_rounds):
        if one_round():
            break
    else:
        raise AnalysisBroken("field/parameter invariants did not stabilise in %d rounds" % max_rounds)
    # recording round with the stable tables (tables are inputs only)
    saved = (dict(env.field_inv), dict(env.param_inv), dict(env.ret), {f: dict(v) for f, v in env.accumulators.items()})
    inlined = set(env.inlined)
    env.begin_round()
    env.skipped_inlined = []
    for f in order:
        if f.body is None:
            continue
        if f.id in inlined and (f.lambda_of or (f.id not in env.not_inlined and f.id not in env.open_fns)):
            env.skipped_inlined.append(f.sig)   # analysed in the context of each call site instead
            continue
        run(f, True)
    obs = env.obligations
    env.field_inv, env.param_inv, env.ret, env.accumulators = saved
    env.obligations = obs
    return env


def analyse_scope(facts, roots, extra=()):
    """closure of the analysed set: everything reachable from the roots, plus every function that writes an integer field
    the analysed code relies on (a field invariant is only sound if all its writers were seen)"""
    from .util import field_writes
    ids = facts.reachable_from(roots)
    fns = {i: facts.fns[i] for i in ids if i in facts.fns and facts.fns[i].body is not None}
    for f in extra:
        fns[f.id] = f
    added = []
    for _ in range(4):
        env = analyse(facts, list(fns.values()), roots=roots)
        missing = {}
        for q in sorted(env.fields_read):
            for wf, _, _ in field_writes(facts, q):
                if wf.id not in fns and wf.body is not None:
                    missing[wf.id] = wf
        if not missing:
            env.scope_added = added
            env.scope = sorted(f.sig for f in fns.values())
            return env
        for i, f in missing.items():
            fns[i] = f
            added.append(f.sig)
    raise AnalysisBroken("writer closure of the analysed set did not stabilise")
