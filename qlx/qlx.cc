// qlx - fact extractor for the qtlogger static checks (libTooling, clang 14).
//
// For one translation unit it writes a JSON file describing every function *defined in a file
// under --root* (including template instantiations and lambdas): a normalised statement /
// expression tree with resolved callees and field identities, clang's CFG (all sub-expressions,
// implicit destructors, constructor initialisers), plus class, global and enum facts.
// Nothing is matched by spelling here; rules live in /verif/engine (python).

#include "clang/AST/ASTConsumer.h"
#include "clang/AST/ASTContext.h"
#include "clang/AST/Attr.h"
#include "clang/AST/DeclCXX.h"
#include "clang/AST/DeclTemplate.h"
#include "clang/AST/ExprCXX.h"
#include "clang/AST/RecursiveASTVisitor.h"
#include "clang/AST/StmtCXX.h"
#include "clang/Analysis/CFG.h"
#include "clang/Basic/SourceManager.h"
#include "clang/Frontend/CompilerInstance.h"
#include "clang/Frontend/FrontendAction.h"
#include "clang/Index/USRGeneration.h"
#include "clang/Tooling/CommonOptionsParser.h"
#include "clang/Tooling/Tooling.h"
#include "llvm/Support/CommandLine.h"
#include "llvm/Support/JSON.h"
#include "llvm/Support/raw_ostream.h"

#include <map>
#include <set>
#include <string>

using namespace clang;
using namespace clang::tooling;
namespace json = llvm::json;

static llvm::cl::OptionCategory Cat("qlx options");
static llvm::cl::opt<std::string> Root("root", llvm::cl::desc("source root; only code defined under it is dumped"),
                                       llvm::cl::init("/repo/"), llvm::cl::cat(Cat));
static llvm::cl::opt<std::string> Out("out", llvm::cl::desc("output json"), llvm::cl::Required, llvm::cl::cat(Cat));
static llvm::cl::list<std::string> ExtraEnums("enum", llvm::cl::desc("also dump this enum (qualified name) wherever it is defined"),
                                              llvm::cl::cat(Cat));

namespace {

struct DiagCollector : public DiagnosticConsumer {
    json::Array diags;
    void HandleDiagnostic(DiagnosticsEngine::Level L, const Diagnostic &Info) override {
        DiagnosticConsumer::HandleDiagnostic(L, Info);
        if (L < DiagnosticsEngine::Error)
            return;
        llvm::SmallString<256> msg;
        Info.FormatDiagnostic(msg);
        std::string file;
        unsigned line = 0;
        if (Info.hasSourceManager() && Info.getLocation().isValid()) {
            auto &SM = Info.getSourceManager();
            auto P = SM.getPresumedLoc(SM.getExpansionLoc(Info.getLocation()));
            if (P.isValid()) {
                file = P.getFilename();
                line = P.getLine();
            }
        }
        diags.push_back(json::Object{{"level", L == DiagnosticsEngine::Fatal ? "fatal" : "error"},
                                     {"msg", std::string(msg.str())},
                                     {"file", file},
                                     {"line", (int64_t)line}});
    }
};

class Dumper {
public:
    Dumper(ASTContext &C) : Ctx(C), SM(C.getSourceManager()), PP(C.getLangOpts()) {
        PP.SuppressTagKeyword = true;
        PP.FullyQualifiedName = true;
        PP.Bool = true;
        PP.SuppressUnwrittenScope = false;
        PP.TerseOutput = true;
        PP.PolishForDeclaration = true;
    }

    ASTContext &Ctx;
    SourceManager &SM;
    PrintingPolicy PP;

    // per function state
    std::map<const Stmt *, int> ids;
    int nextId = 0;
    std::vector<const FunctionDecl *> pendingLambdas;

    std::string fileOf(SourceLocation L) const {
        if (L.isInvalid())
            return "";
        auto P = SM.getPresumedLoc(SM.getExpansionLoc(L));
        return P.isValid() ? std::string(P.getFilename()) : std::string();
    }
    int lineOf(SourceLocation L) const {
        if (L.isInvalid())
            return 0;
        auto P = SM.getPresumedLoc(SM.getExpansionLoc(L));
        return P.isValid() ? (int)P.getLine() : 0;
    }
    int colOf(SourceLocation L) const {
        if (L.isInvalid())
            return 0;
        auto P = SM.getPresumedLoc(SM.getExpansionLoc(L));
        return P.isValid() ? (int)P.getColumn() : 0;
    }
    bool inRoot(SourceLocation L) const {
        std::string f = fileOf(L);
        return !f.empty() && llvm::StringRef(f).startswith(Root);
    }

    std::string typeStr(QualType T) const {
        if (T.isNull())
            return "";
        return T.getCanonicalType().getAsString(PP);
    }
    std::string qname(const NamedDecl *D) const {
        if (!D)
            return "";
        std::string s;
        llvm::raw_string_ostream os(s);
        D->printQualifiedName(os, PP);
        os.flush();
        return s;
    }
    std::string usr(const Decl *D) const {
        if (!D)
            return "";
        llvm::SmallString<128> buf;
        if (!index::generateUSRForDecl(D, buf))
            return std::string(buf.str());
        // fallback: location based
        std::string s = "loc:" + fileOf(D->getLocation()) + ":" + std::to_string(lineOf(D->getLocation())) + ":" +
                std::to_string(colOf(D->getLocation()));
        if (auto ND = dyn_cast<NamedDecl>(D))
            s += ":" + ND->getNameAsString();
        return s;
    }
    // unique id for a function *including* its template arguments (USR does that)
    std::string fnId(const FunctionDecl *FD) const {
        std::string u = usr(FD);
        // USRs of closure call operators inside a template instantiation collide: disambiguate by location
        if (auto MD = dyn_cast_or_null<CXXMethodDecl>(FD))
            if (MD->getParent()->isLambda())
                u += "@lambda@" + std::to_string(lineOf(MD->getParent()->getLocation())) + ":" + std::to_string(colOf(MD->getParent()->getLocation()));
        return u;
    }

    std::string sig(const FunctionDecl *FD) const {
        std::string s = qname(FD) + "(";
        bool first = true;
        for (auto P : FD->parameters()) {
            if (!first)
                s += ", ";
            first = false;
            s += typeStr(P->getType());
        }
        s += ")";
        if (auto MD = dyn_cast<CXXMethodDecl>(FD))
            if (MD->isConst())
                s += " const";
        return s;
    }

    static const Stmt *strip(const Stmt *S) {
        while (S) {
            if (auto E = dyn_cast<ImplicitCastExpr>(S)) {
                S = E->getSubExpr();
            } else if (auto E = dyn_cast<ParenExpr>(S)) {
                S = E->getSubExpr();
            } else if (auto E = dyn_cast<FullExpr>(S)) { // ExprWithCleanups, ConstantExpr
                S = E->getSubExpr();
            } else if (auto E = dyn_cast<MaterializeTemporaryExpr>(S)) {
                S = E->getSubExpr();
            } else if (auto E = dyn_cast<CXXBindTemporaryExpr>(S)) {
                S = E->getSubExpr();
            } else if (auto E = dyn_cast<SubstNonTypeTemplateParmExpr>(S)) {
                S = E->getReplacement();
            } else if (auto E = dyn_cast<CXXStdInitializerListExpr>(S)) {
                S = E->getSubExpr();
            } else {
                break;
            }
        }
        return S;
    }

    int idFor(const Stmt *orig, const Stmt *inner) {
        int id = nextId++;
        // every wrapper between orig and inner maps to the same id
        const Stmt *S = orig;
        while (S) {
            ids[S] = id;
            if (S == inner)
                break;
            const Stmt *N = nullptr;
            if (auto E = dyn_cast<ImplicitCastExpr>(S))
                N = E->getSubExpr();
            else if (auto E = dyn_cast<ParenExpr>(S))
                N = E->getSubExpr();
            else if (auto E = dyn_cast<FullExpr>(S))
                N = E->getSubExpr();
            else if (auto E = dyn_cast<MaterializeTemporaryExpr>(S))
                N = E->getSubExpr();
            else if (auto E = dyn_cast<CXXBindTemporaryExpr>(S))
                N = E->getSubExpr();
            else if (auto E = dyn_cast<SubstNonTypeTemplateParmExpr>(S))
                N = E->getReplacement();
            else if (auto E = dyn_cast<CXXStdInitializerListExpr>(S))
                N = E->getSubExpr();
            S = N;
        }
        return id;
    }

    static std::string utf8FromStringLiteral(const StringLiteral *SL) {
        std::string out;
        if (SL->getCharByteWidth() == 1) {
            return SL->getBytes().str();
        }
        for (unsigned i = 0; i < SL->getLength(); i++) {
            uint32_t c = SL->getCodeUnit(i);
            if (SL->getCharByteWidth() == 2 && c >= 0xD800 && c < 0xDC00 && i + 1 < SL->getLength()) {
                uint32_t d = SL->getCodeUnit(i + 1);
                if (d >= 0xDC00 && d < 0xE000) {
                    c = 0x10000 + ((c - 0xD800) << 10) + (d - 0xDC00);
                    i++;
                }
            }
            if (c < 0x80)
                out += (char)c;
            else if (c < 0x800) {
                out += (char)(0xC0 | (c >> 6));
                out += (char)(0x80 | (c & 0x3F));
            } else if (c < 0x10000) {
                out += (char)(0xE0 | (c >> 12));
                out += (char)(0x80 | ((c >> 6) & 0x3F));
                out += (char)(0x80 | (c & 0x3F));
            } else {
                out += (char)(0xF0 | (c >> 18));
                out += (char)(0x80 | ((c >> 12) & 0x3F));
                out += (char)(0x80 | ((c >> 6) & 0x3F));
                out += (char)(0x80 | (c & 0x3F));
            }
        }
        return out;
    }

    // a byte string that may not be valid UTF-8 is emitted as a list of ints as well
    static json::Value strValue(const std::string &s, json::Object &o) {
        if (json::isUTF8(s))
            return s;
        json::Array a;
        for (unsigned char c : s)
            a.push_back((int64_t)c);
        o["bytes"] = std::move(a);
        return json::fixUTF8(s);
    }

    const StringLiteral *findQStringLiteral(const LambdaExpr *LE) {
        // QStringLiteral("x") == [](){ ...static const QStaticStringData<N> qstring_literal = {hdr, u"x"}; ...}()
        const CompoundStmt *B = LE->getCompoundStmtBody();
        if (!B)
            return nullptr;
        for (auto S : B->body()) {
            auto DS = dyn_cast<DeclStmt>(S);
            if (!DS)
                continue;
            for (auto D : DS->decls()) {
                auto VD = dyn_cast<VarDecl>(D);
                if (!VD || !VD->isStaticLocal() || !VD->hasInit())
                    continue;
                std::string t = typeStr(VD->getType());
                if (t.find("QStaticStringData<") == std::string::npos)
                    continue;
                // find the string literal in the initialiser
                std::vector<const Stmt *> st{VD->getInit()};
                while (!st.empty()) {
                    const Stmt *X = st.back();
                    st.pop_back();
                    if (!X)
                        continue;
                    if (auto SL = dyn_cast<StringLiteral>(X))
                        return SL;
                    for (auto C : X->children())
                        st.push_back(C);
                }
            }
        }
        return nullptr;
    }

    json::Value refDecl(const ValueDecl *D) {
        json::Object o;
        o["name"] = qname(D);
        o["decl"] = usr(D);
        o["type"] = typeStr(D->getType());
        if (auto EC = dyn_cast<EnumConstantDecl>(D)) {
            o["dk"] = "enumconst";
            o["value"] = (int64_t)EC->getInitVal().getExtValue();
            if (auto ED = dyn_cast<EnumDecl>(EC->getDeclContext()))
                o["enum"] = qname(ED);
        } else if (isa<ParmVarDecl>(D)) {
            o["dk"] = "param";
        } else if (auto VD = dyn_cast<VarDecl>(D)) {
            o["dk"] = VD->isLocalVarDecl() ? (VD->isStaticLocal() ? "staticlocal" : "local")
                                             : (VD->isStaticDataMember() ? "staticmember" : "global");
            if (VD->getType().isConstQualified() || VD->isConstexpr()) {
                // constant integer value if known
                if (VD->getType()->isIntegralOrEnumerationType()) {
                    if (const APValue *V = VD->evaluateValue())
                        if (V->isInt())
                            o["value"] = (int64_t)V->getInt().getExtValue();
                }
            }
        } else if (isa<FieldDecl>(D)) {
            o["dk"] = "field";
        } else if (isa<FunctionDecl>(D)) {
            o["dk"] = "func";
            o["fn"] = fnId(cast<FunctionDecl>(D));
            o["sig"] = sig(cast<FunctionDecl>(D));
        } else if (isa<BindingDecl>(D)) {
            o["dk"] = "binding";
        } else {
            o["dk"] = "other";
        }
        return std::move(o);
    }

    json::Value dumpOpt(const Stmt *S) {
        if (!S)
            return nullptr;
        return dump(S);
    }

    json::Value dump(const Stmt *Orig) {
        if (!Orig)
            return nullptr;
        const Stmt *S = strip(Orig);
        if (!S)
            return nullptr;
        json::Object o;
        int id = idFor(Orig, S);
        o["id"] = id;
        o["l"] = lineOf(S->getBeginLoc());
        o["c"] = colOf(S->getBeginLoc());
        if (auto E = dyn_cast<Expr>(S)) {
            o["type"] = typeStr(E->getType());
            // constant folding of integer / enum expressions that are not plain literals
            if (!E->isValueDependent() && E->getType()->isIntegralOrEnumerationType() && !isa<IntegerLiteral>(E)) {
                Expr::EvalResult R;
                if (E->EvaluateAsInt(R, Ctx, Expr::SE_NoSideEffects))
                    o["cv"] = (int64_t)R.Val.getInt().getExtValue();
            } else if (!E->isValueDependent() && E->getType()->isRecordType()) {
                // QFlags<...> values: a class with one int member, constexpr operators
                std::string t = typeStr(E->getType());
                if (t.rfind("QFlags<", 0) == 0 || t.rfind("const QFlags<", 0) == 0) {
                    Expr::EvalResult R;
                    if (E->EvaluateAsRValue(R, Ctx) && R.Val.isStruct() && R.Val.getStructNumFields() == 1 &&
                        R.Val.getStructField(0).isInt())
                        o["cv"] = (int64_t)R.Val.getStructField(0).getInt().getExtValue();
                }
            }
        }

        // ---- statements
        if (auto X = dyn_cast<CompoundStmt>(S)) {
            o["k"] = "compound";
            json::Array a;
            for (auto C : X->body())
                a.push_back(dump(C));
            o["body"] = std::move(a);
        } else if (auto X = dyn_cast<IfStmt>(S)) {
            o["k"] = "if";
            o["init"] = dumpOpt(X->getInit());
            if (X->getConditionVariableDeclStmt())
                o["condvar"] = dump(X->getConditionVariableDeclStmt());
            o["cond"] = dumpOpt(X->getCond());
            o["then"] = dumpOpt(X->getThen());
            o["else"] = dumpOpt(X->getElse());
            if (X->isConstexpr())
                o["constexpr"] = true;
        } else if (auto X = dyn_cast<ForStmt>(S)) {
            o["k"] = "for";
            o["init"] = dumpOpt(X->getInit());
            o["cond"] = dumpOpt(X->getCond());
            o["inc"] = dumpOpt(X->getInc());
            o["body"] = dumpOpt(X->getBody());
        } else if (auto X = dyn_cast<CXXForRangeStmt>(S)) {
            o["k"] = "rangefor";
            o["var"] = json::Object{{"decl", usr(X->getLoopVariable())},
                                    {"name", X->getLoopVariable()->getNameAsString()},
                                    {"type", typeStr(X->getLoopVariable()->getType())}};
            o["range"] = dumpOpt(X->getRangeInit());
            json::Object d;
            d["rangeStmt"] = dumpOpt(X->getRangeStmt());
            d["beginStmt"] = dumpOpt(X->getBeginStmt());
            d["endStmt"] = dumpOpt(X->getEndStmt());
            d["cond"] = dumpOpt(X->getCond());
            d["inc"] = dumpOpt(X->getInc());
            d["loopVarStmt"] = dumpOpt(X->getLoopVarStmt());
            o["desugar"] = std::move(d);
            o["body"] = dumpOpt(X->getBody());
        } else if (auto X = dyn_cast<WhileStmt>(S)) {
            o["k"] = "while";
            o["cond"] = dumpOpt(X->getCond());
            o["body"] = dumpOpt(X->getBody());
        } else if (auto X = dyn_cast<DoStmt>(S)) {
            o["k"] = "do";
            o["body"] = dumpOpt(X->getBody());
            o["cond"] = dumpOpt(X->getCond());
        } else if (auto X = dyn_cast<SwitchStmt>(S)) {
            o["k"] = "switch";
            o["init"] = dumpOpt(X->getInit());
            o["cond"] = dumpOpt(X->getCond());
            o["body"] = dumpOpt(X->getBody());
            o["allEnumCasesCovered"] = X->isAllEnumCasesCovered();
        } else if (auto X = dyn_cast<CaseStmt>(S)) {
            o["k"] = "case";
            o["val"] = dumpOpt(X->getLHS());
            if (X->getRHS())
                o["rhs"] = dumpOpt(X->getRHS());
            o["sub"] = dumpOpt(X->getSubStmt());
        } else if (auto X = dyn_cast<DefaultStmt>(S)) {
            o["k"] = "default";
            o["sub"] = dumpOpt(X->getSubStmt());
        } else if (auto X = dyn_cast<ReturnStmt>(S)) {
            o["k"] = "return";
            o["e"] = dumpOpt(X->getRetValue());
        } else if (isa<BreakStmt>(S)) {
            o["k"] = "break";
        } else if (isa<ContinueStmt>(S)) {
            o["k"] = "continue";
        } else if (isa<NullStmt>(S)) {
            o["k"] = "null";
        } else if (auto X = dyn_cast<GotoStmt>(S)) {
            o["k"] = "goto";
            o["label"] = X->getLabel()->getNameAsString();
        } else if (auto X = dyn_cast<LabelStmt>(S)) {
            o["k"] = "label";
            o["label"] = X->getDecl()->getNameAsString();
            o["sub"] = dumpOpt(X->getSubStmt());
        } else if (auto X = dyn_cast<CXXTryStmt>(S)) {
            o["k"] = "try";
            o["body"] = dumpOpt(X->getTryBlock());
            json::Array a;
            for (unsigned i = 0; i < X->getNumHandlers(); i++)
                a.push_back(dumpOpt(X->getHandler(i)->getHandlerBlock()));
            o["handlers"] = std::move(a);
        } else if (auto X = dyn_cast<DeclStmt>(S)) {
            o["k"] = "decl";
            json::Array a;
            for (auto D : X->decls()) {
                json::Object v;
                if (auto VD = dyn_cast<VarDecl>(D)) {
                    v["decl"] = usr(VD);
                    v["name"] = VD->getNameAsString();
                    v["type"] = typeStr(VD->getType());
                    v["static"] = VD->isStaticLocal();
                    v["const"] = VD->getType().isConstQualified();
                    if (auto TSI = VD->getTypeSourceInfo())
                        v["auto"] = TSI->getType()->getContainedDeducedType() != nullptr;
                    v["init"] = dumpOpt(VD->getInit());
                } else if (auto ND = dyn_cast<NamedDecl>(D)) {
                    v["other"] = ND->getNameAsString();
                    v["declkind"] = D->getDeclKindName();
                } else {
                    v["declkind"] = D->getDeclKindName();
                }
                a.push_back(std::move(v));
            }
            o["vars"] = std::move(a);
        }
        // ---- expressions
        else if (auto X = dyn_cast<IntegerLiteral>(S)) {
            o["k"] = "int";
            o["v"] = (int64_t)X->getValue().getLimitedValue();
        } else if (auto X = dyn_cast<CharacterLiteral>(S)) {
            o["k"] = "char";
            o["v"] = (int64_t)X->getValue();
        } else if (auto X = dyn_cast<CXXBoolLiteralExpr>(S)) {
            o["k"] = "bool";
            o["v"] = X->getValue();
        } else if (isa<CXXNullPtrLiteralExpr>(S) || isa<GNUNullExpr>(S)) {
            o["k"] = "null_lit";
        } else if (auto X = dyn_cast<FloatingLiteral>(S)) {
            o["k"] = "float";
            o["v"] = X->getValueAsApproximateDouble();
        } else if (auto X = dyn_cast<StringLiteral>(S)) {
            o["k"] = "str";
            o["cw"] = (int64_t)X->getCharByteWidth();
            o["len"] = (int64_t)X->getLength();
            std::string s = utf8FromStringLiteral(X);
            o["v"] = strValue(s, o);
        } else if (isa<CXXThisExpr>(S)) {
            o["k"] = "this";
        } else if (auto X = dyn_cast<DeclRefExpr>(S)) {
            o["k"] = "ref";
            json::Value r = refDecl(X->getDecl());
            for (auto &kv : *r.getAsObject())
                o[kv.first] = std::move(kv.second);
        } else if (auto X = dyn_cast<MemberExpr>(S)) {
            o["k"] = "member";
            o["name"] = qname(X->getMemberDecl());
            o["decl"] = usr(X->getMemberDecl());
            o["arrow"] = X->isArrow();
            o["dk"] = isa<FieldDecl>(X->getMemberDecl()) ? "field" : (isa<CXXMethodDecl>(X->getMemberDecl()) ? "method" : "other");
            o["base"] = dumpOpt(X->getBase());
        } else if (auto X = dyn_cast<UnaryOperator>(S)) {
            o["k"] = "unop";
            o["op"] = UnaryOperator::getOpcodeStr(X->getOpcode()).str();
            o["postfix"] = X->isPostfix();
            o["e"] = dumpOpt(X->getSubExpr());
        } else if (auto X = dyn_cast<BinaryOperator>(S)) {
            o["k"] = "binop"; // includes CompoundAssignOperator
            o["op"] = X->getOpcodeStr().str();
            o["lhs"] = dumpOpt(X->getLHS());
            o["rhs"] = dumpOpt(X->getRHS());
        } else if (auto X = dyn_cast<ConditionalOperator>(S)) {
            o["k"] = "cond";
            o["cond"] = dumpOpt(X->getCond());
            o["t"] = dumpOpt(X->getTrueExpr());
            o["f"] = dumpOpt(X->getFalseExpr());
        } else if (auto X = dyn_cast<ArraySubscriptExpr>(S)) {
            o["k"] = "subscript";
            o["base"] = dumpOpt(X->getBase());
            o["idx"] = dumpOpt(X->getIdx());
        } else if (auto X = dyn_cast<LambdaExpr>(S)) {
            o["k"] = "lambda";
            auto CO = X->getCallOperator();
            o["fn"] = fnId(CO);
            json::Array caps;
            for (auto &C : X->captures()) {
                json::Object c;
                if (C.capturesThis())
                    c["this"] = true;
                else if (C.capturesVariable()) {
                    c["decl"] = usr(C.getCapturedVar());
                    c["name"] = C.getCapturedVar()->getNameAsString();
                }
                c["byref"] = C.getCaptureKind() == LCK_ByRef;
                caps.push_back(std::move(c));
            }
            o["captures"] = std::move(caps);
            json::Array inits;
            for (auto I : X->capture_inits())
                inits.push_back(dumpOpt(I));
            o["capture_inits"] = std::move(inits);
            if (CO && CO->hasBody() && !CO->isDependentContext())
                pendingLambdas.push_back(CO);
            // generic lambda ([](const auto &x){...}): the bodies live in the call operator's specialisations
            if (auto *FT = X->getLambdaClass() ? X->getLambdaClass()->getDependentLambdaCallOperator() : nullptr) {
                json::Array insts;
                for (auto *Spec : FT->specializations()) {
                    if (Spec->hasBody() && !Spec->isDependentContext()) {
                        pendingLambdas.push_back(Spec);
                        insts.push_back(fnId(Spec));
                    }
                }
                o["insts"] = std::move(insts);
            }
        } else if (auto X = dyn_cast<CXXOperatorCallExpr>(S)) {
            // QStringLiteral folding
            const LambdaExpr *LE = nullptr;
            if (X->getOperator() == OO_Call && X->getNumArgs() >= 1)
                LE = dyn_cast_or_null<LambdaExpr>(strip(X->getArg(0)));
            const StringLiteral *QSL = LE ? findQStringLiteral(LE) : nullptr;
            if (QSL) {
                o["k"] = "qstr";
                std::string s = utf8FromStringLiteral(QSL);
                o["v"] = strValue(s, o);
                o["len"] = (int64_t)QSL->getLength();
            } else {
                o["k"] = "call";
                o["ck"] = "operator";
                o["op"] = getOperatorSpelling(X->getOperator());
                fillCallee(o, X->getDirectCallee(), X->getCallee());
                json::Array a;
                for (auto A : X->arguments())
                    a.push_back(dumpOpt(A));
                o["args"] = std::move(a);
            }
        } else if (auto X = dyn_cast<CXXMemberCallExpr>(S)) {
            o["k"] = "call";
            o["ck"] = "member";
            auto MD = X->getMethodDecl();
            fillCallee(o, MD, X->getCallee());
            bool qualified = false;
            if (auto ME = dyn_cast_or_null<MemberExpr>(strip(X->getCallee())))
                qualified = ME->hasQualifier();
            o["qualified"] = qualified;
            o["virtual"] = MD && MD->isVirtual() && !qualified;
            if (MD && isa<CXXConversionDecl>(MD))
                o["conv"] = true;
            o["obj"] = dumpOpt(X->getImplicitObjectArgument());
            json::Array a;
            for (auto A : X->arguments())
                a.push_back(dumpOpt(A));
            o["args"] = std::move(a);
        } else if (auto X = dyn_cast<CallExpr>(S)) {
            o["k"] = "call";
            o["ck"] = "free";
            fillCallee(o, X->getDirectCallee(), X->getCallee());
            json::Array a;
            for (auto A : X->arguments())
                a.push_back(dumpOpt(A));
            o["args"] = std::move(a);
        } else if (auto X = dyn_cast<CXXConstructExpr>(S)) {
            o["k"] = "construct";
            auto CD = X->getConstructor();
            o["ctor"] = sig(CD);
            o["fn"] = fnId(CD);
            o["class"] = qname(CD->getParent());
            o["copy"] = CD->isCopyOrMoveConstructor();
            o["elidable"] = X->isElidable();
            o["list"] = X->isListInitialization();
            o["temporary"] = isa<CXXTemporaryObjectExpr>(X);
            json::Array a;
            for (auto A : X->arguments())
                a.push_back(dumpOpt(A));
            o["args"] = std::move(a);
        } else if (auto X = dyn_cast<CXXNewExpr>(S)) {
            o["k"] = "new";
            o["alloc"] = typeStr(X->getAllocatedType());
            o["init"] = dumpOpt(X->getInitializer());
            if (X->isArray())
                o["array"] = true;
        } else if (auto X = dyn_cast<CXXDeleteExpr>(S)) {
            o["k"] = "delete";
            o["e"] = dumpOpt(X->getArgument());
        } else if (auto X = dyn_cast<ExplicitCastExpr>(S)) {
            o["k"] = "cast";
            o["ck"] = X->getStmtClassName();
            o["castkind"] = X->getCastKindName();
            o["e"] = dumpOpt(X->getSubExpr());
        } else if (auto X = dyn_cast<InitListExpr>(S)) {
            o["k"] = "initlist";
            const InitListExpr *Sem = X->isSemanticForm() ? X : (X->getSemanticForm() ? X->getSemanticForm() : X);
            json::Array a;
            for (auto I : Sem->inits())
                a.push_back(dumpOpt(I));
            o["els"] = std::move(a);
        } else if (auto X = dyn_cast<CXXDefaultArgExpr>(S)) {
            o["k"] = "defaultarg";
            o["e"] = dumpOpt(X->getExpr());
        } else if (auto X = dyn_cast<CXXDefaultInitExpr>(S)) {
            o["k"] = "defaultinit";
            o["field"] = qname(X->getField());
            o["e"] = dumpOpt(X->getExpr());
        } else if (auto X = dyn_cast<UnaryExprOrTypeTraitExpr>(S)) {
            o["k"] = "sizeof";
            (void)X;
        } else if (auto X = dyn_cast<CXXScalarValueInitExpr>(S)) {
            o["k"] = "valueinit";
            (void)X;
        } else if (auto X = dyn_cast<ImplicitValueInitExpr>(S)) {
            o["k"] = "valueinit";
            (void)X;
        } else if (auto X = dyn_cast<CXXInheritedCtorInitExpr>(S)) {
            o["k"] = "inheritedctor";
            o["ctor"] = sig(X->getConstructor());
        } else if (auto X = dyn_cast<ArrayInitLoopExpr>(S)) {
            o["k"] = "other";
            o["cls"] = "ArrayInitLoopExpr";
            (void)X;
        } else {
            o["k"] = "other";
            o["cls"] = S->getStmtClassName();
            json::Array a;
            for (auto C : S->children())
                if (C)
                    a.push_back(dump(C));
            o["ch"] = std::move(a);
        }
        return std::move(o);
    }

    void fillCallee(json::Object &o, const FunctionDecl *FD, const Expr *calleeExpr) {
        if (FD) {
            o["callee"] = qname(FD);
            o["sig"] = sig(FD);
            o["fn"] = fnId(FD);
            if (auto MD = dyn_cast<CXXMethodDecl>(FD)) {
                o["cls"] = qname(MD->getParent());
                o["static"] = MD->isStatic();
                o["constm"] = MD->isConst();
            }
            if (FD->isVariadic())
                o["variadic"] = true;
        } else {
            o["callee"] = nullptr;
            o["calleeExpr"] = dumpOpt(calleeExpr);
        }
    }

    json::Value dumpCFG(const FunctionDecl *FD) {
        CFG::BuildOptions BO;
        BO.AddImplicitDtors = true;
        BO.AddInitializers = true;
        BO.AddTemporaryDtors = false;
        BO.AddEHEdges = false;
        BO.setAllAlwaysAdd();
        std::unique_ptr<CFG> G = CFG::buildCFG(FD, FD->getBody(), &Ctx, BO);
        if (!G)
            return nullptr;
        json::Object g;
        g["entry"] = (int64_t)G->getEntry().getBlockID();
        g["exit"] = (int64_t)G->getExit().getBlockID();
        json::Array blocks;
        for (const CFGBlock *B : *G) {
            json::Object b;
            b["id"] = (int64_t)B->getBlockID();
            json::Array els;
            int last = -1;
            for (const CFGElement &E : *B) {
                json::Object e;
                if (auto SE = E.getAs<CFGStmt>()) {
                    auto it = ids.find(SE->getStmt());
                    if (it == ids.end()) {
                        // a statement synthesised by the CFG builder or one we do not dump
                        continue;
                    }
                    if (it->second == last)
                        continue;
                    last = it->second;
                    e["k"] = "s";
                    e["n"] = it->second;
                } else if (auto IE = E.getAs<CFGInitializer>()) {
                    auto I = IE->getInitializer();
                    e["k"] = "init";
                    if (I->isAnyMemberInitializer())
                        e["member"] = qname(I->getAnyMember());
                    else if (I->isBaseInitializer())
                        e["base"] = typeStr(QualType(I->getBaseClass(), 0));
                    auto it = ids.find(I->getInit());
                    if (it != ids.end())
                        e["n"] = it->second;
                    last = -1;
                } else if (auto DE = E.getAs<CFGAutomaticObjDtor>()) {
                    e["k"] = "dtor";
                    e["decl"] = usr(DE->getVarDecl());
                    e["name"] = DE->getVarDecl()->getNameAsString();
                    e["type"] = typeStr(DE->getVarDecl()->getType());
                    last = -1;
                } else if (E.getAs<CFGBaseDtor>()) {
                    e["k"] = "basedtor";
                    e["type"] = typeStr(QualType(E.castAs<CFGBaseDtor>().getBaseSpecifier()->getType()));
                } else if (E.getAs<CFGMemberDtor>()) {
                    e["k"] = "memberdtor";
                    e["member"] = qname(E.castAs<CFGMemberDtor>().getFieldDecl());
                } else if (E.getAs<CFGDeleteDtor>()) {
                    e["k"] = "deletedtor";
                } else {
                    continue;
                }
                els.push_back(std::move(e));
            }
            b["els"] = std::move(els);
            if (const Stmt *T = B->getTerminatorStmt()) {
                auto it = ids.find(T);
                b["term"] = it != ids.end() ? json::Value(it->second) : json::Value(nullptr);
                b["termk"] = T->getStmtClassName();
                if (const Stmt *C = B->getTerminatorCondition(false)) {
                    auto ic = ids.find(C);
                    b["cond"] = ic != ids.end() ? json::Value(ic->second) : json::Value(nullptr);
                }
            }
            if (const Stmt *L = B->getLabel()) {
                auto it = ids.find(L);
                b["label"] = it != ids.end() ? json::Value(it->second) : json::Value(nullptr);
            }
            json::Array succ;
            for (auto I = B->succ_begin(); I != B->succ_end(); ++I) {
                if (const CFGBlock *SB = I->getReachableBlock())
                    succ.push_back((int64_t)SB->getBlockID());
                else
                    succ.push_back(nullptr);
            }
            b["succ"] = std::move(succ);
            if (B->hasNoReturnElement())
                b["noreturn"] = true;
            blocks.push_back(std::move(b));
        }
        g["blocks"] = std::move(blocks);
        return std::move(g);
    }

    json::Value dumpFunction(const FunctionDecl *FD, const FunctionDecl *parent) {
        ids.clear();
        nextId = 0;
        json::Object f;
        f["fn"] = fnId(FD);
        f["name"] = qname(FD);
        f["sig"] = sig(FD);
        f["file"] = fileOf(FD->getLocation());
        f["line"] = lineOf(FD->getBeginLoc());
        f["endline"] = lineOf(FD->getEndLoc());
        f["ret"] = typeStr(FD->getReturnType());
        if (parent)
            f["lambdaOf"] = fnId(parent);
        f["inst"] = FD->isTemplateInstantiation();
        // access of a member function (for an instantiation of a member function template: the template's access, which the record's method list does not carry)
        if (isa<CXXMethodDecl>(FD)) {
            AccessSpecifier as = FD->getAccess();
            if (as == AS_none)
                if (auto P = FD->getPrimaryTemplate())
                    as = P->getAccess();
            f["access"] = (int64_t)as;
        }
        f["implicit"] = FD->isImplicit();
        f["defaulted"] = FD->isDefaulted();
        f["inline"] = FD->isInlined();
        f["extern"] = FD->isExternallyVisible();
        f["templated"] = FD->isTemplated() || FD->isTemplateInstantiation();
        json::Array params;
        for (auto P : FD->parameters()) {
            json::Object po{{"decl", usr(P)}, {"name", P->getNameAsString()}, {"type", typeStr(P->getType())}};
            if (P->hasDefaultArg() && !P->hasUnparsedDefaultArg() && !P->hasUninstantiatedDefaultArg() && P->getDefaultArg())
                po["default"] = dumpOpt(P->getDefaultArg());
            params.push_back(std::move(po));
        }
        f["params"] = std::move(params);
        if (auto MD = dyn_cast<CXXMethodDecl>(FD)) {
            f["class"] = qname(MD->getParent());
            f["virtual"] = MD->isVirtual();
            f["final"] = MD->hasAttr<FinalAttr>();
            f["override"] = MD->hasAttr<OverrideAttr>();
            f["constm"] = MD->isConst();
            f["static"] = MD->isStatic();
            json::Array ov;
            for (auto O : MD->overridden_methods())
                ov.push_back(fnId(O));
            f["overrides"] = std::move(ov);
            f["kind"] = isa<CXXConstructorDecl>(MD) ? "ctor" : isa<CXXDestructorDecl>(MD) ? "dtor" : isa<CXXConversionDecl>(MD) ? "conv" : "method";
            if (auto CD = dyn_cast<CXXConstructorDecl>(MD)) {
                f["copyctor"] = CD->isCopyConstructor();
                f["movector"] = CD->isMoveConstructor();
                json::Array inits;
                for (auto I : CD->inits()) {
                    json::Object i;
                    if (I->isAnyMemberInitializer())
                        i["member"] = qname(I->getAnyMember());
                    else if (I->isBaseInitializer())
                        i["base"] = typeStr(QualType(I->getBaseClass(), 0));
                    else if (I->isDelegatingInitializer())
                        i["delegating"] = true;
                    i["written"] = I->isWritten();
                    i["e"] = dumpOpt(I->getInit());
                    inits.push_back(std::move(i));
                }
                f["inits"] = std::move(inits);
            }
        }
        f["body"] = dumpOpt(FD->getBody());
        f["cfg"] = dumpCFG(FD);
        return std::move(f);
    }
};

class Visitor : public RecursiveASTVisitor<Visitor> {
public:
    Visitor(ASTContext &C) : D(C) {}
    Dumper D;
    json::Array functions, records, globals, enums;
    std::set<std::string> seenFn, seenRec, seenEnum;

    bool shouldVisitTemplateInstantiations() const { return true; }
    bool shouldVisitImplicitCode() const { return false; }

    void emitFunction(const FunctionDecl *FD, const FunctionDecl *parent) {
        std::string id = D.fnId(FD);
        if (!seenFn.insert(id).second)
            return;
        functions.push_back(D.dumpFunction(FD, parent));
        // lambdas discovered while dumping
        std::vector<const FunctionDecl *> ls;
        ls.swap(D.pendingLambdas);
        for (auto L : ls)
            emitFunction(L, FD);
    }

    bool VisitFunctionDecl(FunctionDecl *FD) {
        if (!FD->doesThisDeclarationHaveABody())
            return true;
        if (FD->isDependentContext())
            return true;
        if (!D.inRoot(FD->getLocation()))
            return true;
        if (auto MD = dyn_cast<CXXMethodDecl>(FD))
            if (MD->getParent()->isLambda())
                return true; // emitted with its enclosing function
        emitFunction(FD, nullptr);
        return true;
    }

    bool VisitCXXRecordDecl(CXXRecordDecl *RD) {
        if (!RD->isThisDeclarationADefinition() || RD->isDependentContext() || RD->isLambda())
            return true;
        if (!D.inRoot(RD->getLocation()))
            return true;
        std::string id = D.usr(RD);
        if (!seenRec.insert(id).second)
            return true;
        json::Object r;
        r["name"] = D.qname(RD);
        r["usr"] = id;
        r["file"] = D.fileOf(RD->getLocation());
        r["line"] = D.lineOf(RD->getLocation());
        json::Array bases;
        for (auto &B : RD->bases())
            bases.push_back(json::Object{{"type", D.typeStr(B.getType())}, {"virtual", B.isVirtual()}});
        r["bases"] = std::move(bases);
        json::Array fields;
        for (auto F : RD->fields()) {
            json::Object f;
            f["name"] = F->getNameAsString();
            f["qname"] = D.qname(F);
            f["type"] = D.typeStr(F->getType());
            f["const"] = F->getType().isConstQualified();
            f["mutable"] = F->isMutable();
            f["access"] = (int64_t)F->getAccess();
            f["line"] = D.lineOf(F->getLocation());
            if (F->hasInClassInitializer() && F->getInClassInitializer()) {
                D.ids.clear();
                D.nextId = 0;
                f["init"] = D.dump(F->getInClassInitializer());
                D.pendingLambdas.clear();
            }
            fields.push_back(std::move(f));
        }
        r["fields"] = std::move(fields);
        json::Array methods;
        for (auto M : RD->methods()) {
            json::Object m;
            m["name"] = D.qname(M);
            m["sig"] = D.sig(M);
            m["fn"] = D.fnId(M);
            m["virtual"] = M->isVirtual();
            m["pure"] = M->isPure();
            m["final"] = M->hasAttr<FinalAttr>();
            m["deleted"] = M->isDeleted();
            m["defaulted"] = M->isDefaulted();
            m["implicit"] = M->isImplicit();
            m["userProvided"] = M->isUserProvided();
            m["access"] = (int64_t)M->getAccess();
            m["constm"] = M->isConst();
            m["line"] = D.lineOf(M->getLocation());
            const char *k = "method";
            if (auto C = dyn_cast<CXXConstructorDecl>(M))
                k = C->isCopyConstructor() ? "copyctor" : C->isMoveConstructor() ? "movector" : "ctor";
            else if (isa<CXXDestructorDecl>(M))
                k = "dtor";
            else if (M->isCopyAssignmentOperator())
                k = "copyassign";
            else if (M->isMoveAssignmentOperator())
                k = "moveassign";
            else if (isa<CXXConversionDecl>(M))
                k = "conv";
            m["kind"] = k;
            json::Array ov;
            for (auto O : M->overridden_methods())
                ov.push_back(D.fnId(O));
            m["overrides"] = std::move(ov);
            methods.push_back(std::move(m));
        }
        r["methods"] = std::move(methods);
        r["final"] = RD->hasAttr<FinalAttr>();
        r["inst"] = isa<ClassTemplateSpecializationDecl>(RD);
        records.push_back(std::move(r));
        return true;
    }

    bool VisitVarDecl(VarDecl *VD) {
        if (!VD->hasGlobalStorage() || isa<ParmVarDecl>(VD))
            return true;
        if (!VD->isThisDeclarationADefinition())
            return true;
        if (VD->getDeclContext()->isDependentContext())
            return true;
        if (!D.inRoot(VD->getLocation()))
            return true;
        json::Object g;
        g["name"] = D.qname(VD);
        g["decl"] = D.usr(VD);
        g["type"] = D.typeStr(VD->getType());
        g["const"] = VD->getType().isConstQualified() || VD->isConstexpr();
        g["staticlocal"] = VD->isStaticLocal();
        g["inline"] = VD->isInline();
        g["extern"] = VD->isExternallyVisible();
        g["templated"] = VD->isTemplated() || isa<VarTemplateSpecializationDecl>(VD);
        g["staticmember"] = VD->isStaticDataMember();
        // constant initialisation (no code runs at start-up; the object is usable whatever the order of dynamic initialisation is)
        g["constinit"] = !VD->hasInit() ? !VD->getType()->isRecordType() : VD->hasConstantInitialization();
        g["file"] = D.fileOf(VD->getLocation());
        g["line"] = D.lineOf(VD->getLocation());
        if (VD->isStaticLocal())
            if (auto FD = dyn_cast<FunctionDecl>(VD->getDeclContext()))
                g["function"] = D.fnId(FD);
        if (auto AT = D.Ctx.getAsConstantArrayType(VD->getType()))
            g["extent"] = (int64_t)AT->getSize().getLimitedValue();
        if (VD->hasInit() && !VD->isStaticLocal()) {
            D.ids.clear();
            D.nextId = 0;
            g["init"] = D.dump(VD->getInit());
            D.pendingLambdas.clear();
        }
        globals.push_back(std::move(g));
        return true;
    }

    bool VisitEnumDecl(EnumDecl *ED) {
        if (!ED->isThisDeclarationADefinition())
            return true;
        std::string n = D.qname(ED);
        bool want = D.inRoot(ED->getLocation());
        for (auto &e : ExtraEnums)
            if (e == n)
                want = true;
        if (!want)
            return true;
        if (!seenEnum.insert(D.usr(ED)).second)
            return true;
        json::Object e;
        e["name"] = n;
        e["file"] = D.fileOf(ED->getLocation());
        json::Array vals;
        for (auto C : ED->enumerators())
            vals.push_back(json::Object{{"name", C->getNameAsString()}, {"qname", D.qname(C)}, {"value", (int64_t)C->getInitVal().getExtValue()}});
        e["enumerators"] = std::move(vals);
        enums.push_back(std::move(e));
        return true;
    }
};

class Consumer : public ASTConsumer {
public:
    Consumer(DiagCollector *DC, std::string unit) : DC(DC), unit(std::move(unit)) {}
    void HandleTranslationUnit(ASTContext &Ctx) override {
        Visitor V(Ctx);
        V.TraverseDecl(Ctx.getTranslationUnitDecl());
        json::Object top;
        top["unit"] = unit;
        top["root"] = std::string(Root);
        top["functions"] = std::move(V.functions);
        top["records"] = std::move(V.records);
        top["globals"] = std::move(V.globals);
        top["enums"] = std::move(V.enums);
        top["diagnostics"] = std::move(DC->diags);
        std::error_code EC;
        llvm::raw_fd_ostream os(Out, EC);
        if (EC) {
            llvm::errs() << "qlx: cannot write " << Out << ": " << EC.message() << "\n";
            return;
        }
        os << json::Value(std::move(top)) << "\n";
    }
    DiagCollector *DC;
    std::string unit;
};

class Action : public ASTFrontendAction {
public:
    Action(DiagCollector *DC) : DC(DC) {}
    std::unique_ptr<ASTConsumer> CreateASTConsumer(CompilerInstance &CI, StringRef file) override {
        return std::make_unique<Consumer>(DC, file.str());
    }
    DiagCollector *DC;
};

class Factory : public FrontendActionFactory {
public:
    Factory(DiagCollector *DC) : DC(DC) {}
    std::unique_ptr<FrontendAction> create() override { return std::make_unique<Action>(DC); }
    DiagCollector *DC;
};

} // namespace

int main(int argc, const char **argv) {
    auto Exp = CommonOptionsParser::create(argc, argv, Cat);
    if (!Exp) {
        llvm::errs() << Exp.takeError();
        return 3;
    }
    CommonOptionsParser &OP = Exp.get();
    ClangTool Tool(OP.getCompilations(), OP.getSourcePathList());
    DiagCollector DC;
    Tool.setDiagnosticConsumer(&DC);
    Tool.appendArgumentsAdjuster(getInsertArgumentAdjuster("-resource-dir=/usr/lib/llvm-14/lib/clang/14.0.6", ArgumentInsertPosition::END));
    Tool.appendArgumentsAdjuster(getInsertArgumentAdjuster("-UNDEBUG", ArgumentInsertPosition::END));
    Tool.appendArgumentsAdjuster(getInsertArgumentAdjuster("-Wno-everything", ArgumentInsertPosition::END));
    Factory F(&DC);
    Tool.run(&F);
    // errors are reported through the JSON; the caller decides what is tolerated
    return 0;
}
