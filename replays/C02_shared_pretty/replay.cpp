#include "/repo/qtlogger.h"
#include <thread>
#include <vector>
#include <atomic>
#include <cstdio>
using namespace QtLogger;
struct NullSink : Sink { std::atomic<int> n{0}; void send(const LogMessage &) override { ++n; } };
int main(int argc, char **argv) {
    QCoreApplication app(argc, argv);
    auto s1 = QSharedPointer<NullSink>::create(), s2 = QSharedPointer<NullSink>::create();
    gQtLogger << PrettyFormatter::instance() << s1;
    gQtLogger.installMessageHandler();
    Logger second;
    second << PrettyFormatter::instance() << s2;
    const int N = 1500;
    std::atomic<int> ready{0}; std::atomic<bool> go{false};
    std::vector<std::thread> ts;
    for (int r = 0; r < N; ++r) {
        ts.emplace_back([&] { ++ready; while (!go) std::this_thread::yield(); for (int i = 0; i < 3; ++i) qDebug("through the installed logger %d", i); });
        ts.emplace_back([&] { ++ready; while (!go) std::this_thread::yield(); for (int i = 0; i < 3; ++i) { QMessageLogContext c("f.cpp", 1, "fn", "second"); second.processMessage(QtDebugMsg, c, QString("direct %1").arg(i)); } });
    }
    while (ready < 2 * N) std::this_thread::yield();
    go = true;
    for (auto &t : ts) t.join();
    printf("delivered %d + %d of %d + %d\n", s1->n.load(), s2->n.load(), 3 * N, 3 * N);
    return (s1->n == 3 * N && s2->n == 3 * N) ? 0 : 1;
}
