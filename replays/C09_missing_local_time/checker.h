// Checks the C09 property on the files a RotatingFileSink left in a directory.
// Every record the demo sends is the text "day=<yyyy-MM-dd of the record> seq=<n>".
#pragma once
#include <QDir>
#include <QFile>
#include <QRegularExpression>
#include <QSet>
#include <QTextStream>
#include <cstdio>

struct CheckResult
{
    int violations = 0;
    QSet<int> seen;
};

inline CheckResult checkLogDir(const QString &dirPath, const QString &base, const QString &suffix,
                               int recordsSent)
{
    CheckResult res;
    QDir dir(dirPath);
    const QRegularExpression rotatedRe(QStringLiteral("^%1\\.(\\d{4}-\\d{2}-\\d{2})\\.(\\d+)\\.%2$")
                                               .arg(QRegularExpression::escape(base),
                                                    QRegularExpression::escape(suffix)));
    const QRegularExpression lineRe(QStringLiteral("^day=(\\d{4}-\\d{2}-\\d{2}) seq=(\\d+)$"));
    const QString active = base + QLatin1Char('.') + suffix;

    const auto entries = dir.entryList(QDir::Files | QDir::Hidden, QDir::Name);
    for (const QString &entry : entries) {
        const auto m = rotatedRe.match(entry);
        if (entry != active && !m.hasMatch())
            continue;
        QFile f(dir.filePath(entry));
        if (!f.open(QIODevice::ReadOnly | QIODevice::Text))
            continue;
        QSet<QString> days;
        QStringList seqs;
        while (!f.atEnd()) {
            const QString line = QString::fromUtf8(f.readLine()).trimmed();
            if (line.isEmpty())
                continue;
            const auto lm = lineRe.match(line);
            if (!lm.hasMatch()) {
                std::printf("  !! unparsable line in %s: %s\n", qPrintable(entry), qPrintable(line));
                ++res.violations;
                continue;
            }
            days.insert(lm.captured(1));
            seqs << lm.captured(2);
            const int seq = lm.captured(2).toInt();
            if (res.seen.contains(seq)) {
                std::printf("  !! record %d found twice\n", seq);
                ++res.violations;
            }
            res.seen.insert(seq);
        }
        QStringList dayList = days.values();
        dayList.sort();
        std::printf("  %-28s records %-12s days of the records: %s\n", qPrintable(entry),
                    qPrintable(seqs.join(QLatin1Char(','))), qPrintable(dayList.join(QLatin1Char(' '))));
        if (days.size() > 1) {
            std::printf("  !! %s holds records of %d different days\n", qPrintable(entry),
                        int(days.size()));
            ++res.violations;
        }
        if (m.hasMatch() && days.size() >= 1 && !days.contains(m.captured(1))) {
            std::printf("  !! %s is named after %s but holds no record of that day\n",
                        qPrintable(entry), qPrintable(m.captured(1)));
            ++res.violations;
        } else if (m.hasMatch() && days.size() == 1 && *days.begin() != m.captured(1)) {
            ++res.violations;
        }
    }
    for (int i = 1; i <= recordsSent; ++i) {
        if (!res.seen.contains(i)) {
            std::printf("  !! record %d is in no file (lost or overwritten)\n", i);
            ++res.violations;
        }
    }
    return res;
}
