// Fake wall clock for the demo: every wall-clock query made by Qt and by the library under test
// (gettimeofday / clock_gettime(CLOCK_REALTIME) / time) is answered with real time + g_clockOffset.
// The definitions live in the demo executable, so they take precedence over libc's for libQt5Core too.
#pragma once
#include <sys/time.h>
#include <sys/syscall.h>
#include <unistd.h>
#include <time.h>

static long long g_clockOffsetSecs = 0;

static inline void realNow(struct timespec *ts)
{
    syscall(SYS_clock_gettime, CLOCK_REALTIME, ts);
}

extern "C" {

int gettimeofday(struct timeval *tv, void *)
{
    struct timespec ts;
    realNow(&ts);
    if (tv) {
        tv->tv_sec = ts.tv_sec + g_clockOffsetSecs;
        tv->tv_usec = ts.tv_nsec / 1000;
    }
    return 0;
}

int clock_gettime(clockid_t id, struct timespec *ts)
{
    const long rc = syscall(SYS_clock_gettime, id, ts);
    if (rc == 0 && id == CLOCK_REALTIME && ts)
        ts->tv_sec += g_clockOffsetSecs;
    return static_cast<int>(rc);
}

time_t time(time_t *t)
{
    struct timespec ts;
    realNow(&ts);
    const time_t v = ts.tv_sec + g_clockOffsetSecs;
    if (t)
        *t = v;
    return v;
}

} // extern "C"
