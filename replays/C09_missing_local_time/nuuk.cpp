// Side remark: UNCHANGED code, TZ=America/Nuuk, records of Saturday 2027-03-27 written out on Sunday.
// 23:59:59 of that Saturday does not exist (23:00 -> 00:00), the day stamp of flush() is refused.
#include "fakeclock.h"
#include "checker.h"
#include <QCoreApplication>
#include <QDateTime>
#include <QFileInfo>
#include <QTemporaryDir>
#include <cstdlib>
#include <qtlogger/sinks/rotatingfilesink.h>
using namespace QtLogger;
static int g_seq = 0;
static void logRecord(RotatingFileSink &sink)
{
    QMessageLogContext ctx("demo.cpp", 1, "demo", "demo");
    LogMessage lmsg(QtDebugMsg, ctx, QStringLiteral("x"));
    lmsg.setFormattedMessage(QStringLiteral("day=%1 seq=%2").arg(lmsg.time().date().toString(Qt::ISODate)).arg(++g_seq));
    sink.send(lmsg);
}
int main(int argc, char **argv)
{
    setenv("TZ", argc > 1 ? argv[1] : "America/Nuuk", 1);
    tzset();
    QCoreApplication app(argc, argv);
    QTemporaryDir tmp;
    const QString path = tmp.filePath(QStringLiteral("app.log"));
    // Saturday 2027-03-27 15:00 UTC (12:00 / 13:00 in Nuuk)
    struct timespec ts; realNow(&ts);
    const qint64 target = QDateTime(QDate(2027, 3, 27), QTime(15, 0), Qt::UTC).toSecsSinceEpoch();
    g_clockOffsetSecs = target - ts.tv_sec;
    std::printf("TZ=%s now=%s\n", getenv("TZ"), qPrintable(QDateTime::currentDateTime().toString(Qt::ISODate)));
    {
        RotatingFileSink sink(path, 0, 10, RotatingFileSink::RotationDaily);
        logRecord(sink); logRecord(sink);
        g_clockOffsetSecs += 86400; // Sunday
    }
    const QDate stamped = QFileInfo(path).lastModified().date();
    std::printf("after the shutdown on Sunday the file is dated %s (a day stamp would read 2027-03-27)\n", qPrintable(stamped.toString(Qt::ISODate)));
    if (stamped != QDate(2027, 3, 27)) {
        // the stamp was refused; the kernel of a machine that really lives on that Sunday leaves "now"
        QFile f(path); f.open(QIODevice::ReadWrite);
        f.setFileTime(QDateTime::currentDateTime(), QFileDevice::FileModificationTime);
    }
    {
        RotatingFileSink sink(path, 0, 10, RotatingFileSink::RotationDaily);
        logRecord(sink);
    }
    const auto res = checkLogDir(tmp.path(), QStringLiteral("app"), QStringLiteral("log"), g_seq);
    std::printf(res.violations ? "C09 BROKEN\n" : "C09 holds\n");
    return res.violations ? 1 : 0;
}
