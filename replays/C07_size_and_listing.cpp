#include <QCoreApplication>
#include <QDir>
#include <QFile>
#include <QTemporaryDir>
#include <QTextCodec>
#include <cstdio>
#include "qtlogger/sinks/rotatingfilesink.h"
using namespace QtLogger;
static LogMessage mk(const QString &text) { QMessageLogContext ctx("f.cpp", 1, "fn", "c"); return LogMessage(QtDebugMsg, ctx, text); }
static int report(const QString &p, int L) { int over = 0; for (auto &e : QDir(p).entryInfoList(QDir::Files)) { printf("  %-28s %lld bytes%s\n", e.fileName().toUtf8().constData(), (long long)e.size(), e.size() > L ? "  > L" : ""); over += e.size() > L; } return over; }
int main(int argc, char **argv) {
    QCoreApplication app(argc, argv);
    int bad = 0;
    { QTextCodec::setCodecForLocale(QTextCodec::codecForName("GB18030"));
      QTemporaryDir d; { RotatingFileSink s(d.path() + "/app.log", 30, 0); for (int i = 0; i < 4; ++i) { auto m = mk(QString(4, QChar(0xFF))); s.send(m); } }
      printf("1 GB18030 locale codec, L = 30, four records of 4 x U+00FF:\n"); bad += report(d.path(), 30) > 0;
      QTextCodec::setCodecForLocale(QTextCodec::codecForName("UTF-8")); }
    { QTemporaryDir d; QDir(d.path()).mkdir("app." + QDate::currentDate().toString(Qt::ISODate) + ".1.log");
      { RotatingFileSink s(d.path() + "/app.log", 20, 0); for (int i = 0; i < 4; ++i) { auto m = mk(QString("record %1 ....").arg(i)); s.send(m); } }
      printf("2 a directory has the name of the next rotated file, L = 20, four 14-byte records:\n"); bad += report(d.path(), 20) > 0; }
    printf("%d deviations\n", bad); return bad ? 1 : 0;
}
