#include <QCoreApplication>
#include <QDir>
#include <QFile>
#include <QTemporaryDir>
#include <cstdio>
#include "qtlogger/filters/categoryfilter.h"
#include "qtlogger/sinks/rotatingfilesink.h"
using namespace QtLogger;
static LogMessage mk(const QByteArray &cat, QtMsgType t = QtDebugMsg, const QString &text = "m") {
    static QList<QByteArray> keep; keep.append(cat);
    QMessageLogContext ctx("f.cpp", 1, "fn", keep.last().constData());
    return LogMessage(t, ctx, text);
}
int main(int argc, char **argv) {
    QCoreApplication app(argc, argv);
    int bad = 0;
    { CategoryFilter f("app.core=false"); bool v = f.filter(mk("app.core\n")); printf("1 rule app.core=false, category \"app.core\\n\": pass=%d (expected 1)\n", v); bad += !v; }
    { CategoryFilter f("app.*=false"); bool v = f.filter(mk("app.a\nb")); printf("2 rule app.*=false, category \"app.a\\nb\": pass=%d (expected 0)\n", v); bad += v; }
    { CategoryFilter f("*x*x*x*x*x*x*x*x*yz*=false"); QByteArray c = "xxxxxxxxyz" + QByteArray(40, 'x'); bool v = f.filter(mk(c)); printf("3 many wildcards: pass=%d (expected 0)\n", v); bad += v; }
    { QString r = QString(70000, 'a'); CategoryFilter f(r + "=false"); bool v = f.filter(mk(r.toLatin1())); printf("4 70000-char rule: pass=%d (expected 0)\n", v); bad += v; }
    {
        QTemporaryDir d; QString p = d.path();
        QString foreign = p + "/app.2024-05-01.1.log\n";
        { QFile ff(foreign); ff.open(QIODevice::WriteOnly); ff.write("foreign\n"); }
        { RotatingFileSink s(p + "/app.log", 20, 2);
          for (int i = 0; i < 4; ++i) { auto m = mk("c", QtDebugMsg, QString("record %1 ........").arg(i)); s.send(m); } }
        bool still = QFile::exists(foreign);
        printf("5 foreign file \"app.2024-05-01.1.log\\n\" still there: %d (expected 1); dir: ", still);
        for (auto &e : QDir(p).entryList(QDir::Files)) printf("[%s] ", e.toUtf8().replace("\n", "\\n").constData()); printf("\n");
        bad += !still;
    }
    printf("%d deviations\n", bad); return bad ? 1 : 0;
}
