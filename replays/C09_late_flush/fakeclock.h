// A virtual wall clock for the demo process: Qt 5 reads the time of day through gettimeofday()
// (QDateTime::currentDateTime(), QDate::currentDate(), and so LogMessage::m_time); defining the
// function in the executable makes libQt5Core call this one. Only the demo's view of the clock is
// shifted, the kernel (file timestamps) keeps the real time.
#pragma once
#include <sys/syscall.h>
#include <sys/time.h>
#include <time.h>
#include <unistd.h>

static long long g_clockOffsetSecs = 0;

extern "C" int gettimeofday(struct timeval *tv, void *)
{
    struct timespec ts;
    syscall(SYS_clock_gettime, CLOCK_REALTIME, &ts);
    tv->tv_sec = ts.tv_sec + g_clockOffsetSecs;
    tv->tv_usec = ts.tv_nsec / 1000;
    return 0;
}

extern "C" int clock_gettime(clockid_t id, struct timespec *ts)
{
    const long r = syscall(SYS_clock_gettime, id, ts);
    if (id == CLOCK_REALTIME)
        ts->tv_sec += g_clockOffsetSecs;
    return r;
}

static inline void setClockDayOffset(int days) { g_clockOffsetSecs = 86400LL * days; }
