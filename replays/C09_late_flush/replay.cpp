// day D (virtual: yesterday): a service logs two records (the second stays in the QFile buffer), idles over midnight, and exits on D+1:
// close() flushes the buffer then, i.e. the kernel stamps the file with D+1 (real clock: today = D+1).
// Run 2, still D+1: init() dates the file by its modification time (D+1), nothing is rotated, the new records are appended.
#include <QCoreApplication>
#include <QDir>
#include <QFile>
#include <QTemporaryDir>
#include <QDate>
#include <QSet>
#include <cstdio>
#include "fakeclock.h"
#include "qtlogger/sinks/rotatingfilesink.h"
#include "qtlogger/logmessage.h"
using namespace QtLogger;
static void log(RotatingFileSink &s, const char *text) {
    LogMessage m(QtInfoMsg, QMessageLogContext("f", 1, "fn", "c"), QString::fromLatin1(text) + QLatin1Char(' ') + QDate::currentDate().toString(Qt::ISODate));
    m.setFormattedMessage(m.message()); s.send(m);
}
int main(int argc, char **argv) {
    QCoreApplication a(argc, argv);
    QTemporaryDir d; const QString path = d.path() + "/svc.log";
    setClockDayOffset(-1);                       // day D
    {
        RotatingFileSink s(path, 0, 0, RotatingFileSink::RotationDaily);
        log(s, "first record of day");
        log(s, "last record of day");            // buffered
        setClockDayOffset(0);                    // idle over midnight: D+1 (= the real today, which is what the kernel stamps)
    }                                            // service stopped at 00:10 of D+1: close() writes the buffer
    {
        RotatingFileSink s(path, 0, 0, RotatingFileSink::RotationDaily);   // restarted on D+1
        log(s, "first record after restart");
    }
    int bad = 0;
    for (auto &fi : QDir(d.path()).entryInfoList(QDir::Files, QDir::Name)) {
        QFile f(fi.filePath()); f.open(QIODevice::ReadOnly); const auto lines = f.readAll().split('\n');
        QSet<QByteArray> days;
        for (auto &l : lines) if (!l.isEmpty()) days.insert(l.right(10));
        printf("%-28s %d records, days: %s\n", qPrintable(fi.fileName()), int(lines.size() - 1), QByteArrayList(days.values()).join(' ').constData());
        if (days.size() > 1) bad++;
    }
    printf(bad ? "FAIL: a file holds records of two days\n" : "ok\n");
    return bad ? 1 : 0;
}
