#include "qtlogger.h"
#include <cstdio>
QString restorePattern();
int main()
{
    QtLogger::setMessagePattern(QStringLiteral("X %{message}"));
    QtLogger::setMessagePattern(QStringLiteral("Y %{message}"));
    const QString now = restorePattern();   // returns the pattern that was replaced, i.e. Y
    const QString again = QtLogger::setMessagePattern(QStringLiteral("Z %{message}")); // returns previous = X expected
    printf("restore returned '%s', then previous='%s' (expected previous 'X %%{message}')\n", qPrintable(now), qPrintable(again));
    return again == QStringLiteral("X %{message}") ? 0 : 1;
}
