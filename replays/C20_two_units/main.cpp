#include "qtlogger.h"
#include <QCoreApplication>
#include <cstdio>
void shutdownLogging();
static int seen = 0;
int main(int argc, char **argv)
{
    QCoreApplication app(argc, argv);
    gQtLogger.attrHandler([](const QtLogger::LogMessage &) { ++seen; return QVariantHash(); });
    gQtLogger.installMessageHandler();
    qWarning("hello");
    qWarning("world");
    shutdownLogging();
    printf("handler calls seen by the logger: %d (expected 2)\n", seen);
    return seen == 2 ? 0 : 1;
}
