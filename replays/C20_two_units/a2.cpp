#include "qtlogger.h"
QString restorePattern()
{
    return QtLogger::restorePreviousMessagePattern();
}
