#include "qtlogger.h"
void shutdownLogging()
{
    gQtLogger.restorePreviousMessageHandler();
}
