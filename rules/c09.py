"""C09 — daily rotation keeps days apart; rotated names are unique and dated (DESIGN.md section 3, C09)."""
import re

from engine.util import *
from rules.rfs import *
from rules.c06 import pattern_templates, name_pattern, regex_patterns, single_pass

LEVEL = "other"
MIN_OBLIGATIONS = 22
THOROUGH_CONFIGS = ("headeronly",)
TECHNIQUE = "def-use rules on the rotation date, max+1 index rule in linear form, writer/reader agreement of the rotated-name scheme (format template vs the two regex families), truth-table projection of the daily guard, all-paths rule that the active file is dated with the record about to be written; order rules in rotate() (index before retention; retention from the old end); abstract string evaluation of the name writer (templates, concatenation, joined part lists, isEmpty arms); single-pass rule for .arg() chains; nothing writes to the file before its start-up modification time is read; QDir name filters are wildcard patterns; one time base for the sink's dates; the persisted day is a local time that exists in every zone, in the time specification the reader uses"
LEVEL_TEXT = ("Decides structurally, for all histories: the rotated name is built from the active file's date (never from the clock while that date is valid), the index is one more than the "
              "highest existing index among plain and .gz names of that date, the name writer and the two name readers agree on fields, order and separators in both suffix variants, the "
              "rotated file is produced by the overwrite-refusing static QFile::rename only, daily rotation fires iff the record's date differs from the file's date and the file is non-empty, "
              "and on every path of a daily-rotating send the file is dated with the record's date before the record is written. Histories under a concrete clock are run-time.")
LEVEL_NOTE = "trusts QDate::toString('yyyy-MM-dd'), QFile::rename semantics, QFileInfo::lastModified for an existing non-empty file at start-up"
DESIGN_REF = "DESIGN.md section 3, C09"
EXPLANATION = ("Rules over rotate(), findNextIndexForDate(), generateRotatedFileName(), findRotatedFiles(), checkDailyRotation(), rotateIfNeeded() and init(): provenance of the date "
               "arguments, linear form of the returned index, token-level comparison of the name template with the regex templates, CFG projection on (date differs, file non-empty), "
               "and a must-pass / no-later-writer rule for m_currentLogDate := message date.")
TRUSTED = ["QFile::rename(old, new) never overwrites an existing file", "QString::arg substitutes %1..%n positionally"]
ASSUMPTIONS = ["records reach the sink in non-decreasing date order (FIFO hand-off, C03)"]
NOT_DECIDED = ["histories under a virtual clock (restart with an old active file whose mtime is wrong, clock running backwards)"]


def run(ck):
    S = Sink(ck)
    F = ck.facts
    ck.rule("C09-O1", "rotate(): one date value feeds both the index search and the name; it is m_currentLogDate when valid, the clock only otherwise")
    ck.rule("C09-O2", "findNextIndexForDate(): result = 1 + maximum index over all directory entries matching the anchored, escaped pattern for that date, plain or .gz")
    ck.rule("C09-O3", "name writer (base.date.index[.suffix], date yyyy-MM-dd) and both name readers have the same fields, order and separators in both suffix variants, selected by the same test")
    ck.rule("C09-O4", "the rotated file is produced by the static two-argument QFile::rename only")
    ck.rule("C09-O5", "daily rotation iff message date != file date and file non-empty; with daily rotation the file is dated with the record's date on every path before the write; start-up date from the file's mtime iff it exists non-empty")
    ck.rule("C09-O6", "the active file is dated (m_currentLogDate written) before any path can reach rotate(): otherwise rotate() names the old content after today's clock")
    DF = RP + "::m_currentLogDate"
    rt = S.m["rotate"]
    g = S.g(rt)
    # ---- O1
    ni = [n for n in S.calls_to(rt, "findNextIndexForDate")]
    gn = [n for n in S.calls_to(rt, "generateRotatedFileName")]
    ck.require(len(ni) == 1 and len(gn) == 1, "rotate(): index search / name generation not found")
    d1, d2 = skip_copies(ni[0]["args"][0]), skip_copies(gn[0]["args"][0])
    same = index_feeds_name(ck, S, "C09-O1")
    if same:
        _, var = local_var(rt, d1["decl"])
        init = var.get("init") if var else None
        isvalid = lambda n: is_call(n, "QDate::isValid") and is_this_field(skip_copies(n).get("obj"), DF)
        vv = resolve_value(init, atom_eq(isvalid, True), rt)
        vi = resolve_value(init, atom_eq(isvalid, False), rt)
        okv = is_this_field(vv, DF)
        ck.ob("C09-O1", sitestr(rt), okv, "with a valid file date the name carries m_currentLogDate" if okv else "with a valid file date the name carries %s" % describe(vv), key="rotate|date-not-file-date")
        oki = is_call(vi, "QDate::currentDate") or is_this_field(vi, DF)
        ck.ob("C09-O1", sitestr(rt), oki, "fallback only when the file date is invalid: %s" % describe(vi), key="rotate|date-fallback")
    dated_before_rotation(ck, S, DF)
    # the index is searched over the directory as it was before this rotation's retention ran
    rem_reach = set()
    for f_ in S.m.values():
        if any(destructive_kind(x) == "remove" for x in f_.all_nodes()):
            rem_reach.add(f_.id)
    early = [n for n in rt.calls() if n.get("fn") in rem_reach and n.get("fn") != S.m["compressFile"].id and g.can_reach(g.site_of(n), g.site_of(ni[0]))]
    ck.ob("C09-O2", sitestr(rt, early[0]) if early else sitestr(rt, ni[0]), not early, "rotate(): the next index is computed before any rotated file is deleted" if not early else
          "rotate(): %s deletes rotated files before the next index is computed: when retention removes the last file of the day (N = 2) the index starts again at 1 and the name of a deleted file is reused" % describe(early[0])[:40],
          key="rotate|retention-before-index")
    # ---- O2
    fi = S.m["findNextIndexForDate"]
    next_index(ck, S, "C09-O2")
    # max + 1 is fresh only while the highest index of a day is still on disk: retention must take its victims from the old end
    from rules.c06 import retention_victim_is_oldest
    retention_victim_is_oldest(ck, S, "C09-O2")
    tpl_next = name_pattern(ck, S, fi, "C09-O2", date_is_class=False)
    name_scheme(ck, S, "C09-O3")
    ck.rule("C09-O6", "the dates that decide the daily rotation and name rotated files come from one time base")
    from rules.rfs import time_base_agreement
    time_base_agreement(ck, S, "C09-O6")
    ck.rule("C09-O7", "the state init() reads the day of the active file's content from (its modification time) is written by the sink wherever it writes buffered records out without rotating: destruction and flush()")
    from rules.rfs import day_readback
    day_readback(ck, S, "C09-O7")
    # ---- O4
    ren = [n for n in rt.calls() if destructive_kind(n) == "rename"]
    ok = len(ren) == 1 and ren[0].get("callee") == "QFile::rename" and ren[0].get("static") and len(ren[0].get("args", [])) == 2
    raw_ok = len(ren) == 1 and strip_tmpl(ren[0].get("callee") or "") in ("rename", "std::rename") and len(ren[0].get("args", [])) == 2
    # rename(2) replaces an existing target where QFile::rename refuses; the target is a fresh name (index = max + 1, O2 above), so both
    # produce the rotated file by one rename of the active file
    ck.ob("C09-O4", sitestr(rt, ren[0]) if ren else sitestr(rt), ok or raw_ok, "the rotated file is produced by one rename of the active file to the fresh name (%s)" % ("static QFile::rename" if ok else "rename(2)") if (ok or raw_ok) else
          "rotated file produced by %s" % [describe(r)[:60] for r in ren], key="rotate|rename-form")
    cps = [n for n in rt.calls() if name_is(n.get("callee"), ("QFile::copy",))]
    if cps:
        ck.ob("C09-O4", sitestr(rt, cps[0]), False, "rotate() copies the file: an existing target or a crash leaves duplicates", key="rotate|copy")
    daily(ck, S, DF)


def name_scheme(ck, S, RID):
    """the name writer and both name readers agree on fields, order, separators and on how the active file's name is split"""
    F = ck.facts
    fi = S.m["findNextIndexForDate"]
    # ---- O3 agreement
    gnf = S.m["generateRotatedFileName"]
    frf = S.m["findRotatedFiles"]
    wt = [(t, a, n) for t, a, n in pattern_templates(gnf) if "%1" in t]
    by_eval = False
    if len(wt) != 2:
        # the name is not instantiated from a template: recover what the function returns piece by piece (concatenation, a list of
        # parts joined by a separator, ...)
        from engine.strabs import StrEval, render, dedupe
        ev = StrEval(F, gnf).run()
        alts = dedupe([alt for r in ev.returns for alt in r])
        wt = []
        for alt in alts:
            # <directory>/<name>: only the name is the scheme
            cut = max([i for i, p_ in enumerate(alt) if p_[0] == "c" and "/" in p_[1]] or [-1])
            if cut >= 0:
                tail = alt[cut][1].rsplit("/", 1)[1]
                alt = ([("c", tail)] if tail else []) + list(alt[cut + 1:])
            t, holes = render(alt)
            wt.append((t, [h[1] for h in holes], gnf.body))
        by_eval = True
    ck.require(len(wt) == 2, "generateRotatedFileName: expected two name templates, found %d" % len(wt))

    LOCALE_DATES = []

    def role_of(fn, a, _depth=0):
        a = deref_local(fn, a)
        from engine.strabs import OWNER
        fn = OWNER.get(id(a), fn)
        if is_call(a, "QRegularExpression::escape"):
            a = deref_local(fn, a["args"][0])
        if is_call(a, ("QString::number", "QByteArray::number")) and a.get("args"):
            a = deref_local(fn, skip_copies(a["args"][0]))
        if is_call(a, "QFileInfo::completeBaseName"):
            return "base"
        if is_call(a, "QFileInfo::suffix"):
            return "suffix"
        if is_call(a, "QFileInfo::completeSuffix"):
            return "suffix(completeSuffix)"
        if is_call(a, "QDate::toString"):
            args_ = [x for x in a.get("args", []) if x.get("k") != "defaultarg"]
            fmt = const_str(args_[0]) if args_ else None
            if fmt is None and args_ and const_int(args_[0]) == 1:
                return "date"                      # Qt::ISODate: yyyy-MM-dd in ASCII digits under every locale
            if fmt is not None:
                LOCALE_DATES.append((fn, a, fmt))   # QDate::toString(format) renders with the system locale (Qt 5)
            return "date" if fmt == "yyyy-MM-dd" else "date(%s)" % fmt
        if is_call(a, "QLocale::toString") and len(a.get("args", [])) >= 2 and "QDate" in (skip_copies(a["args"][0]).get("type") or ""):
            fmt = const_str(a["args"][1])
            cl = skip_copies(a.get("obj"))
            if is_call(cl, "QLocale::c"):
                return "date" if fmt == "yyyy-MM-dd" else "date(%s)" % fmt
            LOCALE_DATES.append((fn, a, fmt))
            return "date" if fmt == "yyyy-MM-dd" else "date(%s)" % fmt
        if a.get("k") == "ref" and a.get("dk") == "param" and a.get("type") == "int":
            return "index"
        if is_call(a, ("QFileInfo::baseName", "QFileInfo::fileName")):
            return "base(%s)" % a.get("callee").split("::")[-1]
        if isinstance(a, dict) and a.get("k") == "ref" and a.get("dk") == "local" and not _depth:
            # a piece of the active file's name that is edited before it is used (shortened, lower-cased ...): no longer that piece
            dn_, var_ = local_var(fn, a["decl"])
            if var_ is not None and isinstance(var_.get("init"), dict):
                r0 = role_of(fn, var_["init"], 1)
                MUT = ("chop", "truncate", "remove", "replace", "append", "prepend", "insert", "resize", "clear", "fill", "operator+=", "operator=", "push_back", "push_front", "swap")
                muts = sorted({strip_tmpl(c_.get("callee") or "").split("::")[-1] for c_ in fn.calls() if c_.get("ck") in ("member", "operator") and
                               is_ref_to((c_.get("obj") if c_.get("ck") == "member" else (c_.get("args") or [None])[0]), a["decl"]) and strip_tmpl(c_.get("callee") or "").split("::")[-1] in MUT})
                if muts and not r0.startswith("?"):
                    return "%s~%s" % (r0, ",".join(muts))
        return "?" + describe(a)[:20]

    def tokens_writer(t, args, fn):
        toks = []
        for part in re.split(r"(%\d)", t):
            if not part:
                continue
            m = re.match(r"%(\d)", part)
            if m:
                i = int(m.group(1)) - 1
                toks.append(role_of(fn, args[i]) if i < len(args) else "?")
            else:
                toks.append(part)
        return toks

    def tokens_reader(t, args, fn):
        s = t
        if s.startswith("^"):
            s = s[1:]
        from rules.rfs import end_anchor
        s = end_anchor(s)[1]
        if s.endswith("(\\.gz)?"):
            s = s[:-len("(\\.gz)?")]
        toks = []
        s = re.sub(r"\((%\d)\)", r"\1", s)   # a capturing group around one run-time piece
        for part in re.split(r"(%\d|\(\\d\{4\}-\\d\{2\}-\\d\{2\}\)|\\d\{4\}-\\d\{2\}-\\d\{2\}|\(\\d\+\)|\\d\+|\\\.)", s):
            if not part:
                continue
            m = re.match(r"%(\d)", part)
            if m:
                i = int(m.group(1)) - 1
                toks.append(role_of(fn, args[i]) if i < len(args) else "?")
            elif part in ("(\\d{4}-\\d{2}-\\d{2})", "\\d{4}-\\d{2}-\\d{2}"):
                toks.append("date")
            elif part in ("(\\d+)", "\\d+"):
                toks.append("index")
            elif part == "\\.":
                toks.append(".")
            else:
                toks.append("!" + part)
        return toks
    wtoks = sorted((tokens_writer(t, a, gnf) for t, a, n in wt), key=len)
    # the tokens above read a chain of .arg() calls as one substitution pass; that is what the chain does only when nothing substituted
    # early can itself contain a placeholder
    seen_ids, nch = set(), 0
    for fn in [gnf, fi, frf] + list(S.m.values()):
        if fn.id not in seen_ids:
            seen_ids.add(fn.id)
            nch += single_pass(ck, fn, RID)
    ck.notes.append("%d QString::arg chains examined in the name writer and the two name readers" % nch)
    want = [["base", ".", "date", ".", "index"], ["base", ".", "date", ".", "index", ".", "suffix"]]
    # the active name may be split at its last dot (completeBaseName + suffix) or at its first (baseName + completeSuffix): either is a
    # scheme, as long as writer and readers use the same one (compared exactly below)
    alt = [[{"base": "base(baseName)", "suffix": "suffix(completeSuffix)"}.get(t, t) for t in v] for v in want]
    unkw = any(t.startswith("?") for v in wtoks for t in v)
    ck.ob(RID, sitestr(gnf), None if unkw else wtoks in (want, alt), "rotated name = base.date.index[.suffix] with date yyyy-MM-dd" if wtoks in (want, alt) else "rotated name templates are %s" % wtoks, key="generateRotatedFileName|scheme")
    for fn, nm in ((fi, "findNextIndexForDate"), (frf, "findRotatedFiles")):
        tp = [x for x in regex_patterns(F, fn) if x[0].startswith("^") or "\\d" in x[0]]
        rtoks = sorted((tokens_reader(t, a, fn) for t, a, n in tp), key=len)
        unk_ = any(isinstance(t, str) and t.startswith("?") for v in rtoks + wtoks for t in v)
        ck.ob(RID, sitestr(fn), None if unk_ and rtoks != wtoks else rtoks == wtoks, "%s reads exactly the names generateRotatedFileName writes (both variants)" % nm if rtoks == wtoks else
              "%s reads %s but names are written as %s" % (nm, rtoks, wtoks), key="%s|scheme-mismatch" % nm)
    # variant selection by suffix.isEmpty() in all three: the shorter template under isEmpty() == true
    for fn, nm in ((gnf, "generateRotatedFileName"), (fi, "findNextIndexForDate"), (frf, "findRotatedFiles")):
        gg = S.g(fn)
        tp = [x for x in pattern_templates(fn) if "%1" in x[0]]
        if len(tp) != 2:
            continue
        from rules.rfs import end_anchor
        if fn is not gnf and not all(x[0].startswith("^") and end_anchor(x[0])[0] for x in tp):
            # the pattern is assembled piecewise (e.g. `if (!suffix.isEmpty()) pattern += ...`): both variants were already
            # recovered by the abstract string evaluation and compared with the writer above
            continue
        sfx = [v for n in fn.find(lambda n: n.get("k") == "decl") for v in n.get("vars", []) if isinstance(v.get("init"), dict) and is_call(deref_local(fn, v["init"]), ("QFileInfo::suffix", "QFileInfo::completeSuffix"))]
        # the suffix may also be a member of a local aggregate (`name.suffix`, the aggregate returned by a spliced helper): anything whose value is the file's suffix
        is_sfx_val = lambda x: isinstance(x, dict) and is_call(skip_copies(deref_local(fn, skip_copies(x))), ("QFileInfo::suffix", "QFileInfo::completeSuffix"))
        by_value = [n for n in fn.calls() if is_call(n, "QString::isEmpty") and is_sfx_val(n.get("obj"))]
        if len(sfx) != 1 and not by_value:
            ck.ob(RID, sitestr(fn), None, "%s: suffix local not found" % nm)
            continue
        if len(sfx) == 1:
            isE = lambda n, d=sfx[0]["decl"]: is_call(n, "QString::isEmpty") and (is_ref_to(skip_copies(n).get("obj"), d) or is_sfx_val(skip_copies(n).get("obj")))
        else:
            isE = lambda n: is_call(n, "QString::isEmpty") and is_sfx_val(skip_copies(n).get("obj"))
        short = min(tp, key=lambda x: len(x[0]))
        long_ = max(tp, key=lambda x: len(x[0]))
        le = gg.live(gg.projector(atom_eq(isE, True)))
        ln = gg.live(gg.projector(atom_eq(isE, False)))
        ok = gg.site_of(short[2]) in le and gg.site_of(long_[2]) not in le and gg.site_of(long_[2]) in ln and gg.site_of(short[2]) not in ln
        ck.ob(RID, sitestr(fn), ok, "%s: the suffix-less variant iff the active file has no suffix" % nm if ok else "%s selects its name variant differently" % nm, key="%s|variant-selection" % nm)

    # the digits of the date: the readers' \\d classes are ASCII; a date rendered with the system locale's digits (fa_IR, ar_EG, ...) is
    # written under a name that retention never finds again
    seen_ld = set()
    for f_, a_, fmt_ in LOCALE_DATES:
        if a_.get("id") in seen_ld:
            continue
        seen_ld.add(a_.get("id"))
        ck.ob(RID, sitestr(f_, a_), False, "%s formats the date of the rotated name with %s, i.e. with the digits of the system locale: under a locale with other digits the name does not match the readers' "
              "\\d{4}-\\d{2}-\\d{2} / is not the documented yyyy-MM-dd, and the file is never counted by retention" % (strip_tmpl(f_.name).split("::")[-1], describe(a_)[:50]),
              key="%s|locale-digits" % strip_tmpl(f_.name).split("::")[-1])
    if not LOCALE_DATES:
        ck.ob(RID, sitestr(gnf), True, "the date in rotated names is formatted independently of the system locale (Qt::ISODate / QLocale::c())", key="generateRotatedFileName|locale-digits")


def daily(ck, S, DF, RID="C09-O5"):
    F = ck.facts
    cd = S.m["checkDailyRotation"]
    ri = S.m["rotateIfNeeded"]
    it = S.m["init"]
    g = S.g(cd)
    md = cd.params[0]["decl"]
    rot = [n for n in S.calls_to(cd, "rotate")]
    ck.require(len(rot) == 1, "checkDailyRotation calls rotate() %d times" % len(rot))
    rs_ = g.site_of(rot[0])

    def is_record_date(x):
        """the date of the record: the helper's date parameter, or (when the check is folded into its caller) a local computed from lmsg.time().date()"""
        if is_ref_to(x, md):
            return True
        v = skip_copies(deref_local(cd, skip_copies(x))) if isinstance(x, dict) else None
        return isinstance(v, dict) and any(is_call(y, LM + "::time") for y in walk(v)) and any(is_call(y, ("QDateTime::date",)) for y in walk(v))

    def ne(n):
        if n.get("k") == "call" and n.get("op") in ("!=", "==") and len(n.get("args", [])) == 2:
            a, b = n["args"]
            return (is_record_date(a) and is_this_field(b, DF)) or (is_record_date(b) and is_this_field(a, DF))
        return False
    daily_opt = S.option_pred("RotationDaily", cd)

    def sizecmp(n):
        return n.get("k") == "binop" and n.get("op") in (">", ">=", "!=", "==", "<", "<=") and is_call(n.get("lhs"), ("QFileDevice::size", "QFile::size", "QIODevice::size")) and S.is_active_file(skip_copies(n["lhs"]).get("obj")) and const_int(n.get("rhs")) is not None
    table = {}
    for differs in (False, True):
        for size in (0, 1, 50):
            def atom(n, differs=differs, size=size):
                if ne(n):
                    return differs if n.get("op") == "!=" else (not differs)
                if sizecmp(n):
                    k = const_int(n["rhs"])
                    return bool({">": size > k, ">=": size >= k, "!=": size != k, "==": size == k, "<": size < k, "<=": size <= k}[n["op"]])
                if daily_opt(n):
                    return True
                return None
            keep = g.projector(atom)
            table[(differs, size)] = (rs_ in g.live(keep), g.must_pass({rs_}, keep=keep))
    ok = all(table[(d, s)] == ((d and s > 0), (d and s > 0)) for d in (False, True) for s in (0, 1, 50))
    if not ok:
        # a condition on the way to rotate() that is none of (dates differ, file non-empty, daily option): the table is not a verdict then
        from engine.cfg import eval_cond
        at0 = lambda n: True if (ne(n) or sizecmp(n) or daily_opt(n)) else None
        dom_conds = [n_["cond"] for n_ in cd.all_nodes() if n_.get("k") in ("if", "while", "cond") and isinstance(n_.get("cond"), dict) and
                     g.site_of(n_["cond"]) is not None and g.can_reach(g.site_of(n_["cond"]), rs_)]
        if any(eval_cond(c_, at0, cd) is None for c_ in dom_conds):
            ok = None
    ck.ob(RID, sitestr(cd, rot[0]), ok, "daily rotation iff the record's date differs from the file's date and the file is non-empty (6/6 cases)" if ok else "daily rotation guard: %s" % table, key="checkDailyRotation|guard")
    # message date = lmsg.time().date()
    gi = S.g(ri)
    calls = [n for n in S.calls_to(ri, "checkDailyRotation")]
    folded = False
    if not calls and cd.id == ri.id:
        # the daily check is written inline in rotateIfNeeded (the caller plays the helper's role): the record's date is what the inline
        # comparison with the file's date reads, and "the call" is that comparison
        cmps = [n for n in ri.all_nodes() if ne(n)]
        if len(cmps) == 1:
            a_, b_ = cmps[0]["args"]
            calls = [{"args": [a_ if is_this_field(b_, DF) else b_], "id": cmps[0]["id"], "l": cmps[0].get("l"), "c": cmps[0].get("c"), "k": "call"}]
            calls[0] = dict(cmps[0], args=[a_ if is_this_field(b_, DF) else b_])
            folded = True
    ck.require(len(calls) == 1, "rotateIfNeeded calls checkDailyRotation %d times" % len(calls))
    arg = skip_copies(calls[0]["args"][0])
    src = deref_local(ri, arg)
    srcfn = ri
    s0 = skip_copies(src) if isinstance(src, dict) else None
    if isinstance(s0, dict) and s0.get("k") == "ref" and s0.get("dk") == "param":
        # the date is taken by the caller (send() passes lmsg.time().date()): follow the parameter
        idx_ = [i_ for i_, p_ in enumerate(ri.params) if p_.get("decl") == s0.get("decl")]
        cl_ = [c_ for c_ in S.calls_to(S.send, "rotateIfNeeded")]
        if idx_ and len(cl_) == 1 and len(cl_[0].get("args", [])) > idx_[0]:
            src = deref_local(S.send, cl_[0]["args"][idx_[0]])
            srcfn = S.send
    names, root = call_chain(src)
    okd = [x.split("::")[-1] for x in names] == ["date", "time"] and isinstance(root, dict) and is_ref_to(root, srcfn.params[0]["decl"])
    ck.ob(RID, sitestr(ri, calls[0]), okd, "the record's date is lmsg.time().date()" if okd else "the record's date is %s" % describe(src), key="rotateIfNeeded|message-date")
    # with daily rotation every path dates the file with the record's date, after all rotation checks
    isdaily = S.option_pred("RotationDaily", ri)
    keep = gi.projector(atom_eq(isdaily, True))
    asg = []
    for n in ri.calls():
        if n.get("op") == "=" and is_this_field(n["args"][0], DF):
            r = skip_copies(n["args"][1])
            if (arg.get("k") == "ref" and is_ref_to(r, arg.get("decl"))) or deref_local(ri, r).get("id") == src.get("id"):
                asg.append(n)
    writers = set()
    for f, n, how in field_writes(F, DF):
        writers.add(f.id)
    may_write = lambda call: call.get("fn") in F.fns and bool(F.reachable_from([call["fn"]], virtual=False) & writers)
    if asg:
        # only the assignments that are not overwritten again count: one that is followed by another one on every path (the inline daily block's own
        # re-dating in front of the final one) is not the value the write sees
        def overwritten(a_):
            sa_ = gi.site_of(a_)
            others_ = {gi.site_of(b_) for b_ in asg if b_ is not a_} - {None, sa_}
            return bool(others_) and sa_ is not None and gi.must_pass(others_, frm=sa_, keep=keep) and sa_ not in others_
        finals = [a_ for a_ in asg if not overwritten(a_)]
        asg = finals or asg
        a_sites = set(gi.sites_of_nodes(asg))
        must = gi.must_pass(a_sites, keep=keep)
        later = [c for c in ri.calls() if c.get("fn") in F.fns and may_write(c) and any(gi.can_reach(s, gi.site_of(c), keep=keep) for s in a_sites)]
        ok = must and not later
        ck.ob(RID, sitestr(ri, asg[0]), ok, "with daily rotation the active file is dated with the record's date on every path, after all rotation checks" if ok else
              "file date := record date: on-every-path=%s, re-dated afterwards by %s" % (must, [describe(c)[:40] for c in later]), key="rotateIfNeeded|stale-file-date")
        # the daily check itself happens before the re-dating (it needs the old date)
        ok2 = all(gi.dominated(s, {gi.site_of(calls[0])}, keep=keep) for s in a_sites)
        ck.ob(RID, sitestr(ri, asg[0]), ok2, "the daily check sees the previous date (the re-dating follows it)", key="rotateIfNeeded|redate-before-check")
    else:
        # older idiom: re-dating inside checkDailyRotation only
        inner = [n for n in cd.calls() if n.get("op") == "=" and is_this_field(n["args"][0], DF) and is_ref_to(n["args"][1], md)]
        stale = True
        if inner:
            keepd = g.projector(lambda n: (True if n.get("op") == "!=" else False) if ne(n) else None)
            stale = not g.must_pass(set(g.sites_of_nodes(inner)), keep=keepd)
        redated_by_clock = any(is_call(skip_copies(n["args"][1]), "QDate::currentDate") for f, n0, how in field_writes(F, DF) if f.id == S.m["rotate"].id for n in [f.nodes[f.parent[n0["id"]]]] if n.get("op") == "=")
        ck.ob(RID, sitestr(cd), not (stale or redated_by_clock), "file date follows the record date" if not (stale or redated_by_clock) else
              "a record whose date differs from the file's date can be written without re-dating the file (empty file: %s; size rotation re-dates by the clock: %s): days share a file and the rotated name carries the wrong day" % (stale, redated_by_clock),
              key="rotateIfNeeded|stale-file-date")
    # the start-up date is the file's modification time: nothing may write to the file between process start and that read
    wr_names = ("QIODevice::write", "QIODevice::putChar", "QFileDevice::resize", "QFile::resize", "QIODevice::ungetChar", "QFileDevice::setFileTime", "QFile::copy")
    early = [(S.fs_ctor, n) for n in S.fs_ctor.calls(wr_names)]
    for fn_ in (it,):
        mt = [n for n in fn_.calls(("QFileInfo::lastModified", "QFileInfo::fileTime", "QFileInfo::metadataChangeTime"))]
        for w in fn_.calls(wr_names):
            if mt and any(S.g(fn_).can_reach(S.g(fn_).site_of(w), S.g(fn_).site_of(m_)) for m_ in mt if S.g(fn_).site_of(w) is not None and S.g(fn_).site_of(m_) is not None):
                early.append((fn_, w))
    ck.ob(RID, sitestr(early[0][0], early[0][1]) if early else sitestr(S.fs_ctor), not early,
          "nothing writes to the log file before its modification time is read at start-up (the sink's constructor only opens it for appending)" if not early else
          "%s writes to the log file (%s) before init() reads its modification time: the file's old records are then dated with the day of this start, not the day they were written" %
          (strip_tmpl(early[0][0].name).split("::")[-1], describe(early[0][1])[:40]), key="init|write-before-mtime")
    # init(): start-up date
    g2 = S.g(it)
    fiv = [v for n in it.find(lambda n: n.get("k") == "decl") for v in n.get("vars", []) if "QFileInfo" in (v.get("type") or "")]
    ck.require(len(fiv) == 1, "init(): QFileInfo local not found")
    fd = fiv[0]["decl"]
    src0 = skip_copies(fiv[0].get("init"))
    while src0.get("k") == "cast":
        src0 = skip_copies(src0.get("e"))
    okf = src0.get("k") == "construct" and src0.get("args") and is_call(src0["args"][0], ("QFile::fileName", "QFileDevice::fileName")) and S.is_active_file(skip_copies(src0["args"][0]).get("obj"))
    ck.ob(RID, sitestr(it), okf, "start-up inspects the active file", key="init|file")
    asgs = [n for n in it.calls() if n.get("op") == "=" and is_this_field(n["args"][0], DF)]
    ex = lambda n: is_call(n, "QFileInfo::exists") and is_ref_to(skip_copies(n).get("obj"), fd)
    def szc(n):
        return n.get("k") == "binop" and is_call(n.get("lhs"), "QFileInfo::size") and const_int(n.get("rhs")) is not None
    res = {}
    for e_ in (False, True):
        for sz in (0, 7):
            def atom(n, e_=e_, sz=sz):
                if is_this_field(n, RP + "::m_initialized"):
                    return False
                if ex(n):
                    return e_
                if szc(n):
                    k = const_int(n["rhs"])
                    return bool({">": sz > k, ">=": sz >= k, "!=": sz != k, "==": sz == k, "<": sz < k, "<=": sz <= k}[n["op"]])
                return None
            keep = g2.projector(atom)
            live = g2.live(keep)
            vals = []
            for a in asgs:
                if g2.site_of(a) in live:
                    # the assigned value under this valuation: conditional expressions and flag locals are resolved
                    r = skip_copies(resolve_value(a["args"][1], atom, it))
                    if isinstance(r, dict) and r.get("k") == "cond":
                        cv_ = eval_cond(r.get("cond"), atom, it)
                        if cv_ is not None:
                            r = skip_copies(resolve_value(r.get("t") if cv_ else r.get("f"), atom, it))
                    nm, root = call_chain(r)
                    vals.append("mtime" if [x.split("::")[-1] for x in nm] == ["date", "lastModified"] and is_ref_to(root, fd) else "today" if is_call(r, "QDate::currentDate") else describe(r))
            res[(e_, sz)] = vals
    ok = res[(True, 7)] == ["mtime"] and all(res[k] == ["today"] for k in res if k != (True, 7))
    ck.ob(RID, sitestr(it), ok, "start-up: file date = last-modified date iff the file exists and is non-empty, else today" if ok else "start-up file date: %s" % res, key="init|startup-date")


def index_feeds_name(ck, S, rid):
    """rotate(): the index in the rotated name is the result of the directory scan made for the very date the name carries (a remembered or separately
    computed index is handed out again as soon as the scan would have answered differently: the rename is refused and the active file keeps growing, or - with
    compression - the previous archive of that name is overwritten)"""
    rt = S.m["rotate"]
    ni = [n for n in S.calls_to(rt, "findNextIndexForDate")]
    gn = [n for n in S.calls_to(rt, "generateRotatedFileName")]
    if len(ni) != 1 or len(gn) != 1:
        ck.ob(rid, sitestr(rt), None, "rotate(): index search / name generation not found (%d / %d)" % (len(ni), len(gn)))
        return False
    d1, d2 = skip_copies(ni[0]["args"][0]), skip_copies(gn[0]["args"][0])
    same = d1.get("k") == "ref" and d2.get("k") == "ref" and d1.get("decl") == d2.get("decl")
    ck.ob(rid, sitestr(rt, gn[0]), same, "the same date value is used for the index search and for the name" if same else
          "index is searched for %s but the name uses %s" % (describe(d1), describe(d2)), key="rotate|two-dates")
    idx_arg = deref_local(rt, gn[0]["args"][1])
    ck.ob(rid, sitestr(rt, gn[0]), idx_arg.get("id") == ni[0]["id"], "the name's index is the result of findNextIndexForDate" if idx_arg.get("id") == ni[0]["id"] else "the name's index is %s" % describe(idx_arg),
          key="rotate|index-source")
    return same


def per_date_pattern_is_fresh(ck, S, RULE):
    """the expression findNextIndexForDate(date) matches the directory entries with is the one for `date`: built in the call from the parameter, or - when it
    is kept in a data member - rebuilt whenever the date differs.  A member filled from the date under a guard that does not compare dates ("compiled on first
    use") answers with the pattern of the day it was first asked for: the next index of another day is then wrong and a rotated name is handed out again."""
    fi = S.m["findNextIndexForDate"]
    if not fi.params:
        return
    dparam = fi.params[0]["decl"]
    ms = [n for n in fi.calls() if strip_tmpl(n.get("callee") or "").split("::")[-1] in ("match", "globalMatch") and "QRegularExpression" in (n.get("callee") or "")]
    for m_ in ms:
        o = skip_copies(deref_local(fi, m_.get("obj"))) if isinstance(m_.get("obj"), dict) else None
        if not (isinstance(o, dict) and o.get("k") == "member" and o.get("dk") == "field"):
            continue
        fld = o.get("name")

        def depends_on_date(e, depth=0, seen=None):
            seen = seen if seen is not None else set()
            for x in walk(e):
                if x.get("k") == "ref" and x.get("decl") == dparam:
                    return True
                if x.get("k") == "ref" and x.get("dk") == "local" and x.get("decl") not in seen and depth < 5:
                    seen.add(x["decl"])
                    from rules.oth import _stored_values
                    if any(depends_on_date(w, depth + 1, seen) for w in _stored_values(fi, x["decl"]) if isinstance(w, dict)):
                        return True
            return False
        for a in fi.all_nodes():
            if not (a.get("k") == "call" and a.get("op") == "=" and a.get("args") and len(a["args"]) == 2):
                continue
            l = skip_copies(a["args"][0])
            if not (l.get("k") == "member" and l.get("name") == fld):
                continue
            if not depends_on_date(a["args"][1]):
                continue
            guards = [x for x in fi.ancestors(a) if x.get("k") == "if" and isinstance(x.get("cond"), dict)]
            unguarded_by_date = guards and not any(depends_on_date(x["cond"]) for x in guards)
            if unguarded_by_date:
                # the cache may be dropped elsewhere: it is right when every function that re-dates the active file (writes m_currentLogDate) also drops it
                def writes(fn_, name_):
                    return any((x.get("k") == "call" and x.get("op") == "=" and x.get("args") and skip_copies(x["args"][0]).get("k") == "member" and skip_copies(x["args"][0]).get("name") == name_) or
                               (x.get("k") == "binop" and x.get("op") == "=" and isinstance(x.get("lhs"), dict) and skip_copies(x["lhs"]).get("k") == "member" and skip_copies(x["lhs"]).get("name") == name_)
                               for x in fn_.all_nodes())
                flats = {k_: v_ for k_, v_ in S.m.items() if v_ is not None and v_.id != fi.id}
                droppers = [k_ for k_, v_ in flats.items() if writes(v_, fld)]
                redaters = [k_ for k_, v_ in flats.items() if writes(v_, RP + "::m_currentLogDate")]
                if droppers and redaters and all(k_ in droppers for k_ in redaters):
                    ck.ob(RULE, sitestr(fi, a), None, "the per-date pattern is cached in %s and dropped by every function that re-dates the active file (%s); the cache is not followed further" % (fld.split("::")[-1], ", ".join(sorted(redaters))),
                          key="findNextIndexForDate|stale-date-pattern")
                    continue
            ck.ob(RULE, sitestr(fi, a), False if unguarded_by_date else (None if guards else True),
                  "the per-date pattern kept in %s is rebuilt at every call" % fld.split("::")[-1] if not guards else
                  "the pattern for the date asked for is kept in %s and rebuilt only when %s - a condition that does not look at the date: a call for another day (a late record, a restart "
                  "without daily rotation, a day change inside rotate()) is answered with the first day's pattern, finds no file of the new day and hands out an index that exists" %
                  (fld.split("::")[-1], describe(guards[0]["cond"])[:60]) if unguarded_by_date else "the per-date pattern is cached in %s under a guard that mentions the date; the cache is not followed" % fld.split("::")[-1],
                  key="findNextIndexForDate|stale-date-pattern")


def next_index(ck, S, RULE):
    """findNextIndexForDate() = 1 + maximum index over every matching directory entry (shared with C05: a reused index
    makes rotate() overwrite or fail on an existing rotated file)"""
    F = ck.facts
    fi = S.m["findNextIndexForDate"]
    per_date_pattern_is_fresh(ck, S, RULE)
    gf = S.g(fi)
    rs = returns(fi)
    if len(rs) != 1:
        inloop = [r for r in rs if enclosing_loops(fi, r)]
        if inloop:
            ck.ob(RULE, sitestr(fi, inloop[0]), False, "the scan of the directory returns from inside the loop (%s): the result is the index of the first matching entry in listing order, not the maximum over all entries "
                  "(names sort '.10' before '.9'), so an existing rotated name is handed out again" % describe(inloop[0]), key="findNextIndexForDate|maximum")
        else:
            ck.ob(RULE, sitestr(fi), None, "findNextIndexForDate has %d returns outside the scan loop; idiom not recognised" % len(rs))
        return
    locs = {}
    for n in fi.find(lambda n: n.get("k") == "decl"):
        for v in n.get("vars", []):
            locs[v["decl"]] = v
    lin = linear(rs[0].get("e"), lambda n: n.get("decl") if n.get("k") == "ref" and n.get("dk") == "local" and n.get("decl") in locs else None)
    mx = [k for k in (lin or {}) if k]
    if lin is None or len(mx) != 1 or lin[mx[0]] != 1:
        ck.ob(RULE, sitestr(fi, rs[0]), None, "returned index %s is not max + k" % describe(rs[0].get("e")))
    else:
        k = lin.get("", 0)
        ck.ob(RULE, sitestr(fi, rs[0]), k >= 1, "returns the maximum + %d" % k if k >= 1 else "returns the maximum + %d: the highest existing rotated name is reused (rename then fails or, with .gz present, numbering collides)" % k,
              key="findNextIndexForDate|not-max-plus-one")
        mdecl = mx[0]
        ci0 = const_int(locs[mdecl].get("init")) if isinstance(locs[mdecl].get("init"), dict) else None
        # a maximum that is not started from a constant (std::accumulate, std::max_element, a helper) is not a violation: the fold is then not followed
        ok0 = (ci0 == 0) if ci0 is not None else None
        msg0 = "the maximum starts at 0 (first index is 1)" if ok0 else ("the maximum starts at %d: the first rotated file of a day gets index %d" % (ci0, ci0 + 1)) if ok0 is False else \
            "the maximum is computed by %s, which this rule does not follow" % describe(locs[mdecl].get("init"))[:60]
        ck.ob(RULE, sitestr(fi), ok0, msg0, key="findNextIndexForDate|start")
        ups = [n for n in fi.find(lambda n: n.get("k") == "binop" and n.get("op") == "=" and is_ref_to(n.get("lhs"), mdecl))]
        loops_all = find_loops(fi)
        okm = None
        detail = "%d updates, %d loops" % (len(ups), len(loops_all))
        loop = [l for l in loops_all if ups and any(a.get("id") == l["id"] for a in fi.ancestors(ups[0]))]
        hm = [x for x in fi.calls("QRegularExpressionMatch::hasMatch")]
        if len(ups) == 1 and len(loop) >= 1 and len(hm) == 1:
            u = ups[0]
            lp = loop[0]
            rhs = skip_copies(u.get("rhs"))
            us = gf.site_of(u)
            hs = gf.site_of(hm[0])
            # loop head: the element at which every iteration starts again
            head_node = lp["desugar"]["cond"] if lp.get("k") == "rangefor" else lp.get("cond")
            cond = gf.site_of(head_node) if isinstance(head_node, dict) else None
            # the candidate value: captured(<index group>).toInt(), directly or through a local
            def is_idx(x):
                x = deref_local(fi, x)
                return any(is_call(y, "QRegularExpressionMatch::captured") for y in walk(x)) and any(is_call(y, ("QString::toInt", "QString::toLongLong", "QString::toUInt")) for y in walk(x))
            cap = [x for x in walk(fi.body) if is_call(x, "QRegularExpressionMatch::captured")]
            from rules.c06 import regex_patterns
            idx_groups = set()
            for t, _a, _n in regex_patterns(F, fi):
                for gi_, (content, _pos) in enumerate(regex_groups(t)):
                    if content == "\\d+":
                        idx_groups.add(gi_ + 1)
            okgroup = bool(cap) and len(idx_groups) == 1 and all(const_int(c["args"][0]) in idx_groups for c in cap if c.get("args"))
            form = None
            strict = True
            if is_call(rhs, ("qMax", "std::max", "max")) and len(rhs.get("args", [])) == 2:
                a0, a1 = rhs["args"]
                if (is_ref_to(a0, mdecl) and is_idx(a1)) or (is_ref_to(a1, mdecl) and is_idx(a0)):
                    form = "max"
            elif is_idx(rhs):
                idxv = rhs
                gt = None
                for c in comparisons_in(fi.body):
                    cf = comparison_form(c, lambda n: "idx" if ((idxv.get("k") == "ref" and is_ref_to(n, idxv.get("decl"))) or (idxv.get("k") != "ref" and describe(skip_copies(n)) == describe(idxv))) else ("max" if is_ref_to(n, mdecl) else None))
                    if cf and cf[0].get("idx") == 1 and cf[0].get("max") == -1:
                        gt = (c, cf)
                    elif cf and cf[0].get("idx") == -1 and cf[0].get("max") == 1:
                        gt = (c, (cf[0], "wrong-direction"))
                if gt is not None:
                    c, (f, op) = gt
                    if op == "wrong-direction":
                        form = "wrong"
                    else:
                        form = "guarded"
                        strict = f.get("", 0) in (-1, 0) and op == ">="
                        keep_t = gf.projector(atoms((value_pred(fi, hm[0]), True), (lambda n: n.get("id") == c["id"], True)))
                        keep_f = gf.projector(atoms((value_pred(fi, hm[0]), True), (lambda n: n.get("id") == c["id"], False)))
                        upd_iff = gf.postdominated(hs, {us}, keep=keep_t) and (cond is None or us not in gf.reach([hs], blocked={cond}, keep=keep_f, include_start=False))
                        if not upd_iff:
                            form = "guard-mismatch"
            if form == "max":
                keep_m = gf.projector(atom_eq(value_pred(fi, hm[0]), True))
                upd_iff = gf.postdominated(hs, {us}, keep=keep_m)
                if not upd_iff:
                    form = "guard-mismatch"
            # every entry is visited: no break / return inside the loop
            exits = [x for x in walk(lp.get("body")) if x.get("k") in ("break", "return")]
            visited = not exits and (cond is None or all(gf.postdominated(hs, {cond}, keep=kp) for kp in (gf.projector(atom_eq(value_pred(fi, hm[0]), True)), gf.projector(atom_eq(value_pred(fi, hm[0]), False)))))
            detail = "form=%s, every entry visited=%s, index group ok=%s" % (form, visited, okgroup)
            if form in ("max", "guarded") and visited and strict and okgroup:
                okm = True
            elif form in ("wrong", "guard-mismatch") or exits or (form in ("max", "guarded") and not okgroup and cap and idx_groups):
                okm = False
        ck.ob(RULE, sitestr(fi), okm, "running maximum of the numeric captured index over every matching entry (no early exit)" if okm else "maximum computation %s: %s" % ("incorrect" if okm is False else "not recognised", detail),
              key="findNextIndexForDate|maximum")


def dated_before_rotation(ck, S, DF):
    """typestate: every call of rotate() is preceded, on every path from the sink's entry points, by a write of the file date"""
    F = ck.facts
    rt = S.m["rotate"]
    cls_fns = {f.id: f for f in list(S.m.values()) + [S.send]}
    INIT = RP + "::m_initialized"

    def writes_in(f):
        return [n for n in f.find(lambda n: (n.get("k") == "binop" and n.get("op") == "=" and is_this_field(n.get("lhs"), DF))
                                  or (n.get("k") == "call" and n.get("ck") == "operator" and n.get("op") == "=" and n.get("args") and is_this_field(n["args"][0], DF)))]

    def must_write(f):
        """f writes the date on every path on which it does anything (the `already initialised` early return is projected away)"""
        w = writes_in(f)
        if not w:
            return False
        g = S.g(f)
        keep = g.projector(atom_eq(lambda n: is_this_field(n, INIT), False))
        return g.must_pass(set(g.sites_of_nodes(w)), keep=keep)

    def dated_at(f, node, depth=0):
        g = S.g(f)
        site = g.site_of(node)
        if site is None:
            return False, "call has no CFG element"
        doms = set(g.sites_of_nodes(writes_in(f)))
        doms |= set(g.sites_of_nodes([c for c in f.calls() if c.get("fn") in cls_fns and c.get("fn") != f.id and must_write(cls_fns[c["fn"]])]))
        if doms and g.dominated(site, doms):
            return True, "dated in %s" % strip_tmpl(f.name).split("::")[-1]
        if depth > 5:
            return False, "call chain too deep"
        callers = [(cf, c) for cf in cls_fns.values() for c in cf.calls() if c.get("fn") == f.id]
        if not callers:
            return False, "%s is an entry point and has not dated the file at this call" % strip_tmpl(f.name).split("::")[-1]
        for cf, c in callers:
            ok, why = dated_at(cf, c, depth + 1)
            if not ok:
                return False, "reached through %s, where %s" % (strip_tmpl(cf.name).split("::")[-1], why)
        return True, "every caller has dated the file"

    sites = [(f, c) for f in cls_fns.values() for c in f.calls() if c.get("fn") == rt.id]
    ck.require(len(sites) >= 3, "rotate() is called from %d sites, 3 were confirmed by hand" % len(sites))
    for f, c in sites:
        ok, why = dated_at(f, c)
        short = strip_tmpl(f.name).split("::")[-1]
        ck.ob("C09-O6", sitestr(f, c), ok, "rotate() in %s runs with a dated file (%s)" % (short, why) if ok else
              "rotate() in %s can run before m_currentLogDate is set (%s): the rotated file is named after the clock, not after the day of its records" % (short, why), key="rotate|undated|%s" % short)
