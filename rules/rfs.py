"""Shared anchors and helpers for the file-sink properties C05-C10."""
from engine.util import *

RS = "QtLogger::RotatingFileSink"
RP = RS + "::RotatingFileSinkPrivate"
FS = "QtLogger::FileSink"
IO = "QtLogger::IODeviceSink"
LM = "QtLogger::LogMessage"

OPEN_FLAGS = {"ReadOnly": 1, "WriteOnly": 2, "Append": 4, "Truncate": 8, "Text": 16}
METHODS = ("init", "rotateIfNeeded", "checkStartupRotation", "checkDailyRotation", "checkSizeRotation", "baseDir", "generateRotatedFileName",
           "findNextIndexForDate", "compressFile", "findRotatedFiles", "removeOldFiles", "rotate")


class Sink:
    def __init__(self, ck):
        from engine.inline import flatten
        F = ck.facts
        self.F = F
        raw_send = F.fn(RS + "::send", flat=False)
        raw = self._resolve_roles(F, raw_send)
        raw_io = F.fn(IO + "::send", flat=False)
        raw_ctor = [f for f in F.fn_all(FS + "::FileSink") if f.d.get("kind") == "ctor" and not f.d.get("copyctor") and not f.d.get("movector")][0]
        # the CRC routine matters to C05-O8 / C08 only: a sink that computes its checksum differently (incrementally, through zlib) must not make the
        # other properties' checks lose their footing
        crcs = [f for f in F.fn_all("calculateCRC32") if f.body is not None]
        raw_crc = crcs[0] if len(crcs) == 1 else None
        # the functions the rules look at as units; every other private helper is spliced into its caller, so the
        # rules see the same code whether or not a maintainer has split a function
        self.units = {f.id for f in raw.values()} | {raw_send.id, raw_io.id, raw_ctor.id} | ({raw_crc.id} if raw_crc is not None else set())
        self.m = {name: flatten(F, f, stop=self.units) for name, f in raw.items()}
        self.send = flatten(F, raw_send, stop=self.units)
        self.io_send = flatten(F, raw_io, stop=self.units)
        self.fs_ctor = flatten(F, raw_ctor, stop=self.units)
        self.fs_flush = F.fn(FS + "::flush")
        self.fs_file = F.fn(FS + "::file")
        self._crc = flatten(F, raw_crc, stop=self.units) if raw_crc is not None else None
        ck.touch(self.send, self.io_send, self.fs_ctor, *self.m.values())
        self._g = {}

    @property
    def crc(self):
        if self._crc is None:
            raise AnalysisBroken("anchor function calculateCRC32 no longer resolves")
        return self._crc

    def option_pred(self, name, fn=None):
        """predicate over AST nodes: "the sink was created with RotatingFileSink::<name>" - a bool member initialised from
        options.testFlag(<name>), or testFlag(<name>) / a mask test on a member that keeps the option set"""
        F = self.F
        en = F.enums.get("QtLogger::RotatingFileSink::Option")
        val = {e["name"]: e["value"] for e in en["enumerators"]}.get(name) if en else None
        flags = set()
        for c in F.fns.values():
            if c.cls == RP and c.d.get("kind") == "ctor":
                for i in c.inits:
                    e = skip_copies(i.get("e")) if isinstance(i.get("e"), dict) else None
                    if i.get("member") and isinstance(e, dict) and is_call(e, "QFlags::testFlag") and e.get("args") and const_int(e["args"][0]) == val:
                        flags.add(strip_tmpl(i["member"]))

        def pred(n):
            if not isinstance(n, dict):
                return False
            if any(is_this_field(n, q) for q in flags):
                return True
            x = skip_copies(n)
            if is_call(x, "QFlags::testFlag") and x.get("args") and x.get("ck") == "member":
                o = skip_copies(x.get("obj"))
                a = x["args"][0]
                v = const_int(a)
                if v is None and fn is not None:
                    v = const_int(deref_local(fn, a))
                if v == val and isinstance(o, dict) and o.get("k") == "member" and is_this_field(o, strip_tmpl(o.get("name", ""))) and "QFlags" in (o.get("type") or ""):
                    return True
            return False
        return pred

    def g(self, fn):
        if fn.id not in self._g:
            self._g[fn.id] = Graph(fn)
        return self._g[fn.id]

    OPTIONAL = ("checkStartupRotation", "baseDir")

    def _resolve_roles(self, F, send):
        """the private functions the rules look at, by name and - when a maintainer renamed one - by role (what it calls /
        what it is called with); a role that has been folded into its caller is simply absent (optional ones only)"""
        out = {}
        members = [f for f in F.fns.values() if f.cls == RP and f.body is not None and not f.lambda_of]

        def calls_qt(f, names):
            return any(name_is(strip_tmpl(n.get("callee") or ""), names) for n in f.calls())

        def callees(f):
            return [F.fns[n["fn"]] for n in f.calls() if n.get("fn") in F.fns and F.fns[n["fn"]].cls == RP]
        for name in METHODS:
            f = F.fn(RP + "::" + name, optional=True, flat=False)
            if f is not None:
                out[name] = f
        def pick(name, cands, why):
            if name in out:
                return
            cands = [c for c in {c.id: c for c in cands}.values() if c.id not in {x.id for x in out.values()}]
            if len(cands) == 1:
                out[name] = cands[0]
                self.renamed = getattr(self, "renamed", []) + ["%s is %s (%s)" % (name, strip_tmpl(cands[0].name).split("::")[-1], why)]
        pick("rotate", [f for f in members if calls_qt(f, ("QFile::rename",))], "the member that renames the log file")
        pick("compressFile", [f for f in members if calls_qt(f, ("qCompress",))], "the member that calls qCompress")
        pick("findRotatedFiles", [f for f in members if calls_qt(f, ("std::sort", "std::stable_sort"))], "the member that sorts the directory entries")
        pick("removeOldFiles", [f for f in members if "findRotatedFiles" in out and any(n.get("fn") == out["findRotatedFiles"].id for n in f.calls())], "the member that consumes findRotatedFiles()")
        pick("findNextIndexForDate", [f for f in members if f.d.get("ret") == "int" and calls_qt(f, ("QDir::entryList",))], "the int-valued member that lists the directory")
        pick("generateRotatedFileName", [f for f in members if "QString" in (f.d.get("ret") or "") and len(f.params) == 2 and "QDate" in f.params[0].get("type", "")], "QString f(QDate, int)")
        sc = [F.fns[n["fn"]] for n in send.calls() if n.get("fn") in F.fns and F.fns[n["fn"]].cls == RP]
        pick("rotateIfNeeded", [f for f in sc if f.params and "LogMessage" in f.params[0].get("type", "")], "the member send() passes the message to")
        pick("init", [f for f in sc if not f.params], "the parameterless member send() calls first")
        if "rotateIfNeeded" in out:
            cs = callees(out["rotateIfNeeded"])
            pick("checkDailyRotation", [f for f in cs if len(f.params) == 1 and "QDate" in f.params[0].get("type", "")], "the member rotateIfNeeded() calls with a date")
            pick("checkSizeRotation", [f for f in cs if len(f.params) == 1 and "QDate" not in f.params[0].get("type", "") and "LogMessage" not in f.params[0].get("type", "")], "the member rotateIfNeeded() calls with a size")
        # a check helper folded into its only caller: the role is played by that caller (the rules look for the guard, not for the name)
        for role in ("checkSizeRotation", "checkDailyRotation"):
            if role not in out and "rotateIfNeeded" in out:
                out[role] = out["rotateIfNeeded"]
                self.renamed = getattr(self, "renamed", []) + ["%s is folded into rotateIfNeeded" % role]
        missing = [m for m in METHODS if m not in out and m not in self.OPTIONAL]
        if missing:
            raise AnalysisBroken("anchor function(s) %s of RotatingFileSinkPrivate no longer resolve (by name or by role)" % missing)
        return out

    def fields_for_count(self, N):
        """{qualified field name: value} of the private object's integer / enum / bool members after construction with
        maxFileCount = N: the constructor's member initialisers evaluated by cases (engine/conc.py); members whose initialiser does not
        depend on the count only, or is outside the evaluable fragment, are absent.  m_maxFileCount itself is always present."""
        from engine.conc import Conc, Unknown
        out = {RP + "::m_maxFileCount": N}
        cts = [f for f in self.F.fn_all(RP + "::RotatingFileSinkPrivate") if f.d.get("kind") == "ctor" and not f.d.get("copyctor") and not f.d.get("movector")]
        if len(cts) != 1:
            return out
        ct = cts[0]
        cnt = [p_ for p_ in ct.params if "count" in (p_.get("name") or "").lower()]
        if len(cnt) != 1:
            return out
        env = {"__fn__": ct, cnt[0]["decl"]: N}
        for p_ in ct.params:
            if p_["decl"] != cnt[0]["decl"]:
                env["__unk__:%s" % p_["decl"]] = True
        for i in ct.inits:
            if not i.get("member") or not isinstance(i.get("e"), dict):
                continue
            if not any(x.get("k") == "ref" and x.get("decl") == cnt[0]["decl"] for x in walk(i["e"])):
                continue
            try:
                v = Conc(self.F).eval(i["e"], dict(env))
            except Unknown:
                continue
            if isinstance(v, bool):
                v = int(v)
            if isinstance(v, int):
                out[strip_tmpl(i["member"])] = v
        return out

    def count_leaf(self, N, extra=None):
        """leaf for numeric_atom: the value of any member that the constructor derives from maxFileCount = N"""
        tab = self.fields_for_count(N)

        def leaf(n):
            if extra is not None:
                v = extra(n)
                if v is not None:
                    return v
            x = skip_copies(n) if isinstance(n, dict) else None
            if isinstance(x, dict) and x.get("k") == "member" and x.get("dk") == "field" and skip_copies(x.get("base") or {}).get("k") == "this":
                return tab.get(strip_tmpl(x.get("name") or ""))
            return None
        return leaf

    def record_writes(self, fn):
        """calls in fn that hand the record to the device: the base class's send(<the message>), or m_device->write(...) itself when a protected write
        helper of the base class has been spliced in"""
        out = []
        for n in fn.calls():
            c = strip_tmpl(n.get("callee") or "")
            if name_is(c, ("QIODevice::write", "QIODevice::putChar")) and is_this_field(unwrap_ptr(n.get("obj")), IO + "::m_device"):
                out.append(n)
            elif n.get("qualified") and c.split("::")[-1] == "send" and skip_copies(n.get("obj") or {"k": "this"}).get("k") == "this" and arg_is_param(n, 0, fn, 0):
                out.append(n)
        return out

    def message_derived(self, fn, call):
        """some argument of the call is computed from fn's message parameter (the message itself, its date, the length of its encoded text ...)"""
        pd = fn.params[0].get("decl") if fn.params else None
        return any(x.get("k") == "ref" and x.get("decl") == pd for a in (call.get("args") or []) for x in walk(expand_locals(fn, a)))

    def calls_to(self, fn, role):
        """calls in fn of the function playing `role` (resolved by identity, not by spelling)"""
        t = self.m.get(role)
        return [n for n in fn.calls() if t is not None and n.get("fn") == t.id]

    def owner(self, n):
        """the (flattened) unit function whose tree contains node object n"""
        if not hasattr(self, "_own"):
            self._own = {}
            for f in self.flat_units():
                for x in f.all_nodes():
                    self._own[id(x)] = f
        return self._own.get(id(n))

    def flat_units(self):
        return list(self.m.values()) + [self.send, self.io_send, self.fs_ctor] + ([self._crc] if self._crc is not None else [])

    def destructive_sites(self):
        """[(Fn, node, kind)] for every destructive file call reachable from the sinks' entry points; code of private helpers
        is seen inside the unit it was spliced into, not as a function of its own"""
        from engine.inline import owner_of
        F = self.F
        out, seen = [], set()
        flat = {f.id: f for f in self.flat_units()}
        for fid in sorted(self.entry_reach()):
            f = F.fns.get(fid)
            if f is None:
                continue
            if fid in flat:
                f = flat[fid]
            elif owner_of(F, f, stop=self.units).id in flat and owner_of(F, f, stop=self.units).id != fid:
                continue   # spliced into its owner
            for n in sorted(f.all_nodes(), key=lambda n: n["id"]):
                k = destructive_kind(n)
                if k:
                    key = (f.file if n["id"] < 1000000 else n.get("inl_file", ""), n.get("l"), n.get("c"), k)
                    if key in seen:
                        continue
                    seen.add(key)
                    out.append((f, n, k))
        return out

    def is_active_file(self, n, fn=None):
        """expression denoting the sink's open QFile object: q_ptr->file() / file(), possibly held in a local"""
        n = unwrap_ptr(n)
        fn = fn or (self.owner(n) if isinstance(n, dict) else None)
        if fn is not None:
            n = unwrap_ptr(deref_local(fn, n))
        if not is_call(n, FS + "::file"):
            return False
        o = unwrap_ptr(skip_copies(n).get("obj"))
        return isinstance(o, dict) and (o.get("k") == "this" or is_this_field(o, RP + "::q_ptr"))

    def entry_reach(self):
        F = self.F
        roots = [self.send, self.fs_ctor, self.fs_flush]
        roots += [f for f in F.fn_all(RS + "::RotatingFileSink") if f.d.get("kind") == "ctor"]
        roots += [f for f in F.fn_all(FS + "::~FileSink")] + [f for f in F.fn_all(RS + "::~RotatingFileSink")]
        return F.reachable_from(roots, virtual=False)


def destructive_kind(n):
    """classification of a call node that can destroy file data; None otherwise"""
    if not (isinstance(n, dict) and n.get("k") == "call"):
        return None
    c = strip_tmpl(n.get("callee") or "")
    if c in ("QFile::remove", "QDir::remove", "QDir::removeRecursively", "QDir::rmdir", "QDir::rmpath", "unlink", "remove", "std::remove", "std::filesystem::remove", "std::filesystem::remove_all", "QFile::moveToTrash"):
        if c in ("remove", "std::remove") and len(n.get("args", [])) != 1:
            return None
        return "remove"
    if c in ("QFile::rename", "QDir::rename", "rename", "std::rename", "std::filesystem::rename"):
        return "rename"
    if c in ("QFile::resize", "QFileDevice::resize", "truncate", "ftruncate", "std::filesystem::resize_file"):
        return "resize"
    if c in ("QFile::copy",):
        return "copy"
    if c in ("QFile::open", "QIODevice::open", "QFileDevice::open", "QSaveFile::open") and n.get("args"):
        fl = const_int(n["args"][0])
        if fl is None:
            return "open(?)"
        if fl & OPEN_FLAGS["WriteOnly"] and (not fl & OPEN_FLAGS["Append"] or fl & OPEN_FLAGS["Truncate"]):
            return "open(truncating)"
        return None
    if c in ("fopen", "open"):
        return "open(?)"
    return None


def open_flags(n):
    if is_call(n, ("QFile::open", "QIODevice::open", "QFileDevice::open", "QSaveFile::open")) and skip_copies(n).get("args"):
        return const_int(skip_copies(n)["args"][0])
    return None


def flagnames(v):
    if v is None:
        return "?"
    return "|".join(k for k, b in OPEN_FLAGS.items() if v & b) or "0"


def closed_before_handover(ck, S, RID, tag):
    """rotate(): the sink's own QFile buffers writes (16 KiB): it must be closed or flushed on every path before the file is
    renamed away and before compressFile() reads it from disk - otherwise the tail written last is in neither file"""
    from engine.cfg import Graph
    rt = S.m["rotate"]
    g = S.g(rt)
    settle = [n for n in rt.calls(("QFileDevice::close", "QFile::close", "QIODevice::close", "QFileDevice::flush", "QFile::flush")) if S.is_active_file(n.get("obj"))]
    ssites = set(g.sites_of_nodes(settle))
    targets = [("renamed", n) for n in rt.calls() if destructive_kind(n) == "rename"] + [("compressed", n) for n in S.calls_to(rt, "compressFile")]
    for what, n in targets:
        ts = g.site_of(n)
        ok = bool(ssites) and ts is not None and g.dominated(ts, ssites)
        # a write to the active file between the flush/close and the hand-over would fill the buffer again: rotate() writes nothing (C05-O5)
        ck.ob(RID, sitestr(rt, n), ok, "the active file is closed/flushed on every path before it is %s" % what if ok else
              "the active file is %s while its last records can still sit in the QFile write buffer: they end up in no file (the %s)" %
              (what, "compressed copy is made from the on-disk prefix and the original is then removed" if what == "compressed" else "buffer is flushed into the renamed file later, out of order"),
              key="rotate|%s-before-close|%s" % (what, tag))
    return len(targets)


def stale_size(ck, S, rid):
    """a size of the active file that was read before a rotation says nothing about the file after it: between the read of
    QFile::size() (kept in a local, handed to a helper) and each later use of that value no rotation may run.  Looked at in
    rotateIfNeeded() and in the check helpers it calls; a call of a helper that can reach rotate() counts as a rotation."""
    rot_id = S.m["rotate"].id
    by_id = {f.id: f for f in S.m.values()}

    def reaches_rotate(fid, seen=None):
        seen = seen or set()
        if fid == rot_id:
            return True
        if fid in seen or fid not in by_id:
            return False
        seen.add(fid)
        return any(reaches_rotate(n.get("fn"), seen) for n in by_id[fid].calls() if n.get("fn") in by_id)
    n_uses, bad, unsure = 0, None, None
    for role in ("rotateIfNeeded", "checkDailyRotation", "checkSizeRotation"):
        fn = S.m.get(role)
        if fn is None:
            continue
        g = S.g(fn)

        def site(x):
            s_ = g.site_of(x)
            if s_ is None:
                for a_ in fn.ancestors(x):
                    if g.site_of(a_) is not None:
                        return g.site_of(a_)
            return s_
        rot_calls = [n for n in fn.calls() if n.get("fn") in by_id and reaches_rotate(n.get("fn"))]
        reads = [n for n in fn.calls() if is_call(n, ("QFileDevice::size", "QFile::size", "QIODevice::size")) and S.is_active_file(n.get("obj"), fn)]
        for rd in reads:
            holders = set()
            for dn in fn.find(lambda x: x.get("k") == "decl"):
                for v in dn.get("vars", []):
                    if isinstance(v.get("init"), dict) and any(y.get("id") == rd.get("id") for y in walk(v["init"])):
                        holders.add(v["decl"])
            for _ in range(3):
                for dn in fn.find(lambda x: x.get("k") == "decl"):
                    for v in dn.get("vars", []):
                        if v.get("decl") not in holders and isinstance(v.get("init"), dict) and skip_copies(v["init"]).get("k") == "ref" and skip_copies(v["init"]).get("decl") in holders:
                            holders.add(v["decl"])
            if not holders:
                continue
            rs = site(rd)
            for u in fn.all_nodes():
                if u.get("k") != "ref" or u.get("decl") not in holders:
                    continue
                us = site(u)
                if us is None or rs is None:
                    continue
                par_ = fn.nodes.get(fn.parent.get(u["id"]))
                if isinstance(par_, dict) and par_.get("k") == "binop" and par_.get("op") == "=" and skip_copies(par_.get("lhs") or {}).get("id") == u["id"]:
                    continue        # the holder is overwritten here, not read
                n_uses += 1
                for rc in rot_calls:
                    r_ = site(rc)
                    if r_ is None or r_ == us:
                        continue       # the value handed to the very call that may rotate is used before that rotation
                    if g.can_reach(rs, r_) and g.can_reach(r_, us):
                        # the holder may be given a fresh value between the rotation and the use (`if (checkDaily()) size = 0;`): whether every rotating
                        # path passes through that assignment depends on the helper's return value, which this rule does not correlate
                        reass = [a_ for a_ in fn.all_nodes() if a_.get("k") == "binop" and a_.get("op") == "=" and skip_copies(a_.get("lhs") or {}).get("k") == "ref" and skip_copies(a_["lhs"]).get("decl") in holders]
                        if any(site(a_) is not None and g.can_reach(r_, site(a_)) and g.can_reach(site(a_), us) for a_ in reass):
                            unsure = unsure or (fn, rd, u, rc)
                        else:
                            bad = bad or (fn, rd, u, rc)
    if bad:
        fn, rd, u, rc = bad
        ck.ob(rid, sitestr(fn, u), False, "%s(): the size read at line %s is still used after %s may have rotated the file: the check sees the size of the file that was just rotated away, rotates the fresh "
              "empty file as well (an empty file is compressed into an invalid archive) or judges the limit by the wrong size" % (strip_tmpl(fn.name).split("::")[-1], rd.get("l"), describe(rc)[:40]),
              key="rotateIfNeeded|stale-size")
    elif unsure:
        fn, rd, u, rc = unsure
        ck.ob(rid, sitestr(fn, u), None, "%s(): the size read at line %s is used after %s may have rotated the file, and is re-assigned on some path in between; whether every rotating path passes the "
              "re-assignment is not decided by this rule" % (strip_tmpl(fn.name).split("::")[-1], rd.get("l"), describe(rc)[:40]), key="rotateIfNeeded|stale-size")
    else:
        ck.ob(rid, sitestr(S.m["rotateIfNeeded"]), True, "every size of the active file is read after the last rotation that can precede its use (%d uses of held sizes)" % n_uses, key="rotateIfNeeded|stale-size")


NARROW = ("int", "unsigned int", "short", "unsigned short", "char", "unsigned char", "signed char", "qint32", "quint32", "qint16", "quint16", "uint", "ushort", "bool")


def size_not_narrowed(ck, S, rid):
    """QFile::size() is a qint64; held in an int it wraps at 2 GiB: with a limit near INT_MAX (or an existing file of 2 GiB and more) the sum
    goes negative and the file is never rotated again"""
    n_reads, bad = 0, []
    for fn in S.flat_units():
        for n in fn.all_nodes():
            if is_call(n, ("QFileDevice::size", "QFile::size", "QIODevice::size", "QFileDevice::pos", "QIODevice::pos", "QFileInfo::size")):
                n_reads += 1
            # implicit conversions are not nodes of the fact base: compare the declared type with the initialiser's / assigned value's type
            pairs = []
            if n.get("k") == "decl":
                pairs = [((v.get("type") or ""), v.get("init")) for v in n.get("vars", []) if isinstance(v.get("init"), dict) and not v.get("auto")]
            elif n.get("k") == "binop" and n.get("op") == "=" and isinstance(n.get("lhs"), dict) and isinstance(n.get("rhs"), dict):
                pairs = [((n["lhs"].get("type") or ""), n["rhs"])]
            for t_, e_ in pairs:
                e0 = skip_copies(e_)
                if t_.replace("const ", "").replace("&", "").strip() in NARROW and (e0.get("type") or "").replace("const ", "").strip() in ("long long", "qint64", "long", "unsigned long long", "quint64", "unsigned long") and \
                        any(is_call(x, ("QFileDevice::size", "QFile::size", "QIODevice::size", "QFileDevice::pos", "QIODevice::pos", "QFileInfo::size")) for x in walk(e0)):
                    bad.append((fn, {"e": e0, "type": t_, "l": e0.get("l"), "c": e0.get("c"), "id": e0.get("id")}))
            if n.get("k") == "cast" and (n.get("castkind") == "IntegralCast") and (n.get("type") or "").replace("const ", "").strip() in NARROW:
                e = n.get("e")
                if isinstance(e, dict) and (e.get("type") or "").replace("const ", "").strip() in ("long long", "qint64", "long", "unsigned long long", "quint64", "unsigned long") and \
                        any(is_call(x, ("QFileDevice::size", "QFile::size", "QIODevice::size", "QFileDevice::pos", "QIODevice::pos", "QFileInfo::size")) for x in walk(e)):
                    bad.append((fn, n))
    for fn, n in bad:
        ck.ob(rid, sitestr(fn, n), False, "%s: the 64-bit file size %s is converted to %s: at 2 GiB it wraps, the rotation test compares a negative number with the limit and the file is never rotated again "
              "(limit within one record of INT_MAX, or an existing active file of 2 GiB and more)" % (strip_tmpl(fn.name).split("::")[-1], describe(n.get("e"))[:40], n.get("type")), key="size-narrowed|%s" % strip_tmpl(fn.name).split("::")[-1])
    if not bad:
        ck.ob(rid, "(rotating sink)", True if n_reads else None, "%d reads of a file size / position, none converted to a type narrower than 64 bits" % n_reads, key="size-narrowed|none")


def time_base_agreement(ck, S, rid):
    """every date that enters the sink's date state (the day the active file belongs to, the date in rotated names) is taken in one time
    base.  Local: QDate::currentDate(), QDateTime::currentDateTime(), QFileInfo::lastModified(), x.toLocalTime().  UTC:
    currentDateTimeUtc(), x.toUTC().  The message's time() has the base of LogMessage::m_time's initialiser."""
    F = S.F
    LMT = "QtLogger::LogMessage::m_time"

    def base_of(fn, e, depth=0):
        e = skip_copies(deref_local(fn, e)) if isinstance(e, dict) else None
        if not isinstance(e, dict) or depth > 6:
            return None
        if e.get("k") == "call":
            c = strip_tmpl(e.get("callee") or "")
            short = c.split("::")[-1]
            if c in ("QDate::currentDate", "QDateTime::currentDateTime", "QTime::currentTime") or short in ("lastModified", "birthTime", "metadataChangeTime", "lastRead", "toLocalTime", "fileTime"):
                return "local"
            if c in ("QDateTime::currentDateTimeUtc",) or short in ("toUTC",):
                return "utc"
            if short in ("fromSecsSinceEpoch", "fromMSecsSinceEpoch"):
                a = e.get("args", [])
                return "utc" if len(a) > 1 and const_int(a[1]) == 1 else "local"
            if c == "QtLogger::LogMessage::time":
                # the member's default initialiser / the constructors' initialisers
                bases = set()
                rec = F.records.get("QtLogger::LogMessage") or {}
                for fld in rec.get("fields", []):
                    if fld.get("name") == "m_time" and isinstance(fld.get("init"), dict):
                        bases.add(base_of(None, fld["init"], depth + 1))
                for ct in F.fn_all("QtLogger::LogMessage::LogMessage"):
                    for i in ct.inits:
                        if i.get("member") == LMT and isinstance(i.get("e"), dict) and not ct.d.get("copyctor") and not ct.d.get("movector"):
                            x = skip_copies(i["e"])
                            if x.get("k") == "defaultinit":
                                x = skip_copies(x.get("e") or {})
                            bases.add(base_of(ct, x, depth + 1))
                bases.discard(None)
                return bases.pop() if len(bases) == 1 else None
            if short in ("date", "addDays", "addSecs", "addMSecs", "toTimeSpec") and isinstance(e.get("obj"), dict):
                return base_of(fn, e["obj"], depth + 1)
        if e.get("k") == "cond":
            a, b = base_of(fn, e.get("t"), depth + 1), base_of(fn, e.get("f"), depth + 1)
            return a if a == b else None
        if e.get("k") in ("construct", "cast", "defaultinit") and (e.get("args") or e.get("e")):
            return base_of(fn, (e.get("args") or [e.get("e")])[0], depth + 1)
        return None
    fld = RP + "::m_currentLogDate"
    found = []
    for f in S.flat_units():
        for n in f.all_nodes():
            rhs = None
            if n.get("k") == "binop" and n.get("op") == "=" and is_this_field(n.get("lhs"), fld):
                rhs = n.get("rhs")
            elif n.get("k") == "call" and n.get("ck") == "operator" and n.get("op") == "=" and n.get("args") and is_this_field(n["args"][0], fld):
                rhs = n["args"][1]
            if rhs is None:
                continue
            if any(is_this_field(x, fld) for x in walk(rhs)):
                continue
            found.append((f, n, base_of(f, rhs)))
    seen, uniq = set(), []
    for f, n, b in found:
        k = (n.get("l"), n.get("c"))
        if k not in seen:
            seen.add(k)
            uniq.append((f, n, b))
    bases = {b for _, _, b in uniq if b}
    unk = [(f, n) for f, n, b in uniq if b is None]
    if len(bases) > 1:
        f_, n_, b_ = [x for x in uniq if x[2] == "utc"][0]
        ck.ob(rid, sitestr(f_, n_), False, "the day of the active file is taken in two time bases: %s assigns a UTC date (%s) while other sites assign local dates (QDate::currentDate(), the file's modification time): "
              "whenever the local date differs from the UTC date, a restart rotates spuriously and rotated names stop being monotone in rotation order, so retention deletes a newer file and keeps an older one" %
              (strip_tmpl(f_.name).split("::")[-1], describe(n_.get("rhs") or n_["args"][1])[:40]), key="date-state|time-base")
    else:
        ck.ob(rid, sitestr(S.m["rotateIfNeeded"]), None if (unk and not bases) else True, "the %d assignments of the active file's day all take %s dates%s" % (len(uniq), "/".join(sorted(bases)) or "?", " (%d not classified)" % len(unk) if unk else ""), key="date-state|time-base")


def reopened_after_close(ck, S, rid, consequence):
    """rotate() closes the active file; every path out of it must have reopened it (an early return on a failed rename leaves the sink
    writing to a closed device)"""
    fn = S.m["rotate"]
    g = S.g(fn)
    closes = [n for n in fn.calls(("QFileDevice::close", "QFile::close", "QIODevice::close")) if S.is_active_file(n.get("obj"))]
    opens = [n for n in fn.calls(("QFile::open", "QIODevice::open", "QFileDevice::open")) if S.is_active_file(n.get("obj"))]
    if not closes or not opens:
        ck.ob(rid, sitestr(fn), None if not closes else False, "rotate(): %d close / %d open of the active file" % (len(closes), len(opens)), key="rotate|no-reopen")
        return
    osites = set(g.sites_of_nodes(opens))
    for c in closes:
        ok = g.postdominated(g.site_of(c), osites)
        ck.ob(rid, sitestr(fn, c), ok, "after close() every path reopens the active file" if ok else "a path leaves rotate() with the active file closed: %s" % consequence, key="rotate|no-reopen")


def day_readback(ck, S, rid):
    """init() reads the day of the active file's content back from persistent state.  When that state is the file's modification time, the
    kernel sets it whenever buffered records are written out - possibly a day after they were logged.  The sink must then be the writer of
    that state as well: on destruction and on flush() (the two places where it writes the buffer out without a rotation) the modification
    time is set from the day of the content (m_currentLogDate / the message's time) whenever that day is not today."""
    from engine.inline import flatten
    from engine.cfg import eval_cond
    F = S.F
    fld = RP + "::m_currentLogDate"
    init = S.m["init"]
    readers = []
    for n in init.all_nodes():
        rhs = None
        if n.get("k") == "binop" and n.get("op") == "=" and is_this_field(n.get("lhs"), fld):
            rhs = n.get("rhs")
        elif n.get("k") == "call" and n.get("ck") == "operator" and n.get("op") == "=" and n.get("args") and is_this_field(n["args"][0], fld):
            rhs = n["args"][1]
        if rhs is None:
            continue
        src = [x for x in walk(deref_local(init, rhs)) if x.get("k") == "call" and strip_tmpl(x.get("callee") or "").split("::")[-1] in ("lastModified", "fileTime")]
        if src:
            readers.append((n, src[0]))
    if not readers:
        ck.ob(rid, sitestr(init), None if any(strip_tmpl(x.get("callee") or "").split("::")[-1] in ("lastModified", "fileTime") for x in init.calls()) else True,
              "init() does not date the active file by its modification time", key="day-state|readback")
        return
    MOD = 3  # QFileDevice::FileModificationTime

    def stamps(fn):
        out = []
        for c in fn.calls():
            if strip_tmpl(c.get("callee") or "").split("::")[-1] != "setFileTime" or len(c.get("args", [])) < 2:
                continue
            if not S.is_active_file(c.get("obj"), fn):
                continue
            kind = const_int(c["args"][1])
            if kind is None:
                kind = const_int(deref_local(fn, c["args"][1]))
            out.append((c, kind))
        return out

    def value_kind(fn, c):
        a = deref_local(fn, c["args"][0])
        nodes = list(walk(a))
        for x in list(nodes):
            if x.get("k") == "ref" and x.get("dk") == "local":
                nodes += list(walk(deref_local(fn, x)))
        if any(is_this_field(x, fld) or is_call(x, LM + "::time") for x in nodes):
            return "content"
        if any(x.get("k") == "call" and strip_tmpl(x.get("callee") or "") in ("QDate::currentDate", "QDateTime::currentDateTime", "QDateTime::currentDateTimeUtc") for x in nodes):
            return "clock"
        return None

    daily = S.option_pred("RotationDaily")
    INIT = RP + "::m_initialized"

    def scenario(fn):
        """the sink has logged on day D (daily rotation, initialised, non-empty file) and today is D+1"""
        daily = S.option_pred("RotationDaily", fn)
        def is_today(x):
            return is_call(skip_copies(deref_local(fn, x)), "QDate::currentDate")

        def is_day(x):
            return is_this_field(skip_copies(deref_local(fn, x)), fld)

        def atom(n):
            n = skip_copies(n)
            if not isinstance(n, dict):
                return None
            if daily(n) or is_this_field(n, INIT):
                return True
            if is_call(n, "QDate::isValid") and is_day(n.get("obj")):
                return True
            if n.get("k") == "call" and n.get("ck") == "member" and strip_tmpl(n.get("callee") or "").split("::")[-1] == "flush" and S.is_active_file(n.get("obj"), fn):
                return True
            op, a, b = None, None, None
            if n.get("k") == "call" and n.get("ck") == "operator" and len(n.get("args", [])) == 2:
                op, a, b = n.get("op"), n["args"][0], n["args"][1]
            elif n.get("k") == "binop":
                op, a, b = n.get("op"), n.get("lhs"), n.get("rhs")
            if op in ("==", "!=", "<", ">", "<=", ">="):
                if is_day(a) and is_today(b):
                    return {"==": False, "!=": True, "<": True, "<=": True, ">": False, ">=": False}[op]
                if is_today(a) and is_day(b):
                    return {"==": False, "!=": True, "<": False, "<=": False, ">": True, ">=": True}[op]
                sz = lambda x: isinstance(skip_copies(deref_local(fn, x)), dict) and skip_copies(deref_local(fn, x)).get("k") == "call" and \
                    strip_tmpl(skip_copies(deref_local(fn, x)).get("callee") or "").split("::")[-1] in ("size", "pos") and S.is_active_file(skip_copies(deref_local(fn, x)).get("obj"), fn)
                if sz(a) and const_int(b) == 0:
                    return {"==": False, "!=": True, "<": False, "<=": False, ">": True, ">=": True}[op]
                if sz(a) and const_int(b) == 1:
                    return {"<": False, ">=": True}.get(op)
            return None
        return atom

    exits = []
    dt = [f for f in F.fn_all(RS + "::~RotatingFileSink") if f.body is not None]
    fl = [f for f in F.fn_all(RS + "::flush") if f.body is not None]
    exits.append(("destruction", "~RotatingFileSink()", dt[0] if dt else None,
                  "a service that logged its last record before midnight and is stopped after it leaves the file dated one day late: the next run appends the new day's records to it"))
    exits.append(("flush", "flush()", fl[0] if fl else None,
                  "records logged before midnight and flushed after it (SimplePipeline::flush(), the qFatal path) leave the file dated one day late; a process that ends without destroying the sink "
                  "is restarted into a file that mixes two days"))
    anywhere = [(f, c, k) for f in F.fns.values() if f.cls in (RS, RP) and f.body is not None for c, k in stamps(f)]
    # per-record stamping in send() after the write is the other sound arrangement
    snd = S.send
    per_record = [c for c, k in stamps(snd) if k == MOD]
    for tag, name, raw, consequence in exits:
        if raw is None:
            if per_record:
                ck.ob(rid, sitestr(snd, per_record[0]), None, "the modification time is set per record in send(); %s not checked" % name, key="day-state|" + tag)
                continue
            ck.ob(rid, sitestr(init, readers[0][1]), False if not anywhere else None,
                  "init() reads the day of the active file's content from its modification time, but on %s the sink does not set it: the kernel stamps the file when the buffered records are written out. %s" % (tag, consequence),
                  key="day-state|" + tag)
            continue
        fn = flatten(F, raw, stop=S.units)
        ck.touch(fn)
        st = [(c, k) for c, k in stamps(fn)]
        if not st:
            # the work is done by a member of the private object (d->flush()): that member is the unit, provided the public function
            # calls it on every path and does not write the buffer out afterwards
            for c_ in fn.calls():
                h = F.fns.get(c_.get("fn"))
                if h is None or h.cls != RP or h.body is None:
                    continue
                hf = flatten(F, h, stop=S.units)
                if not stamps(hf):
                    continue
                go = S.g(fn)
                after = [n for n in fn.calls() if n is not c_ and strip_tmpl(n.get("callee") or "").split("::")[-1] in ("flush", "close", "write", "send") and go.can_reach(go.site_of(c_), go.site_of(n))]
                if go.must_pass({go.site_of(c_)}) and not after:
                    fn = hf
                    ck.touch(fn)
                    st = [(c, k) for c, k in stamps(fn)]
                break
        good = [c for c, k in st if k == MOD]
        if not good:
            ck.ob(rid, sitestr(fn), False if all(k is not None for _, k in st) and not per_record else None,
                  "init() reads the day of the active file's content from its modification time, but %s does not set it: the kernel stamps the file when the buffered records are written out. %s" % (name, consequence),
                  key="day-state|" + tag)
            continue
        g = S.g(fn)
        vk = {value_kind(fn, c) for c in good}
        if vk == {"clock"}:
            ck.ob(rid, sitestr(fn, good[0]), False, "%s sets the modification time from the clock, not from the day of the content. %s" % (name, consequence), key="day-state|" + tag)
            continue
        if vk != {"content"}:
            ck.ob(rid, sitestr(fn, good[0]), None, "%s: the value the modification time is set to could not be traced to the day of the content" % name, key="day-state|" + tag)
            continue
        # the stamp must denote the day for the reader: init() takes the LOCAL date of the modification time, so the value written is a local
        # time on that day - and one that exists: the hours around midnight are skipped by DST changes in some zones (23:00-24:00 in
        # America/Nuuk, 00:00-01:00 in several others); an invalid QDateTime is refused by setFileTime() and the kernel's stamp stays
        reader_utc = any(strip_tmpl(x.get("callee") or "").split("::")[-1] in ("toUTC", "toTimeSpec") for _, r_ in readers for x in walk(deref_local(init, r_)) if x.get("k") == "call") or \
            any(strip_tmpl(x.get("callee") or "").split("::")[-1] in ("toUTC", "toTimeSpec") for n_, _ in readers for x in walk(n_) if x.get("k") == "call")
        tod_bad = None
        for c in good:
            v_ = skip_copies(deref_local(fn, c["args"][0]))
            if not (isinstance(v_, dict) and v_.get("k") == "construct" and strip_tmpl(v_.get("class") or "") == "QDateTime" and len(v_.get("args", [])) >= 2):
                continue
            a_ = v_["args"]
            spec = [x for x in a_[2:] if x.get("k") != "defaultarg"]
            spec_v = const_int(spec[0]) if spec else 0          # Qt::LocalTime == 0, Qt::UTC == 1
            if spec and spec_v not in (None, 0) and not reader_utc:
                tod_bad = (c, "%s stamps the day as a time in another time specification than the local one init() reads the date in: east of UTC+12 / west of UTC-12 the local date of that instant is another day" % name)
                break
            t_ = skip_copies(deref_local(fn, a_[1]))
            if isinstance(t_, dict) and t_.get("k") == "construct" and strip_tmpl(t_.get("class") or "") == "QTime":
                hms = [const_int(x) for x in t_.get("args", []) if x.get("k") != "defaultarg"]
                if hms and hms[0] is not None and not (3 <= hms[0] <= 20) and spec_v == 0:
                    tod_bad = (c, "%s stamps the day as %02d:%02d local time, an hour that DST changes skip on some days in some zones (America/Nuuk: 23:00-24:00 on the last Saturday of March): the QDateTime is invalid, "
                               "setFileTime() refuses it and the kernel's stamp of the write-out stays" % (name, hms[0], hms[1] if len(hms) > 1 and hms[1] is not None else 0))
                    break
        if tod_bad:
            ck.ob(rid, sitestr(fn, tod_bad[0]), False, "%s. %s" % (tod_bad[1], consequence), key="day-state|%s|time-of-day" % tag)
            continue
        at = scenario(fn)
        keep = g.projector(at)
        sites = set(g.sites_of_nodes(good))
        must = g.must_pass(sites, keep=keep)
        # the stamp must come after the write-out it corrects: no flush / close of the active file after it on the same path
        late = [n for n in fn.calls() if strip_tmpl(n.get("callee") or "").split("::")[-1] in ("flush", "close", "write") and S.is_active_file(n.get("obj"), fn)
                and any(g.can_reach(s, g.site_of(n)) for s in sites)]
        pre = [n for n in fn.calls() if strip_tmpl(n.get("callee") or "").split("::")[-1] == "flush" and S.is_active_file(n.get("obj"), fn)]
        flushed = bool(pre) and all(g.must_pass(set(g.sites_of_nodes(pre)), keep=keep, to=s_) for s_ in sites)
        if must and not late and not flushed:
            ck.ob(rid, sitestr(fn, good[0]), False, "%s sets the modification time while records are still buffered: they are written out afterwards (close()) and the kernel stamps the file again. %s" % (name, consequence), key="day-state|" + tag)
            continue
        if must and not late:
            ck.ob(rid, sitestr(fn, good[0]), True, "%s: with content of an earlier day the modification time is set back to that day on every path, after the buffer was written out" % name, key="day-state|" + tag)
            continue
        if late:
            ck.ob(rid, sitestr(fn, late[0]), False, "%s writes the buffer out (%s) after it has set the modification time: the kernel stamps the file again. %s" % (name, describe(late[0])[:40], consequence), key="day-state|" + tag)
            continue
        decided = all(eval_cond(n_["cond"], at, fn) is not None for n_ in fn.all_nodes() if n_.get("k") in ("if", "while", "for", "cond") and isinstance(n_.get("cond"), dict))
        ck.ob(rid, sitestr(fn, good[0]), False if decided else None,
              "%s: with daily rotation, a non-empty active file and content of an earlier day than today a path leaves without setting the modification time. %s" % (name, consequence) if decided else
              "%s: a guard on the way to setFileTime() could not be evaluated for (daily rotation, non-empty file, content of an earlier day)" % name, key="day-state|" + tag)


def retention_by_cases(ck, S, rid, failures=False):
    """removeOldFiles() executed by cases (engine/conc.py): findRotatedFiles() answers f0 .. f(k-1) (oldest first, as its sort rule establishes), every
    removal succeeds, the limit is N.  Required: exactly the max(0, k - (N - 1)) files at one end of the list are removed - the oldest ones - and for N <= 0
    none.  With failures=True every case is run again once per removal call with exactly that call failing (the I/O fault of C10): required then is that no
    file outside the max(0, k - (N - 1)) oldest is even handed to a removal - a failed unlink must not be 'made up for' by deleting a newer file.
    Returns True / False / None (outside the evaluable fragment: the structural rules decide)."""
    from engine.conc import Conc, Unknown, Table
    ro = S.m["removeOldFiles"]
    frf = S.m["findRotatedFiles"].id
    bad, ends, n_cases, n_fail_cases = [], set(), 0, 0

    def execute(N, fields, files, fail_at):
        attempted, removed = [], []

        def leaf(n, env):
            if not isinstance(n, dict) or n.get("k") != "call":
                return None
            if n.get("fn") == frf:
                return Table(items=list(files))
            kind = destructive_kind(n)
            if kind == "remove":
                a = n.get("args") or []
                tgt = a[0] if a else n.get("obj")
                v = cc.eval(tgt, env)
                if not isinstance(v, str):
                    raise Unknown("removal target")
                fails = (len(attempted) == fail_at)
                attempted.append(v)
                if not fails:
                    removed.append(v)
                c = strip_tmpl(n.get("callee") or "")
                ok_value, fail_value = (0, -1) if c in ("unlink", "remove", "std::remove") else (1, 0)
                return fail_value if fails else ok_value
            if n.get("ck") == "operator" and n.get("op") == "<<":
                return 1
            short = strip_tmpl(n.get("callee") or "").split("::")[-1]
            if short in ("toStdString", "qPrintable", "toLocal8Bit", "toUtf8", "constData", "endl", "flush", "qWarning", "qDebug", "warning", "noquote", "nospace"):
                return 1
            return None
        cc = Conc(S.F, leaf=leaf, max_steps=40000)
        cc.call_fn(ro, [], fields)
        return attempted, removed

    for N in (-1, 0, 2, 3, 5):
        fields = {k_.split("::")[-1]: v_ for k_, v_ in S.fields_for_count(N).items()}
        fields.update({k_: v_ for k_, v_ in S.fields_for_count(N).items()})
        for k in range(0, 9):
            files = ["f%d" % i for i in range(k)]
            try:
                attempted, removed = execute(N, fields, files, None)
            except Unknown as e:
                return None, "removeOldFiles() is outside the fragment that can be executed by cases (%s)" % e
            n_cases += 1
            want = max(0, k - (N - 1)) if N > 0 else 0
            if len(removed) != len(set(removed)):
                bad.append((N, k, removed, "a file is removed twice"))
                continue
            if N <= 0:
                if removed:
                    bad.append((N, k, removed, "files are removed although the limit is <= 0"))
                continue
            end = None
            if sorted(removed) == sorted(files[:want]):
                end = "first"
                if want and want < k:
                    ends.add("first")
            elif sorted(removed) == sorted(files[k - want:]) and want:
                end = "last"
                if want < k:
                    ends.add("last")
            else:
                bad.append((N, k, removed, "expected the %d oldest" % want))
                continue
            if failures and want:
                allowed = set(files[:want] if end == "first" else files[k - want:])
                for j in range(len(attempted)):
                    try:
                        att2, rem2 = execute(N, fields, files, j)
                    except Unknown as e:
                        return None, "removeOldFiles() with a failing removal is outside the fragment that can be executed by cases (%s)" % e
                    n_fail_cases += 1
                    extra = [x for x in att2 if x not in allowed]
                    if extra:
                        bad.append((N, k, att2, "removal number %d (of %s) fails and %s, which the limit does not ask for, is removed in its place" % (j + 1, attempted[j], ", ".join(extra))))
                        break
    if bad:
        N, k, removed, why = bad[0]
        return False, "with a limit of %d and %d rotated files f0..f%d (oldest first), removeOldFiles() removes %s: %s" % (N, k, k - 1, removed or "nothing", why)
    if len(ends) > 1:
        return False, "removeOldFiles() takes its victims from different ends of the list in different cases"
    return True, "executed by cases for N in {-1,0,2,3,5} x 0..8 rotated files (%d cases%s): exactly the max(0, k - (N-1)) files at the %s end are removed, none for N <= 0" % (
        n_cases, ", and %d more with one removal failing: no other file is touched" % n_fail_cases if failures else "", (list(ends) or ["first"])[0])


END_EXACT = ("\\z",)


def end_anchor(t):
    """(kind, body): kind 'exact' for a pattern ending in \\z (end of the subject and nothing else), 'loose' for '$' or \\Z (they also
    match in front of a final line break: a foreign name that ends in a newline is accepted), None when the pattern is open at the end;
    body = the pattern without its end anchor"""
    if t.endswith("\\z") and not t.endswith("\\\\z"):
        return "exact", t[:-2]
    if t.endswith("\\Z") and not t.endswith("\\\\Z"):
        return "loose", t[:-2]
    if t.endswith("$") and not t.endswith("\\$"):
        return "loose", t[:-1]
    return None, t


def limits_intact(ck, S, rid, which):
    """the size limit (which == "size") / file-count limit ("count") given to the sink's constructor reaches the private object's member with its
    value: the public constructor's argument and the member initialiser are evaluated by cases (engine/conc.py) over small, boundary and large
    values. A limit that is silently replaced (a 'plausibility' correction, a clamp, a unit conversion) makes the sink enforce another limit than
    the configured one."""
    from engine.conc import Conc, Unknown
    F = S.F
    cts = [f for f in F.fn_all(RP + "::RotatingFileSinkPrivate") if f.d.get("kind") == "ctor" and not f.d.get("copyctor") and not f.d.get("movector")]
    pub = [f for f in F.fn_all(RS + "::RotatingFileSink") if f.d.get("kind") == "ctor" and not f.d.get("copyctor") and not f.d.get("movector") and f.body is not None]
    if len(cts) != 1 or len(pub) != 1:
        ck.ob(rid, "rotatingfilesink.cpp (constructors)", None, "the constructors of the sink / its private object were not found (%d / %d)" % (len(pub), len(cts)), key="limit-intact|%s" % which)
        return
    ct, pc = cts[0], pub[0]
    grid = (1, 2, 3, 5, 7, 8, 20, 100, 4096, 1 << 20, (1 << 31) - 1) if which == "size" else (2, 3, 4, 5, 9, 10, 100, 1000)
    keepcls = (0, -1, -5) if which == "size" else (1, 0, -1)

    def param(fn):
        ps = [p_ for p_ in fn.params if which in (p_.get("name") or "").lower()]
        return ps[0] if len(ps) == 1 else None
    stages = []
    pp_, cp_ = param(pc), param(ct)
    if pp_ is None or cp_ is None:
        ck.ob(rid, sitestr(ct), None, "no single constructor parameter named after the %s limit" % which, key="limit-intact|%s" % which)
        return
    # stage 1: public constructor -> argument of the private constructor
    news = [n for n in pc.all_nodes() if n.get("k") == "construct" and strip_tmpl(n.get("class") or "").endswith("RotatingFileSinkPrivate")]
    for i in pc.inits:
        if isinstance(i.get("e"), dict):
            news += [n for n in walk(i["e"]) if n.get("k") == "construct" and strip_tmpl(n.get("class") or "").endswith("RotatingFileSinkPrivate")]
    idx = [k for k, p_ in enumerate(ct.params) if p_["decl"] == cp_["decl"]][0]
    if len(news) >= 1 and len(news[0].get("args", [])) > idx:
        stages.append(("RotatingFileSink(...)", pc, pp_, news[0]["args"][idx]))
    else:
        ck.ob(rid, sitestr(pc), None, "the private object's construction was not found in the public constructor", key="limit-intact|%s|public" % which)
    # stage 2: private constructor -> member
    mem = [i for i in ct.inits if i.get("member") and isinstance(i.get("e"), dict) and any(x.get("k") == "ref" and x.get("decl") == cp_["decl"] for x in walk(i["e"]))
           and ("int" in (F.field_type(strip_tmpl(i["member"])) or "int"))] if hasattr(F, "field_type") else \
          [i for i in ct.inits if i.get("member") and isinstance(i.get("e"), dict) and any(x.get("k") == "ref" and x.get("decl") == cp_["decl"] for x in walk(i["e"]))]
    own = [i for i in mem if which in i["member"].split("::")[-1].lower() and "max" in i["member"].split("::")[-1].lower()] or mem
    if len(own) >= 1:
        stages.append(("member %s" % own[0]["member"].split("::")[-1], ct, cp_, own[0]["e"]))
    else:
        ck.ob(rid, sitestr(ct), None, "no member of the private object is initialised from the %s limit" % which, key="limit-intact|%s|member" % which)
    for label, fn, p_, expr in stages:
        wrong, unk = [], None
        for v in grid + keepcls:
            env = {"__fn__": fn, p_["decl"]: v}
            for q_ in fn.params:
                if q_["decl"] != p_["decl"]:
                    env["__unk__:%s" % q_["decl"]] = True
            try:
                got = Conc(F, tolerant=True, max_steps=4000).eval(expr, env)
            except Unknown as e_:
                unk = str(e_)
                break
            if not isinstance(got, int):
                unk = "non-integer value"
                break
            same = (got == v) if v in grid else ((got <= 0) == (v <= 0) and (got == 1) == (v == 1) if which == "count" else (got <= 0))
            if not same:
                wrong.append("%d becomes %d" % (v, got))
        if unk:
            ck.ob(rid, sitestr(fn, expr), None, "%s: the value handed on for the %s limit could not be evaluated (%s)" % (label, which, unk), key="limit-intact|%s|%s" % (which, label.split()[0]))
        else:
            ck.ob(rid, sitestr(fn, expr), not wrong, "%s receives the %s limit unchanged (%d values from 1 to the largest int; non-positive values stay 'no limit')" % (label, which, len(grid)) if not wrong else
                  "%s does not receive the configured %s limit: %s - the sink enforces another limit than the one it was given" % (label, which, ", ".join(wrong[:4])), key="limit-intact|%s|%s" % (which, label.split()[0]))



LINK_RESOLVERS = ("canonicalPath", "canonicalFilePath", "symLinkTarget", "readLink", "readSymLink", "junctionTarget", "realpath", "weakly_canonical", "canonical", "read_symlink")


def names_stay_in_the_configured_directory(ck, S, rid):
    """rotated files live next to the active file *as it was named*: the directory used for renaming and for the two scans comes from the file name the sink was
    given (QFileInfo::path / absolutePath / dir), never from resolving symbolic links in it.  With the last component a link into another directory, a canonicalised
    directory names the link target's directory: the rename moves the link (or the file) there, the next start scans another directory and starts a second index series."""
    n = 0
    for f in [v for v in S.m.values() if v is not None] :
        for c in f.calls():
            n += 1
            short = strip_tmpl(c.get("callee") or "").split("::")[-1]
            if short in LINK_RESOLVERS:
                ck.ob(rid, sitestr(f, c), False, "%s resolves symbolic links in the log path (%s): for a log file reached through a link the rotated files, the index scan and the retention scan "
                      "work in the link target's directory - not where the active file is named, and not where the previous run left its files" % (strip_tmpl(f.name).split("::")[-1], describe(c)[:50]),
                      key="link-resolution|%s|%s" % (strip_tmpl(f.name).split("::")[-1], short))
    ck.ob(rid, "(rotating sink)", True, "%d calls in the rotating sink's functions: none resolves symbolic links in the configured path" % n, key="link-resolution|summary")
