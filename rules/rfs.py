"""Shared anchors and helpers for the file-sink properties C05-C10."""
from engine.util import *

RS = "QtLogger::RotatingFileSink"
RP = RS + "::RotatingFileSinkPrivate"
FS = "QtLogger::FileSink"
IO = "QtLogger::IODeviceSink"
LM = "QtLogger::LogMessage"

OPEN_FLAGS = {"ReadOnly": 1, "WriteOnly": 2, "Append": 4, "Truncate": 8, "Text": 16}
METHODS = ("init", "rotateIfNeeded", "checkStartupRotation", "checkDailyRotation", "checkSizeRotation", "baseDir", "generateRotatedFileName",
           "findNextIndexForDate", "compressFile", "findRotatedFiles", "removeOldFiles", "rotate")


class Sink:
    def __init__(self, ck):
        F = ck.facts
        self.F = F
        self.m = {name: F.fn(RP + "::" + name) for name in METHODS}
        self.send = F.fn(RS + "::send")
        self.io_send = F.fn(IO + "::send")
        self.fs_ctor = [f for f in F.fn_all(FS + "::FileSink") if f.d.get("kind") == "ctor" and not f.d.get("copyctor") and not f.d.get("movector")][0]
        self.fs_flush = F.fn(FS + "::flush")
        self.fs_file = F.fn(FS + "::file")
        self.crc = F.fn("calculateCRC32")
        ck.touch(self.send, self.io_send, self.fs_ctor, *self.m.values())
        self._g = {}

    def g(self, fn):
        if fn.id not in self._g:
            self._g[fn.id] = Graph(fn)
        return self._g[fn.id]

    def is_active_file(self, n):
        """expression denoting the sink's open QFile object: q_ptr->file() / file()"""
        n = unwrap_ptr(n)
        if not is_call(n, FS + "::file"):
            return False
        o = unwrap_ptr(skip_copies(n).get("obj"))
        return isinstance(o, dict) and (o.get("k") == "this" or is_this_field(o, RP + "::q_ptr"))

    def entry_reach(self):
        F = self.F
        roots = [self.send, self.fs_ctor, self.fs_flush]
        roots += [f for f in F.fn_all(RS + "::RotatingFileSink") if f.d.get("kind") == "ctor"]
        roots += [f for f in F.fn_all(FS + "::~FileSink")] + [f for f in F.fn_all(RS + "::~RotatingFileSink")]
        return F.reachable_from(roots, virtual=False)


def destructive_kind(n):
    """classification of a call node that can destroy file data; None otherwise"""
    if not (isinstance(n, dict) and n.get("k") == "call"):
        return None
    c = strip_tmpl(n.get("callee") or "")
    if c in ("QFile::remove", "QDir::remove", "QDir::removeRecursively", "QDir::rmdir", "QDir::rmpath", "unlink", "remove", "std::remove", "std::filesystem::remove", "std::filesystem::remove_all", "QFile::moveToTrash"):
        if c in ("remove", "std::remove") and len(n.get("args", [])) != 1:
            return None
        return "remove"
    if c in ("QFile::rename", "QDir::rename", "rename", "std::rename", "std::filesystem::rename"):
        return "rename"
    if c in ("QFile::resize", "QFileDevice::resize", "truncate", "ftruncate", "std::filesystem::resize_file"):
        return "resize"
    if c in ("QFile::copy",):
        return "copy"
    if c in ("QFile::open", "QIODevice::open", "QFileDevice::open", "QSaveFile::open") and n.get("args"):
        fl = const_int(n["args"][0])
        if fl is None:
            return "open(?)"
        if fl & OPEN_FLAGS["WriteOnly"] and (not fl & OPEN_FLAGS["Append"] or fl & OPEN_FLAGS["Truncate"]):
            return "open(truncating)"
        return None
    if c in ("fopen", "open"):
        return "open(?)"
    return None


def open_flags(n):
    if is_call(n, ("QFile::open", "QIODevice::open", "QFileDevice::open", "QSaveFile::open")) and skip_copies(n).get("args"):
        return const_int(skip_copies(n)["args"][0])
    return None


def flagnames(v):
    if v is None:
        return "?"
    return "|".join(k for k, b in OPEN_FLAGS.items() if v & b) or "0"
