"""C11 — a fatal message and everything before it reach the log file (DESIGN.md section 3, C11)."""
from engine.util import *
from rules.rfs import RS, FS, IO

LEVEL = "other"
MIN_OBLIGATIONS = 9
THOROUGH_CONFIGS = ("headeronly", "nothread")
TECHNIQUE = "must-pass-through rule on Logger::processMessage projected on type == QtFatalMsg, call-graph rule that the flush reaches every sink of every nested pipeline, override table of Sink::flush for the buffering sinks; all message types reach the pipeline run; traversal through the base Pipeline class; who-may-call rule on Sink::send (only the handler adapter and delegating overrides: no sink outside the lists the flush walks); no bypass of processMessage in messageHandler; rotate() reopens on every path; every path of the rotating sink's send() hands the record to the device; no static variable carries state on the file sinks' constructor / send / flush / destructor paths (a device shared through a process-wide table)"
LEVEL_TEXT = ("Decides for all message counts and sizes that, in the synchronous logger, a fatal message is processed and then every sink of the pipeline tree is flushed before the message handler "
              "returns to Qt (which then aborts): the flush call post-dominates the pipeline run on the fatal path, the recursive flush visits every handler, flushes every Sink and descends "
              "into every nested Pipeline without early exit, and the sinks that buffer in a QFile implement flush() by flushing that file.")
LEVEL_NOTE = "trusts that Qt calls the message handler before abort() and that QFileDevice::flush() hands the buffer to the OS; asynchronous mode is outside the property"
DESIGN_REF = "DESIGN.md section 3, C11"
EXPLANATION = ("Path rules on Logger::processMessage (projection: type == QtFatalMsg, own thread not running), SimplePipeline::flush/recursiveFlush (per-element must-flush / must-recurse, "
               "all elements visited) and the flush() overrides of the file sinks.")
TRUSTED = ["Qt invokes the installed message handler for qFatal before aborting", "QFileDevice::flush() writes the user-space buffer to the file descriptor"]
ASSUMPTIONS = ["synchronous logger (as in the property); in asynchronous mode the sinks belong to the worker thread"]
NOT_DECIDED = ["asynchronous mode", "durability against power loss (no fsync)"]

LG = "QtLogger::Logger"
SPL = "QtLogger::SimplePipeline"


def run(ck):
    F = ck.facts
    ck.rule("C11-O1", "processMessage: on the fatal path (own thread not running) a flush of the whole pipeline is executed after the pipeline ran and before returning")
    ck.rule("C11-O2", "SimplePipeline::flush -> recursiveFlush(this): every handler is visited; each Sink is flushed, each nested Pipeline is descended into; no early exit")
    ck.rule("C11-O3", "FileSink::flush flushes its QFile and RotatingFileSink does not hide it; the file written by IODeviceSink::send is the file that is flushed")
    every_record_is_written(ck)
    ck.rule("C11-O7", "a file sink's device is its own: no static variable written on the way from a file sink's constructor, send(), flush() or destructor holds anything but constants "
                      "(a QFile shared through a process-wide table is closed by the first sink that goes away; every later record, the fatal one included, goes to a closed device)")
    from rules.oth import shared_static_state
    fs_roots = [f_ for f_ in F.fns.values() if f_.body is not None and strip_tmpl(f_.cls or "") in ("QtLogger::FileSink", "QtLogger::RotatingFileSink", "QtLogger::IODeviceSink")]
    shared_static_state(ck, F, "C11-O7", "its own logger's mutex", roots=fs_roots, min_roots=6, what="file sinks")
    pm = F.fn(LG + "::processMessage")
    ck.touch(pm)
    g = Graph(pm)
    tdecl = pm.params[0]["decl"]
    en = F.enums.get("QtMsgType")
    fatal = {e["name"]: e["value"] for e in en["enumerators"]}["QtFatalMsg"]
    def atom_for(t, own):
        def atom(n):
            if n.get("k") == "binop" and n.get("op") in ("==", "!=") and ((is_ref_to(n.get("lhs"), tdecl) and const_int(n.get("rhs")) is not None) or (is_ref_to(n.get("rhs"), tdecl) and const_int(n.get("lhs")) is not None)):
                k = const_int(n.get("rhs")) if is_ref_to(n.get("lhs"), tdecl) else const_int(n.get("lhs"))
                return (t == k) if n["op"] == "==" else (t != k)
            if is_call(n, "QtLogger::OwnThreadHandler::ownThreadIsRunning"):
                return own
            return None
        return atom
    def on_this(n):
        """the call is made on the logger itself: `this`, or a pointer parameter of a spliced file-local helper that was passed `this`"""
        o = n.get("obj")
        if not isinstance(o, dict):
            return False
        o = skip_copies(o)
        if o.get("k") == "this":
            return True
        o = skip_copies(deref_local(pm, unwrap_ptr(o)))
        return isinstance(o, dict) and o.get("k") == "this"
    runs = [n for n in pm.calls() if name_is(n.get("callee"), "process") and on_this(n)]
    ck.require(len(runs) == 1, "processMessage runs the pipeline %d times" % len(runs))
    flushes = [n for n in pm.calls() if name_is(n.get("callee"), (SPL + "::flush",)) and on_this(n)]
    # the fatal message itself must be processed: in synchronous mode no path from entry to a return avoids the pipeline run
    path_ok = {}
    for t_name, t_val in sorted({e["name"]: e["value"] for e in en["enumerators"]}.items()):
        path_ok[t_name] = g.must_pass({g.site_of(runs[0])}, keep=g.projector(atom_for(t_val, False)))
    bad_t = sorted(k for k, v in path_ok.items() if not v)
    ck.ob("C11-O1", sitestr(pm, runs[0]), not bad_t, "synchronous mode: every message type reaches the pipeline run on every path through processMessage (no early return, no give-up on a lock)" if not bad_t else
          "processMessage can return without running the pipeline for %s: the message never reaches the sinks" % ", ".join(bad_t), key="Logger::processMessage|run-skipped")

    # the fatal message has to enter the logger at all: Qt's entry point hands every message to processMessage() whenever a logger is
    # installed — no diversion to another handler keyed on the application's state, the calling thread, ...
    mh0 = F.fn(LG + "::messageHandler", optional=True)
    if mh0 is not None:
        ck.touch(mh0)
        gm0 = Graph(mh0)
        al = [v["decl"] for n_ in mh0.find(lambda n_: n_.get("k") == "decl") for v in n_.get("vars", []) if isinstance(v.get("init"), dict) and any((x.get("name") or "").endswith("g_activeLogger") for x in walk(v["init"]))]
        isl0 = lambda n_: n_.get("k") == "ref" and n_.get("decl") in al
        pmc = [n_ for n_ in mh0.calls() if n_.get("fn") == pm.id]
        if pmc and al:
            okm = gm0.must_pass(set(gm0.sites_of_nodes(pmc)), keep=gm0.projector(atom_eq(isl0, True)))
            ck.ob("C11-O1", sitestr(mh0, pmc[0]), okm, "with a logger installed, messageHandler hands every message to processMessage()" if okm else
                  "messageHandler can return without calling processMessage() although a logger is installed: a fatal message taking that path is never written to the file sinks and nothing is flushed before abort()",
                  key="Logger::messageHandler|bypass")
        else:
            ck.ob("C11-O1", sitestr(mh0), None, "messageHandler: the load of the active logger / the call of processMessage was not recognised", key="Logger::messageHandler|bypass")
    handled_in_entry = False
    if not flushes:
        # the flush may sit in the Qt-facing entry instead, right after the locked run (whether it is still under the lock is C02's business)
        mh = F.fn(LG + "::messageHandler", optional=True)
        if mh is not None:
            gm = Graph(mh)
            pc = [n for n in mh.calls() if n.get("fn") == pm.id]
            fl2 = [n for n in mh.calls() if name_is(n.get("callee"), (SPL + "::flush",))]
            if len(pc) == 1 and fl2:
                ck.touch(mh)
                tdecl_m = mh.params[0]["decl"]

                def atom_m(n):
                    if n.get("k") == "binop" and n.get("op") in ("==", "!=") and ((is_ref_to(n.get("lhs"), tdecl_m) and const_int(n.get("rhs")) is not None) or (is_ref_to(n.get("rhs"), tdecl_m) and const_int(n.get("lhs")) is not None)):
                        k = const_int(n.get("rhs")) if is_ref_to(n.get("lhs"), tdecl_m) else const_int(n.get("lhs"))
                        return (fatal == k) if n["op"] == "==" else (fatal != k)
                    if is_call(n, "QtLogger::OwnThreadHandler::ownThreadIsRunning"):
                        return False
                    return None
                a = gm.postdominated(gm.site_of(pc[0]), set(gm.sites_of_nodes(fl2)), keep=gm.projector(atom_m))
                same_obj = all(describe(unwrap_ptr(f_.get("obj"))) == describe(unwrap_ptr(pc[0].get("obj"))) for f_ in fl2)
                handled_in_entry = True
                ck.ob("C11-O1", sitestr(mh, fl2[0]), a and same_obj, "fatal message: messageHandler flushes the logger right after processMessage() returned, on every path" if (a and same_obj) else
                      "fatal path in messageHandler: flush-after-run-on-every-path=%s, same-logger=%s" % (a, same_obj), key="Logger::processMessage|no-flush-on-fatal")
    if handled_in_entry:
        pass
    elif not flushes:
        ck.ob("C11-O1", sitestr(pm), False, "nothing flushes the sinks when a fatal message is logged: Qt aborts right after the handler returns and buffered records are lost", key="Logger::processMessage|no-flush-on-fatal")
    else:
        fs = set(g.sites_of_nodes(flushes))
        rs_ = g.site_of(runs[0])
        keep = g.projector(atom_for(fatal, False))
        a = g.postdominated(rs_, fs, keep=keep)
        b = all(not g.can_reach(s, rs_) for s in fs)
        ck.ob("C11-O1", sitestr(pm, flushes[0]), a and b, "fatal message: the pipeline runs, then every path flushes before returning" if (a and b) else
              "fatal path: flush-after-run-on-every-path=%s, flush-not-before-run=%s" % (a, b), key="Logger::processMessage|no-flush-on-fatal")
        tgt = F.fns.get(flushes[0].get("fn"))
        ck.ob("C11-O1", sitestr(pm, flushes[0]), tgt is not None and tgt.name == SPL + "::flush", "the flush is SimplePipeline::flush() of the logger itself", key="Logger::processMessage|flush-target")
    # ---- O2
    fl = F.fn(SPL + "::flush", flat=False)
    rf = F.fn(SPL + "::recursiveFlush", optional=True, flat=False)
    self_recursive = rf is None
    if self_recursive:
        # the traversal is flush() itself: it walks its own handlers and calls flush() on nested pipelines
        rf = fl
        ck.touch(fl)
    else:
        ck.touch(fl, rf)
        gf = Graph(fl)
        cs = [n for n in fl.calls(SPL + "::recursiveFlush") if n.get("args") and skip_copies(n["args"][0]).get("k") == "this"]
        ok = len(cs) == 1 and gf.must_pass({gf.site_of(cs[0])})
        ck.ob("C11-O2", sitestr(fl), ok, "flush() = recursiveFlush(this) on every path" if ok else "flush() does not always call recursiveFlush(this)", key="SimplePipeline::flush|delegation")
    g = Graph(rf)
    loops = [l for l in find_loops(rf) if l.get("k") == "rangefor"]
    ck.require(len(loops) == 1, "recursiveFlush no longer has exactly one range-for loop")
    loop = loops[0]
    rng = skip_copies(loop.get("range"))
    if is_call(rng, ("std::as_const", "qAsConst")) and rng.get("args"):
        rng = skip_copies(rng["args"][0])
    okr = is_call(rng, "QtLogger::Pipeline::handlers") and ((rf.params and is_ref_to(unwrap_ptr(rng.get("obj")), rf.params[0]["decl"])) or (self_recursive and skip_copies(unwrap_ptr(rng.get("obj"))).get("k") == "this"))
    ck.ob("C11-O2", sitestr(rf, loop), okr, "the loop visits pipeline->handlers()" if okr else "the loop visits %s" % describe(rng), key="recursiveFlush|range")
    lv = decl_of_loopvar(loop)
    casts = {}
    for n in rf.find(lambda n: n.get("k") == "decl"):
        for v in n.get("vars", []):
            i = skip_copies(v.get("init")) if isinstance(v.get("init"), dict) else None
            if isinstance(i, dict) and is_call(i, "QSharedPointer::dynamicCast") and is_ref_to(skip_copies(i).get("obj"), lv):
                t = v.get("type") or ""
                cls = "Sink" if "QtLogger::Sink>" in t else "Pipeline" if "QtLogger::Pipeline>" in t else t
                m_ = __import__("re").search(r"QSharedPointer<(?:const )?QtLogger::(\w+)>", t)
                if cls == t and m_ and ("QtLogger::" + m_.group(1)) in F.subclasses("QtLogger::Pipeline"):
                    # descends only into one subclass of Pipeline: nested pipelines of the other classes are skipped
                    others = sorted(x.split("::")[-1] for x in (F.subclasses("QtLogger::Pipeline") | {"QtLogger::Pipeline"}) - F.subclasses("QtLogger::" + m_.group(1)) - {"QtLogger::" + m_.group(1)})
                    ck.ob("C11-O2", sitestr(rf, n), False, "nested pipelines are recognised by a cast to %s only: file sinks inside a nested %s (appendPipeline, operator<< of a Pipeline) are never flushed" % (m_.group(1), "/".join(others)),
                          key="recursiveFlush|no-recursion")
                    cls = "Pipeline"
                casts[cls] = v["decl"]
    if set(casts) != {"Sink", "Pipeline"}:
        ck.ob("C11-O2", sitestr(rf), False if "Sink" not in casts or "Pipeline" not in casts else None, "recursiveFlush distinguishes %s (Sink and Pipeline expected): %s are not flushed" % (sorted(casts), sorted({"Sink", "Pipeline"} - set(casts))),
              key="recursiveFlush|missing-class")
        return
    sflush = [n for n in rf.calls("QtLogger::Sink::flush") if n.get("virtual") and is_ref_to(unwrap_ptr(n.get("obj")), casts["Sink"])]
    rec = [n for n in rf.calls(SPL + "::recursiveFlush") if n.get("args") and is_ref_to(unwrap_ptr(n["args"][0]), casts["Pipeline"])]
    if self_recursive:
        rec = [n for n in rf.calls() if name_is(n.get("callee"), "flush") and n.get("ck") == "member" and is_ref_to(unwrap_ptr(n.get("obj")), casts["Pipeline"])]
    cond = g.site_of(loop["desugar"]["cond"])
    lvs = g.site_of(loop["desugar"]["loopVarStmt"])
    isS = lambda n: n.get("k") == "ref" and n.get("decl") == casts["Sink"]
    isP = lambda n: n.get("k") == "ref" and n.get("decl") == casts["Pipeline"]
    if not sflush:
        ck.ob("C11-O2", sitestr(rf), False, "sinks are not flushed", key="recursiveFlush|sink-not-flushed")
    else:
        keep = g.projector(atoms((isS, True)))
        r = g.reach([lvs], blocked=set(g.sites_of_nodes(sflush)), keep=keep, include_start=False)
        ok = cond not in r and g.exit not in r
        ck.ob("C11-O2", sitestr(rf, sflush[0]), ok, "an element that is a Sink is always flushed" if ok else "a Sink element can be skipped without flush()", key="recursiveFlush|sink-not-flushed")
    if not rec:
        ck.ob("C11-O2", sitestr(rf), False, "nested pipelines are not descended into: their sinks are never flushed", key="recursiveFlush|no-recursion")
    else:
        keep = g.projector(atoms((isS, False), (isP, True)))
        r = g.reach([lvs], blocked=set(g.sites_of_nodes(rec)), keep=keep, include_start=False)
        ok = cond not in r and g.exit not in r
        ck.ob("C11-O2", sitestr(rf, rec[0]), ok, "an element that is a nested Pipeline is always descended into" if ok else "a nested Pipeline can be skipped", key="recursiveFlush|no-recursion")
    # every element visited: from the loop variable, every path comes back to the loop test (no break / return)
    bad = []
    for nm, keep in (("sink", g.projector(atoms((isS, True)))), ("pipeline", g.projector(atoms((isS, False), (isP, True)))), ("other", g.projector(atoms((isS, False), (isP, False))))):
        if not g.postdominated(lvs, {cond}, keep=keep):
            bad.append(nm)
    ck.ob("C11-O2", sitestr(rf, loop), not bad, "after any element the next one is examined (no early exit)" if not bad else "the loop ends early after a %s element: later sinks are not flushed" % "/".join(bad), key="recursiveFlush|early-exit")
    # ---- O3
    ff = F.fn(FS + "::flush")
    ck.touch(ff)
    gff = Graph(ff)
    qf = [n for n in ff.calls(("QFileDevice::flush", "QFile::flush")) if is_call(unwrap_ptr(n.get("obj")), FS + "::file")]
    ok = len(qf) >= 1 and gff.must_pass(set(gff.sites_of_nodes(qf)))
    ck.ob("C11-O3", sitestr(ff), ok, "FileSink::flush() flushes its QFile on every path" if ok else "FileSink::flush() does not flush the file", key="FileSink::flush|no-flush")
    ov = F.methods.get(ff.id, {})
    base = [o for o in ov.get("overrides", [])]
    ck.ob("C11-O3", sitestr(ff), bool(ff.d.get("virtual")) and bool(base), "FileSink::flush overrides Sink::flush (reached through the virtual call)", key="FileSink::flush|not-override")
    rrec = F.record(RS)
    hides = [m for m in rrec["methods"] if m["name"] == RS + "::flush"]
    if hides:
        hf = F.fns.get(hides[0]["fn"])
        def flushes_file(fn_, depth=0):
            """every path through fn_ flushes the sink's QFile: FileSink::flush(), file()->flush(), or a member of the sink / its
            private object that does"""
            if fn_ is None or fn_.body is None or depth > 3:
                return False
            gh = Graph(fn_)
            cb = [n for n in fn_.calls(FS + "::flush") if n.get("qualified")]
            for n in fn_.calls(("QFileDevice::flush", "QFile::flush")):
                o = unwrap_ptr(deref_local(fn_, unwrap_ptr(n.get("obj")))) if isinstance(n.get("obj"), dict) else None
                if is_call(o, FS + "::file"):
                    cb.append(n)
            for n in fn_.calls():
                h = F.fns.get(n.get("fn"))
                if h is not None and h.id != fn_.id and (h.cls or "").startswith(RS) and not is_call(n, FS + "::file") and flushes_file(h, depth + 1):
                    cb.append(n)
            return bool(cb) and gh.must_pass(set(gh.sites_of_nodes(cb)))
        okh = flushes_file(hf)
        ck.touch(hf)
        ck.ob("C11-O3", "rotatingfilesink (RotatingFileSink::flush)", okh, "RotatingFileSink::flush flushes the file on every path (FileSink::flush() / file()->flush(), directly or through its private object)" if okh else "RotatingFileSink overrides flush() without flushing the file", key="RotatingFileSink::flush|hides")
    else:
        ck.ob("C11-O3", "rotatingfilesink.h (RotatingFileSink)", True, "RotatingFileSink inherits FileSink::flush unhidden")
    file_fn = F.fn(FS + "::file")
    ck.touch(file_fn)
    rs = returns(file_fn)
    e = skip_copies(rs[0].get("e")) if len(rs) == 1 else None
    okd = e is not None and any(is_call(x, IO + "::device") for x in walk(e))
    ck.ob("C11-O3", sitestr(file_fn), okd, "the flushed QFile is the device IODeviceSink::send writes to" if okd else "FileSink::file() returns %s" % describe(e), key="FileSink::file|other-object")
    dv = F.fn(IO + "::device")
    rs = returns(dv)
    okm = len(rs) == 1 and is_this_field(rs[0].get("e"), IO + "::m_device")
    ck.ob("C11-O3", sitestr(dv), okm, "device() returns m_device", key="IODeviceSink::device")
    sinks_driven_through_the_list(ck)
    flush_decision_matches_mode(ck)
    # the rotating sink keeps a device to flush: a rotation that fails must not leave the file closed
    from rules.rfs import Sink, reopened_after_close
    reopened_after_close(ck, Sink(ck), "C11-O3", "every later record, the fatal one included, is written to a closed device and the flush has nothing to flush")


def flush_decision_matches_mode(ck):
    """C11-O5: the flush of a fatal message is skipped when ownThreadIsRunning(); the pipeline runs in the caller's thread when the worker pointer is null.  The stop
    must never expose "worker gone, thread still running" to other threads (rules/oth.mode_predicates_agree)."""
    from rules.oth import mode_predicates_agree, resolve_roles, OT
    F = ck.facts
    ck.rule("C11-O5", "the stop of asynchronous logging never releases the hand-off mutex between clearing the worker pointer and the end of the thread: whenever the pipeline runs in the calling thread, "
                      "ownThreadIsRunning() is false and a fatal message is flushed")
    resolve_roles(F)
    insts = sorted({f.cls for f in F.fn_all(OT + "::process") if f.d.get("inst")})
    if not insts:
        ck.ob("C11-O5", "(OwnThreadHandler)", True if ck.config == "nothread" else None, "no instantiation of OwnThreadHandler in this configuration (QTLOGGER_NO_THREAD): logging is always synchronous", key="resetOwnThread|mode-window")
    for cls in insts:
        tag = "OwnThreadHandler<%s>" % cls.split("<", 1)[1].rstrip(">").split("::")[-1]
        mode_predicates_agree(ck, cls, tag, "C11-O5")


def sinks_driven_through_the_list(ck):
    """C11-O4: the flush walks the handler lists; a sink that is driven from anywhere else (captured by a function handler, held by a
    wrapper) writes records the flush never reaches.  Sink::send (any override) may be invoked by Sink::process on itself and by an
    override of send() delegating to its base class; a forwarding sink is accepted when its flush() forwards to the same object."""
    F = ck.facts
    ck.rule("C11-O4", "Sink::send is invoked only by Sink::process (the handler adapter) or by an override delegating to its base class: no sink is driven outside the handler lists the flush walks")
    sink_classes = F.subclasses("QtLogger::Sink") | {"QtLogger::Sink"}
    n_sites = 0
    for f in F.fns.values():
        if f.body is None:
            continue
        for n in f.calls():
            c = strip_tmpl(n.get("callee") or "")
            if not c.endswith("::send") or c.rsplit("::", 1)[0] not in sink_classes:
                continue
            n_sites += 1
            o = skip_copies(unwrap_ptr(n.get("obj"))) if isinstance(n.get("obj"), dict) else {}
            on_self = o.get("k") == "this"
            fname = strip_tmpl(f.name)
            if on_self and (fname == "QtLogger::Sink::process" or (fname.endswith("::send") and n.get("qualified"))):
                ck.ob("C11-O4", sitestr(f, n), True, "%s calls %s on itself" % (fname.split("QtLogger::")[-1], c.split("QtLogger::")[-1]), key="send-site|%s" % fname.split("::")[-1])
                continue
            # a forwarding sink: its flush() must forward to the same member
            okfwd = None
            cls = strip_tmpl(f.cls or "")
            if cls in sink_classes and o.get("k") == "member":
                fl = [m for m in F.record(cls)["methods"] if m["name"] == cls + "::flush"] if F.record(cls, optional=True) else []
                hf = F.fns.get(fl[0]["fn"]) if fl else None
                if hf is not None and hf.body is not None:
                    fw = [x for x in hf.calls() if name_is(x.get("callee"), "flush") and isinstance(x.get("obj"), dict) and skip_copies(unwrap_ptr(x["obj"])).get("decl") == o.get("decl")]
                    okfwd = bool(fw) and Graph(hf).must_pass(set(Graph(hf).sites_of_nodes(fw)))
                else:
                    okfwd = False
            else:
                okfwd = False
            ck.ob("C11-O4", sitestr(f, n), okfwd, "%s forwards send() and flush() to the same sink" % cls if okfwd else
                  "%s drives a sink directly (%s): that sink is in no handler list, so the flush on a fatal message never reaches its file" % (fname.split("QtLogger::")[-1] or "a lambda", describe(n)[:60]),
                  key="send-site|outside-handler-list")
    # the essential anchor is Sink::process -> send; a derived sink may or may not go through its base class's send()
    ck.require(n_sites >= 1 and any(o_["rule"] == "C11-O4" and (o_.get("key") or "").endswith("send-site|process") for o_ in ck.obligations),
               "expected the call site Sink::process -> send, found %d send sites" % n_sites)


def every_record_is_written(ck):
    """C11-O6: what is flushed at the fatal moment is what was written: on every path of the rotating sink's send() the record is handed to the
    device (an error flag, a closed-file test or a rate limit in front of the only write silently discards the records behind it - the fatal one
    included)."""
    from rules.rfs import Sink
    ck.rule("C11-O6", "RotatingFileSink::send writes the record on every path (with a device); IODeviceSink::send writes whenever it has a device")
    S = Sink(ck)
    fn = S.send
    g = S.g(fn)
    c_wr = S.record_writes(fn)
    if not c_wr:
        ck.ob("C11-O6", sitestr(fn), None, "the write of the record was not found in RotatingFileSink::send", key="RotatingFileSink::send|write")
        return
    has_dev = lambda n_: (False if (is_call(n_, ("isNull",)) and is_this_field(skip_copies(n_).get("obj"), IO + "::m_device")) else True if is_this_field(n_, IO + "::m_device") else None)
    sw = set(g.sites_of_nodes(c_wr))
    ok = g.must_pass(sw, keep=g.projector(has_dev))
    ck.ob("C11-O6", sitestr(fn, c_wr[0]), ok, "every path of RotatingFileSink::send hands the record to the device" if ok else
          "RotatingFileSink::send has a path that returns without writing the record: whatever the guard in front of the only write tests (an error flag that nothing clears, a closed file), the records "
          "behind it - the fatal one included - never reach the file that is flushed", key="RotatingFileSink::send|write")
