"""C14 — no input can crash, corrupt memory or hang formatting and filtering (DESIGN.md section 3, C14).

Decided by abstract interpretation (zone domain, engine/zone.py) of every function reachable from the formatter / filter
entry points: element accesses in range, loops with a ranking function, parsed integers bounded before they size an
allocation or a loop, enum-indexed tables large enough; plus a def-use rule for regular expressions built from text."""
import re
import os
from engine.util import *
from engine import zone
from engine.dbm import INF

LEVEL = "other"
MIN_OBLIGATIONS = 45
THOROUGH_CONFIGS = ("headeronly",)
TECHNIQUE = ("abstract interpretation over the clang AST (zone / difference-bound-matrix domain with boolean partitioning, widening and narrowing, lambda inlining, "
             "field / parameter / return invariants to a fixpoint): bounds obligations on every unchecked element access, ranking-function synthesis per loop, "
             "parsed-integer taint with upper bounds at allocation sizes and loop bounds; def-use rule for regular expressions built from text; (pointer, count) extents of tracked buffers; character facts as partition keys for strict indexOf progress; recursion rule on the call graph of the analysed scope; multiplicative-accumulation rule for hand-written number parsing; fixed-extent operator[] (std::bitset/std::array) with character-typed indices ranging over the whole type when read from input text; raw character-pointer rule (arithmetic / dereference has no extent; strncmp-family guards do not establish length); QStack/QQueue as tracked containers; case distinctions kept to the back edge so that a repeating iteration is a definite witness; use-after-delete typestate rule on the flattened functions (a delete inside a spliced helper / lambda that received the pointer by value is a delete of the caller's variable; reachability to a later use without an intervening assignment)")
LEVEL_TEXT = ("For every byte string as pattern, message, function signature, file, category, attribute value or rule text: every at()/operator[]/first()/last()/array subscript in the code reachable "
              "from Formatter::format, Filter::filter and the pattern / rule parsers is proved to be inside its container (sound abstract interpretation in the zone domain, all paths, all loop "
              "iterations); every loop there has a ranking function (strictly progressing bounded integer or shrinking container, lexicographic pairs allowed), so none can spin; an integer parsed "
              "out of pattern text reaches an allocation size or a loop bound only below a constant clamp; tables indexed by the message type have an entry for every enumerator; regular "
              "expressions built from rule text are escaped first. It is a proof about the library's own code in the modelled fragment; Qt's containers and regex engine are trusted.")
LEVEL_NOTE = ("trusts the Qt container semantics listed in the evidence (clamping of mid/left/chop/truncate/remove, indexOf ranges, hard size limits) and clang's AST; signed overflow of plain counters, "
              "stack depth, the growth of the result buffer (tokens x value length) and QRegularExpression's own matching cost are not decided")
DESIGN_REF = "DESIGN.md section 3, C14"
EXPLANATION = ("engine/zone.py interprets the statement trees of all functions reachable from the formatter/filter entry points over difference-bound matrices; obligations are generated at "
               "every unchecked access, loop and allocation; a failed proof on modelled values is a violation, on unmodelled values undecidable.")
TRUSTED = list(zone.QT_MODEL_DOC)
ASSUMPTIONS = ["message types are the five QtMsgType enumerators (the property's quantifier)", "integers supplied by the programmer (constructor arguments) are not attacker-controlled; integers parsed from text are"]
NOT_DECIDED = ["signed overflow of loop counters (needs a relational bound counter <= length)", "total size of the formatted result (number of tokens x value length)",
               "run time / stack use of QRegularExpression matching", "functions handed in by the user (FunctionFormatter / FunctionFilter callbacks)"]

ROOT_METHODS = (("QtLogger::Formatter", "format"), ("QtLogger::Filter", "filter"))
ROOT_NAMES = ("PatternFormatter::PatternFormatter", "PatternFormatterPrivate::PatternFormatterPrivate", "PatternFormatterPrivate::parsePattern",
              "CategoryFilter::CategoryFilter", "CategoryFilter::parseRules", "RegExpFilter::RegExpFilter")
RULE_OF = {"access": "C14-O4", "term": "C14-O5", "alloc": "C14-O1", "loopbd": "C14-O1"}
MIN_BY_KIND = {"access": 20, "term": 18}
MIN_ALLOC = 4
# regular expressions whose pattern is user text by contract (the API takes a regular expression)
REGEX_BY_CONTRACT = {"RegExpFilter::RegExpFilter": "RegExpFilter's argument is a regular expression by contract (the property quantifies over a fixed menu of expressions)"}


def roots_of(F):
    roots = []
    for base, meth in ROOT_METHODS:
        subs = F.subclasses(base)
        for f in F.fns.values():
            if f.cls in subs and f.name.split("::")[-1] == meth and f.body is not None:
                roots.append(f)
    for nm in ROOT_NAMES:
        roots += [f for f in F.fn_all(nm) if f.body is not None]
    return list({f.id: f for f in roots}.values())


def run(ck):
    F = ck.facts
    ck.rule("C14-O1", "an integer parsed from text (toInt family) reaches an allocation size (QString(n, ch), reserve, resize, fill, justified, repeated) or governs a loop's trip count only with a finite upper bound <= 2^24; "
                      "bounds are carried through fields, constructor parameters and return values by invariants computed to a fixpoint over all their writers / call sites")
    ck.rule("C14-O2", "a constant array indexed by the message type has more entries than the largest QtMsgType enumerator")
    ck.rule("C14-O3", "a regular expression compiled from rule text is assembled from constants and QRegularExpression::escape()d text only (post-escape edits: constant-for-constant replace)")
    ck.rule("C14-O4", "every unchecked element access (at, operator[], first/last/front/back, take/remove First/Last, array subscript) is proved to satisfy 0 <= index < size on all paths and loop iterations")
    ck.rule("C14-O6", "no signed integer is accumulated multiplicatively (x = x * k + d, x *= k, x <<= k) in a loop over input text without a bound test on x before the step: "
                      "a long digit run overflows it (undefined behaviour; in practice the value wraps and a clamp applied afterwards is useless)")
    ck.rule("C14-O5", "every loop has a ranking function: on each path back to the loop head a bounded integer strictly progresses or the scanned container strictly shrinks (lexicographic pairs allowed); "
                      "range-for / iterator loops run over a container the body does not modify")
    roots = roots_of(F)
    ck.require(len(roots) >= 12, "only %d formatter/filter entry points found (12 confirmed by hand)" % len(roots))
    env = zone.analyse_scope(F, roots)
    fns_by_sig = {f.sig: f for f in F.fns.values()}
    for s in env.scope:
        ck.touch(fns_by_sig.get(s))
    seen = set()
    counts = {}
    for o in env.obligations:
        k = (o["key"], o["site"], o["ok"])
        if k in seen:
            continue
        seen.add(k)
        rule = RULE_OF[o["kind"]]
        if o["kind"] == "access" and "[" in o["key"] and "typeLetters" in o["key"] or (o["kind"] == "access" and o["what"].split(" ")[0].endswith("]") and "type" in o["what"].split("[")[-1][:6] and "." not in o["what"].split("[")[0]):
            rule = "C14-O2"
        counts[o["kind"]] = counts.get(o["kind"], 0) + 1
        ck.ob(rule, o["site"], o["ok"], o["what"], key=o["key"].split("|", 1)[1] if "|" in o["key"] else o["key"])
    for kind, mn in MIN_BY_KIND.items():
        ck.require(counts.get(kind, 0) >= mn, "only %d %s obligations were generated, %d were confirmed by hand" % (counts.get(kind, 0), kind, mn))
    regex_rule(ck, env)
    rec = recursion_rule(ck, env)
    acc = accumulation_rule(ck, env)
    rawp = raw_pointer_rule(ck, env)
    use_after_delete_rule(ck, F, fns_by_sig, env)
    if counts.get("alloc", 0) < MIN_ALLOC:
        if acc:
            # numbers are parsed by hand: the taint source of C14-O1 (the toInt family) is gone, so O1 has nothing to say
            ck.ob("C14-O1", "(analysed functions)", None, "only %d allocation-size obligations: integers are parsed by a hand-written loop (%s), which the parsed-integer taint does not follow" % (counts.get("alloc", 0), ", ".join(acc)))
        else:
            ck.require(False, "only %d alloc obligations were generated, %d were confirmed by hand" % (counts.get("alloc", 0), MIN_ALLOC))
    ck.extra_coverage = {
        "recursive_functions_in_scope": rec,
        "multiplicative_accumulations_in_scope": acc,
        "analysed_functions": len(env.scope),
        "writers_added_for_field_invariants": env.scope_added,
        "lambdas_analysed_in_call_context": env.skipped_inlined,
        "field_invariants": {q.replace("QtLogger::", "").replace("(anonymous namespace)::", ""): {"upper": (None if v[0] == INF else v[0]), "parsed_int_bound": (None if v[1] is None else "unbounded" if v[1] == INF else v[1])}
                             for q, v in sorted(env.field_inv.items()) if v[1] is not None or v[0] != INF},
        "obligations_by_kind": counts,
        "analysis_notes": sorted(env.notes),
        "domain": "zone (difference-bound matrices), boolean partitioning on flag locals, widening after 2 iterations + 2 narrowing passes, lambdas inlined per call site",
    }


def regex_rule(ck, env):
    """C14-O3: QRegularExpression objects constructed inside the analysed functions from non-constant text"""
    F = ck.facts
    n_sites = 0
    scope = set(env.scope)
    for f in sorted(F.fns.values(), key=lambda f: (f.file, f.line, f.sig)):
        if f.sig not in scope or f.body is None:
            continue
        for n in f.find(lambda n: n.get("k") == "construct" and n.get("class") == "QRegularExpression" and n.get("args")):
            pat = n["args"][0]
            if n.get("copy") or "QRegularExpression" in (skip_copies(pat).get("type") or ""):
                continue
            if const_str(pat) is not None:
                continue
            n_sites += 1
            short = strip_tmpl(f.name).replace("QtLogger::", "")
            if any(short.endswith(k) or k in short for k in REGEX_BY_CONTRACT):
                r = [v for k, v in REGEX_BY_CONTRACT.items() if k in short][0]
                ck.ob("C14-O3", sitestr(f, n), True, "pattern is the caller's regular expression: %s" % r, key="regex-by-contract|%s" % short.split("::")[-1])
                continue
            g = Graph(f)
            bad = []
            for leaf in concat_leaves(pat):
                leaf = skip_copies(leaf)
                if const_str(leaf) is not None:
                    continue
                if isinstance(leaf, dict) and leaf.get("k") == "ref" and leaf.get("dk") == "local":
                    try:
                        h = var_history(f, g, leaf["decl"])
                    except AnalysisBroken as e:
                        bad.append((None, str(e)))
                        continue
                    escaped = False
                    for ev in h:
                        kind, node, rhs = ev
                        src = rhs if kind in ("init", "assign") else None
                        if kind in ("init", "assign") and isinstance(src, dict):
                            s2 = skip_copies(src)
                            if is_call(s2, "QRegularExpression::escape"):
                                escaped = True
                            else:
                                escaped = False
                        elif kind == "call":
                            m = (node.get("callee") or "").split("::")[-1]
                            a = node.get("args", [])
                            if m == "replace" and len(a) >= 2 and const_str(a[0]) is not None and const_str(a[1]) is not None:
                                continue
                            escaped = False if escaped else escaped
                            bad.append((False, "%s is edited by %s() after escaping" % (leaf.get("name"), m)))
                        elif kind == "use" and node.get("id") == leaf.get("id"):
                            break
                    if not escaped:
                        bad.append((False, "%s reaches the pattern without QRegularExpression::escape" % leaf.get("name")))
                elif isinstance(leaf, dict) and is_call(leaf, ("QRegularExpression::escape", "QRegularExpression::wildcardToRegularExpression")):
                    continue   # Qt's own converters neutralise every metacharacter of their input
                else:
                    bad.append((None, "pattern piece %s is neither a constant nor escaped local text" % describe(leaf)))
            ok = True if not bad else (False if any(b[0] is False for b in bad) else None)
            ck.ob("C14-O3", sitestr(f, n), ok, "regular expression from text: %s" % ("constants + escaped text" if ok else "; ".join(b[1] for b in bad)),
                  key="regex-escape|%s" % short.split("::")[-1])
    ck.require(n_sites >= 1, "no regular expression built from text found in the analysed functions (RegExpFilter's and CategoryFilter's were confirmed by hand)")


def _sccs(graph):
    """Tarjan; returns the list of strongly connected components (lists of nodes)"""
    index, low, on, stack, out = {}, {}, set(), [], []
    import sys
    sys.setrecursionlimit(max(10000, sys.getrecursionlimit()))

    def visit(v):
        index[v] = low[v] = len(index)
        stack.append(v)
        on.add(v)
        for w in sorted(graph.get(v, ())):
            if w not in index:
                visit(w)
                low[v] = min(low[v], low[w])
            elif w in on:
                low[v] = min(low[v], index[w])
        if low[v] == index[v]:
            comp = []
            while True:
                w = stack.pop()
                on.discard(w)
                comp.append(w)
                if w == v:
                    break
            out.append(comp)
    for v in sorted(graph):
        if v not in index:
            visit(v)
    return out


def recursion_rule(ck, env):
    """C14-O5 for recursion: the loop rule proves each activation finite; a function that can call itself needs its own argument.
    Branching recursion over sub-ranges of the same text (a self-call inside a loop) is the exponential backtracking matcher."""
    F = ck.facts
    assert sorted(map(sorted, _sccs({1: {2}, 2: {3}, 3: {2}, 4: {4}, 5: set()}))) == [[1], [2, 3], [4], [5]]
    scope = set(env.scope)
    fns = {f.id: f for f in F.fns.values() if f.sig in scope and f.body is not None}
    graph = {i: {c for c in F.callees(f, virtual=True) if c in fns} for i, f in fns.items()}
    found = []
    for comp in _sccs(graph):
        if len(comp) == 1 and comp[0] not in graph[comp[0]]:
            continue
        members = set(comp)
        names = sorted(strip_tmpl(fns[i].name).replace("QtLogger::", "").replace("(anonymous namespace)::", "") for i in comp)
        found.append("/".join(names))
        for i in sorted(comp, key=lambda i: fns[i].sig):
            f = fns[i]
            for n in sorted(f.all_nodes(), key=lambda n: n["id"]):
                if n.get("k") not in ("call", "construct") or not n.get("fn"):
                    continue
                tg = {n["fn"]} | (F.overriders.get(n["fn"], set()) if n.get("virtual") else set())
                if not tg & members:
                    continue
                loops = enclosing_loops(f, n)
                if loops:
                    ck.ob("C14-O5", sitestr(f, n), False, "%s calls itself from inside a loop (%s): every activation tries each split point of the remaining text again, so a pattern with k wildcards costs "
                          "length^k steps - a rule like *a*a*...*b against a long run of 'a' does not return in any useful time" % (names[0], sitestr(f, loops[0])), key="recursion-in-loop|%s" % names[0])
                else:
                    ck.ob("C14-O5", sitestr(f, n), None, "%s is recursive (%s): no ranking argument for the recursion depth is derived" % (names[0], "/".join(names)), key="recursion|%s" % names[0])
    if not found:
        ck.ob("C14-O5", "(call graph of the analysed functions)", True, "no analysed function can reach itself: %d functions, %d call edges, no cycle (with virtual dispatch resolved to all overriders)"
              % (len(graph), sum(len(v) for v in graph.values())), key="recursion|none")
    return found


SIGNED_INT = ("int", "long", "long long", "short", "qint32", "qint64", "qlonglong", "qsizetype", "qptrdiff", "ssize_t", "ptrdiff_t", "signed char", "qint16", "qint8")


def accumulation_rule(ck, env):
    """C14-O6: hand-written number parsing. The toInt family reports overflow through `ok`; a digit loop does not."""
    F = ck.facts
    scope = set(env.scope)
    found = []
    for f in sorted((x for x in F.fns.values() if x.sig in scope and x.body is not None), key=lambda x: (x.file, x.line, x.sig)):
        for n in f.find(lambda n: n.get("k") == "binop" and n.get("op") in ("=", "*=", "<<=")):
            lhs = skip_copies(n.get("lhs"))
            if not (lhs.get("k") == "ref" and lhs.get("dk") in ("local", "param")):
                continue
            t = (lhs.get("type") or "").replace("const ", "").strip()
            if t not in SIGNED_INT:
                continue
            d = lhs.get("decl")
            if n["op"] == "=":
                mult = [x for x in walk(n.get("rhs")) if x.get("k") == "binop" and x.get("op") in ("*", "<<") and
                        ((is_ref_to(x.get("lhs"), d) and (const_int(x.get("rhs")) or 0) >= 2 - (x.get("op") == "<<")) or (x.get("op") == "*" and is_ref_to(x.get("rhs"), d) and (const_int(x.get("lhs")) or 0) >= 2))]
                if not mult:
                    continue
                k = const_int(mult[0].get("rhs")) if is_ref_to(mult[0].get("lhs"), d) else const_int(mult[0].get("lhs"))
                if mult[0].get("op") == "<<":
                    k = 1 << k
            else:
                k = const_int(n.get("rhs"))
                if k is None or (n["op"] == "*=" and k < 2):
                    continue
                if n["op"] == "<<=":
                    k = 1 << k
            loops = enclosing_loops(f, n)
            if not loops:
                continue
            loop = loops[0]
            found.append("%s in %s" % (lhs.get("name"), f.name.split("::")[-1]))
            # a bound test on the variable inside the loop, evaluated before the step on every iteration
            g = Graph(f)
            ns = g.site_of(n)
            guards = []
            for c in f.find(lambda c: c.get("k") == "binop" and c.get("op") in ("<", ">", "<=", ">=") and any(a.get("id") == loop["id"] for a in f.ancestors(c))):
                if any(is_ref_to(x, d) for x in (c.get("lhs"), c.get("rhs")) if isinstance(x, dict)) or any(x.get("k") == "ref" and x.get("decl") == d for x in walk(c)):
                    other = c.get("rhs") if any(y.get("k") == "ref" and y.get("decl") == d for y in walk(c.get("lhs"))) else c.get("lhs")
                    bound = eval_int(other, lambda z: None)
                    cs_ = g.site_of(c)
                    if cs_ is not None and ns is not None and g.dominated(ns, {cs_}):
                        guards.append((c, bound))
            tname = f.name.split("::")[-1]
            if not guards:
                ck.ob("C14-O6", sitestr(f, n), False, "%s is multiplied by %s on every iteration of the loop at line %d with no test of its size before the step: %d digits are enough to overflow the %s "
                      "(the old toInt() reported that through `ok`; a clamp applied after the loop sees the wrapped value)" % (lhs.get("name"), k, loop.get("l", 0), 10 if k == 10 else 32, t),
                      key="accumulate|%s|%s" % (tname, lhs.get("name")))
            else:
                c, bound = guards[0]
                lim = (1 << 31) - 1 if t in ("int", "qint32", "long") or True else 0
                ok = bound is not None and bound * k + k <= lim
                ck.ob("C14-O6", sitestr(f, n), True if ok else None, "%s is tested against %s before every multiplication by %s" % (lhs.get("name"), bound, k) if ok else
                      "%s is accumulated multiplicatively; the bound test %s is not a constant small enough to exclude overflow" % (lhs.get("name"), describe(c)), key="accumulate|%s|%s" % (tname, lhs.get("name")))
    if not found:
        ck.ob("C14-O6", "(analysed functions)", True, "no multiplicative accumulation of a signed integer inside a loop in the %d analysed functions (numbers are parsed with the toInt family, which reports overflow)" % len(scope),
              key="accumulate|none")
    return found


CHAR_ELEMS = ("char", "unsigned char", "signed char", "QChar", "unsigned short", "char16_t", "wchar_t", "uchar", "ushort", "char32_t", "unsigned int", "uint")
NO_EXTENT_GUARDS = ("strncmp", "qstrncmp", "qstrnicmp", "strncasecmp", "strnicmp", "memcmp")


def _is_chptr(t):
    t = (t or "").strip()
    if not t.endswith("*"):
        return False
    return t[:-1].replace("const", "").strip() in CHAR_ELEMS


def raw_pointer_rule(ck, env):
    """C14-O7: the access rule (O4) knows containers and arrays of known extent.  Stepping through text with a raw character pointer
    (p + n, ++p, p[n], *p) has no extent the analysis can see, so every such site is an obligation of its own: undecided in general,
    violated when the only thing standing between the pointer and the end of its buffer is a strncmp-family comparison — those stop
    at the first NUL of *either* argument and therefore do not show that the text is as long as the count."""
    F = ck.facts
    ck.rule("C14-O7", "no raw character-pointer arithmetic or dereference (p + n, p - n, ++p, p[n], *p on char/QChar/ushort pointers) in the analysed functions whose extent is not established; "
                      "a strncmp/qstrncmp/memcmp guard does not establish that the text has n characters")
    scope = set(env.scope)
    sites = 0
    for f in sorted((x for x in F.fns.values() if x.sig in scope and x.body is not None), key=lambda x: (x.file, x.line, x.sig)):
        tname = f.name.split("::")[-1]
        for n in f.all_nodes():
            k = n.get("k")
            ptr, off, kind = None, None, None
            if k == "unop" and n.get("op") in ("*", "++", "--") and isinstance(n.get("e"), dict) and _is_chptr(n["e"].get("type")):
                ptr, kind = n["e"], "dereference" if n["op"] == "*" else "step"
            elif k == "binop" and n.get("op") in ("+", "-", "+=", "-=") and isinstance(n.get("lhs"), dict) and isinstance(n.get("rhs"), dict):
                if _is_chptr(n["lhs"].get("type")) and not _is_chptr(n["rhs"].get("type")):
                    ptr, off, kind = n["lhs"], n["rhs"], "offset"
                elif _is_chptr(n["rhs"].get("type")) and not _is_chptr(n["lhs"].get("type")) and n["op"] == "+":
                    ptr, off, kind = n["rhs"], n["lhs"], "offset"
            elif k == "subscript" and isinstance(n.get("base"), dict) and _is_chptr(skip_copies(n["base"]).get("type")) and not re.search(r"\[\d+\]", skip_copies(n["base"]).get("type") or ""):
                ptr, off, kind = n["base"], n.get("idx"), "subscript"
            if ptr is None:
                continue
            sites += 1
            verdict, why = None, "the analysis has no extent for the text %s points into" % describe(ptr)[:40]
            if kind in ("offset", "subscript") and off is not None:
                o = skip_copies(deref_local(f, off))
                # offset = size of another container, and the only relation between the two is a bounded comparison
                if is_call(o, ("size", "length", "count")) and isinstance(o.get("obj"), dict):
                    other = skip_copies(o["obj"])
                    pdecl = skip_copies(deref_local(f, ptr)).get("decl") or skip_copies(ptr).get("decl")
                    guards = [c for c in f.calls() if (c.get("callee") or "").split("::")[-1] in NO_EXTENT_GUARDS and len(c.get("args", [])) >= 3
                              and any(skip_copies(a).get("decl") == skip_copies(ptr).get("decl") for a in c["args"][:2] if isinstance(a, dict))
                              and describe(skip_copies(deref_local(f, c["args"][2]))) == describe(o)]
                    lens = [c for c in f.calls() if (c.get("callee") or "").split("::")[-1] in ("strlen", "qstrlen", "strnlen", "qstrnlen") and c.get("args")
                            and skip_copies(c["args"][0]).get("decl") == skip_copies(ptr).get("decl")]
                    arbitrary = other.get("k") == "member" or (other.get("k") == "ref" and other.get("dk") in ("param", "field"))
                    if guards and not lens and arbitrary:
                        g0 = guards[0]
                        verdict = False
                        why = ("%s is advanced by %s after %s(...) == 0, which stops at the first NUL of either argument: when %s contains a NUL at position k and the text equals its first k bytes, "
                               "the comparison succeeds and the pointer lands %s - k - 1 bytes behind the text's terminator" %
                               (describe(ptr)[:30], describe(o)[:40], (g0.get("callee") or "").split("::")[-1], describe(other)[:30], describe(o)[:40]))
            ck.ob("C14-O7", sitestr(f, n), verdict, "%s: %s %s: %s" % (tname, kind, describe(n)[:50], why), key="rawptr|%s|%s" % (tname, kind))
    if not sites:
        ck.ob("C14-O7", "(analysed functions)", True, "no raw character-pointer arithmetic or dereference in the %d analysed functions: text is handled through QString/QByteArray, whose accesses O4 proves" % len(scope),
              key="rawptr|none")
    return sites



def use_after_delete_rule(ck, F, fns_by_sig, env):
    """C14-O8: an object that was deleted is not used again.  Decided per function of the analysed scope on its flattened form (private helpers and lambdas
    spliced in, so `drop(token)` with `delete p` inside is a delete of `token`): from a `delete v` on a local pointer variable v no use of v is reachable
    without passing an assignment to v first.  A by-value parameter set to nullptr in a helper does not clear the caller's variable."""
    from engine.cfg import Graph
    from engine.facts import through_param
    ck.rule("C14-O8", "no local pointer is used after `delete`: from every delete of a local pointer variable (directly or inside a spliced helper / lambda that received it by value) "
                      "every path to a later use of that variable passes an assignment to it")
    n_del, bad = 0, 0
    for sig in sorted(env.scope):
        f0 = fns_by_sig.get(sig)
        if f0 is None or f0.body is None or f0.lambda_of:
            continue
        try:
            f = F.flat(f0)
        except Exception:
            continue
        dels = [n for n in f.all_nodes() if n.get("k") == "delete"]
        if not dels:
            continue
        g = Graph(f)
        for d in dels:
            e = d.get("e") if isinstance(d.get("e"), dict) else (d.get("args") or [None])[0]
            v = _bound_here(f, e) if isinstance(e, dict) else None
            if not (isinstance(v, dict) and v.get("k") == "ref" and v.get("dk") in ("local", "param") and not v.get("inl_param")):
                continue
            n_del += 1
            decl = v["decl"]
            ds = g.site_of(d)
            if ds is None:
                continue
            assigns, uses = [], []
            for n in f.all_nodes():
                if n.get("k") == "binop" and n.get("op") == "=" and isinstance(n.get("lhs"), dict) and skip_copies(n["lhs"]).get("k") == "ref" and skip_copies(n["lhs"]).get("decl") == decl:
                    assigns.append(n)
            a_lhs = {skip_copies(a["lhs"]).get("id") for a in assigns}
            asites = {s_ for s_ in g.sites_of_nodes(assigns) if s_ is not None}
            for n in f.all_nodes():
                if n.get("k") == "ref" and n.get("decl") == decl and n.get("id") not in a_lhs and n.get("id") != v.get("id"):
                    # the argument expression that was bound to the helper's parameter is the hand-over itself, not a later use
                    uses.append(n)
            later = []
            for u in uses:
                us = g.site_of(u)
                if us is None:
                    for a_ in f.ancestors(u):
                        if g.site_of(a_) is not None:
                            us = g.site_of(a_)
                            break
                if us is None or us == ds:
                    continue
                if us in g.reach([ds], blocked=asites, include_start=False):
                    later.append(u)
            if later:
                bad += 1
                ck.ob("C14-O8", sitestr(f, later[0]), False, "%s is deleted at line %s%s and used again here without having been given a new value: use after free on every run of this path, "
                      "and a second delete when its owner is destroyed" % (v.get("name"), d.get("l"), " (inside a helper that received the pointer by value: setting the copy to nullptr does not clear the caller's variable)" if skip_copies(e).get("inl_param") else ""),
                      key="use-after-delete|%s|%s" % (strip_tmpl(f.name).split("::")[-1], v.get("name")))
    ck.ob("C14-O8", "(analysed functions)", not bad, "%d deletes of local pointer variables in the analysed scope, none followed by a use of the variable" % n_del if not bad else
          "%d local pointer(s) used after delete" % bad, key="use-after-delete|summary")



def _bound_here(f, e):
    """the argument a spliced helper's parameter stands for IN THIS flattened function (the registry of parameter bindings is shared by every flattening a
    function takes part in; only a binding whose node belongs to f's own tree counts)"""
    from engine.inline import PARAM_BIND
    n = skip_copies(e)
    for _ in range(4):
        if not (isinstance(n, dict) and n.get("k") == "ref" and n.get("inl_param")):
            break
        cands = []
        for b in PARAM_BIND.get(n.get("decl")) or []:
            b0 = skip_copies(b)
            if isinstance(b0, dict) and f.nodes.get(b0.get("id")) is b0:
                cands.append(b0)
        if len(cands) != 1:
            return None
        n = cands[0]
    return n
