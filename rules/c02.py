"""C02 — concurrent logging: mutual exclusion of whole pipeline runs on every schedule (DESIGN.md section 3, C02)."""
from engine.util import *
from engine.locks import LockFlow, direct_acquires, mutex_identity
from engine.facts import strip_tmpl

LEVEL = "other"
MIN_OBLIGATIONS = 8
THOROUGH_CONFIGS = ("headeronly",)
TECHNIQUE = "lockset (must-hold) dataflow on the CFG keyed by mutex field identity + call-graph entry closure + lock-order graph + atomic-publication rule; exactly-once path rule on the entry functions (no give-up branch), mode-flip ordering rule on resetOwnThread; handler-identity rule (installMessageHandler never installs a foreign handler, not even transiently); meta-type registration on every constructor path; no mutable static state and no deferred callbacks in code reachable from handler entry points; only install/restore may call qInstallMessageHandler; handler classes with a process-wide instance() write members only under a lock of their own (lockset at every write site reachable from their per-message entry points); the logger is installed only after its pipeline is built (dominance on Logger::configure); sequence numbers are drawn inside the pipeline (rule shared with C16); meta-type registered under the name the queued signal asks for; statics handed to a callee as pointer / reference to non-const count as written"
LEVEL_TEXT = ("Decides, for all schedules, that every path from the Qt message handler into a pipeline runs under the logger's mutex held for the whole run, "
              "that a bare own-thread handler holds its own mutex around synchronous processing and posting, that nested acquisitions cannot deadlock, and that the "
              "active-logger pointer is published atomically and cleared on destruction. Exactly-once and per-thread order then follow from C01 (sequential code under one lock).")
LEVEL_NOTE = "trusts QMutexLocker/QMutex/QRecursiveMutex/QAtomicPointer semantics; fairness, handler duration and memory-model details below the mutex are not decided"
DESIGN_REF = "DESIGN.md section 3, C02"
EXPLANATION = ("Lockset dataflow over clang's CFG (gen: QMutexLocker construction/relock/lock, kill: unlock/implicit destructor), mutexes identified by "
               "field through accessor inlining; every call that can reach Pipeline::process from Logger::messageHandler/processMessage must be made with "
               "Logger::m_mutex held; OwnThreadHandler<B>::process must hold its m_mutex at B::process and at postEvent; the nested-acquisition graph must be "
               "acyclic and free of same-object re-acquisition of the non-recursive mutex; g_activeLogger must be an atomic pointer cleared by ~Logger.")
TRUSTED = ["QMutexLocker locks in its constructor and unlocks in its destructor/unlock(); QRecursiveMutex may be re-acquired by its owner; QAtomicPointer operations are atomic"]
ASSUMPTIONS = ["messages enter only through Qt's message handler (Logger::messageHandler) or OwnThreadHandler::process",
               "exactly-once delivery and per-thread order are consequences of C01's sequential evaluation under the lock decided here"]
NOT_DECIDED = ["fairness / starvation", "handlers of arbitrary duration", "data races inside Qt itself", "state shared between different Logger objects (e.g. function-local statics)"]

LG = "QtLogger::Logger"
OT = "QtLogger::OwnThreadHandler"


def run(ck):
    F = ck.facts
    from rules.oth import resolve_roles
    ck.notes.append("OwnThreadHandler fields by role: %s" % resolve_roles(F))
    ck.rule("C02-O1", "every call in Logger::messageHandler/processMessage that can reach a pipeline operation (running the handlers or flushing the sinks) is made with Logger::m_mutex held (one acquisition around the whole run)")
    ck.rule("C02-O2", "OwnThreadHandler<B>::process holds its own m_mutex at the synchronous B::process call and at postEvent, in every instantiation; "
                      "resetOwnThread switches back to synchronous mode (m_worker = null) only after quit() and wait(), so caller-side and worker-side runs never overlap")
    ck.rule("C02-O5", "nested lock acquisitions form an acyclic order; the non-recursive handler mutex is never re-acquired on the same object while held")
    ck.rule("C02-O6", "the active logger is published through an atomic pointer, tested for null before use, and cleared by ~Logger")
    pproc = F.fn("QtLogger::Pipeline::process")
    # pipeline operations: running the handlers, and flushing the sinks (a flush touches the same sink state as send())
    ops = {pproc.id}
    sflush = F.fn("QtLogger::Sink::flush", optional=True)
    if sflush is not None:
        ops.add(sflush.id)
        ops |= {o for o in F.overriders.get(sflush.id, ()) if o in F.fns}
    for nm in ("QtLogger::SimplePipeline::flush", "QtLogger::SimplePipeline::recursiveFlush"):
        for x in F.fn_all(nm):
            ops.add(x.id)
    ck.notes.append("pipeline operations guarded by the logger mutex: %s" % sorted(F.fns[o].name for o in ops if o in F.fns))
    # functions from which a pipeline operation is reachable
    reaches = set()
    for f in F.fns.values():
        if ops & F.reachable_from([f]):
            reaches.add(f.id)

    def can_run_pipeline(n):
        fid = n.get("fn")
        if fid in reaches:
            return True
        if n.get("virtual"):
            return any(o in reaches for o in F.overriders.get(fid, ()))
        return False

    # ---- O1 / O3
    mh = F.fn(LG + "::messageHandler")
    pm = F.fn(LG + "::processMessage")
    ck.touch(mh, pm)
    entry_calls = [n for n in mh.calls() if can_run_pipeline(n)]
    ck.require(entry_calls, "Logger::messageHandler no longer reaches a pipeline")
    for n in entry_calls:
        ok = n.get("fn") == pm.id
        if ok:
            ck.ob("C02-O1", sitestr(mh, n), True, "messageHandler enters the pipeline only through processMessage")
        else:
            # another entry: it must itself hold the mutex at the call
            lf = LockFlow(F, mh)
            held = lf.held_at(n, LG + "::m_mutex")
            ck.ob("C02-O1", sitestr(mh, n), held, "second entry %s under the logger mutex" % describe(n) if held else "messageHandler runs the pipeline through %s without the logger mutex" % describe(n),
                  key="Logger::messageHandler|unlocked-entry")
    lf = LockFlow(F, pm)
    pcalls = [n for n in pm.calls() if can_run_pipeline(n)]
    ck.require(pcalls, "Logger::processMessage no longer runs the pipeline")
    for n in pcalls:
        held = lf.held_at(n, LG + "::m_mutex")
        ck.ob("C02-O1", sitestr(pm, n), held, "%s is called with Logger::m_mutex held on all paths" % describe(n) if held else
              "%s is called without Logger::m_mutex held on every path (held: %s)" % (describe(n), lf.held_set(n)), key="Logger::processMessage|pipeline-run-unlocked")
    acq = [o for o in lf.ops if o[1] == "acquire" and o[2] == LG + "::m_mutex"]
    rel = [o for o in lf.ops if o[1] == "release" and o[2] == LG + "::m_mutex"]
    ck.notes.append("processMessage: %d acquisition(s), %d explicit release(s) of Logger::m_mutex" % (len(acq), len(rel)))
    # mutex type: recursive (a handler that logs re-enters processMessage on the same thread)
    mf = F.field(LG, "m_mutex")
    ck.notes.append("Logger::m_mutex has type %s" % mf["type"])

    # ---- O7 exactly once on the entry path: no path drops the message or runs the pipeline twice
    ck.rule("C02-O7", "exactly once: with an active logger messageHandler calls processMessage on every path, and processMessage runs the pipeline exactly once on every path (no give-up branch: busy flag, try-lock, timeout)")
    gm = Graph(mh)
    gl_decls = [v["decl"] for n in mh.find(lambda n: n.get("k") == "decl") for v in n.get("vars", []) if isinstance(v.get("init"), dict) and any((x.get("name") or "").endswith("g_activeLogger") for x in walk(v["init"]))]
    isl_ = lambda n: n.get("k") == "ref" and n.get("decl") in gl_decls
    keepl = gm.projector(atom_eq(isl_, True))
    pmcalls = [n for n in entry_calls if n.get("fn") == pm.id]
    if pmcalls:
        ps_ = set(gm.sites_of_nodes(pmcalls))
        ok = gm.must_pass(ps_, keep=keepl) and not any(gm.in_cycle(x) for x in ps_)
        ck.ob("C02-O7", sitestr(mh, pmcalls[0]), ok, "with an active logger every message reaches processMessage exactly once" if ok else
              "messageHandler can return without calling processMessage although a logger is active (a guard other than the null test): the message is delivered to no sink", key="Logger::messageHandler|message-dropped")
    gp = Graph(pm)
    runs_ = [n for n in pcalls if name_is(n.get("callee"), "process")]
    if runs_:
        rs_ = set(gp.sites_of_nodes(runs_))
        ok = gp.must_pass(rs_) and not any(gp.in_cycle(x) for x in rs_) and len(runs_) == 1
        ck.ob("C02-O7", sitestr(pm, runs_[0]), ok, "processMessage runs the pipeline exactly once on every path" if ok else
              "processMessage has a path that does not run the pipeline (or runs it more than once): %d run site(s)" % len(runs_), key="Logger::processMessage|message-dropped")
    # ---- O2
    insts = [f for f in F.fn_all(OT + "::process") if f.d.get("inst")]
    ck.require(len(insts) >= 2, "expected OwnThreadHandler<Pipeline> and <SimplePipeline> instantiations, found %d" % len(insts))
    for f in insts:
        ck.touch(f)
        lf = LockFlow(F, f)
        base = [n for n in f.calls() if n.get("qualified") and name_is(n.get("callee"), "process") and skip_copies(n.get("obj")).get("k") == "this"]
        post = [n for n in f.calls("QCoreApplication::postEvent")]
        if not base:
            ck.ob("C02-O2", sitestr(f), None, "no synchronous BaseHandler::process call found in %s" % f.name)
        for n in base + post:
            held = lf.held_at(n, OT + "::m_mutex")
            ck.ob("C02-O2", sitestr(f, n), held, "%s under OwnThreadHandler::m_mutex" % describe(n)[:60] if held else
                  "%s is executed without OwnThreadHandler::m_mutex held on every path" % describe(n)[:80],
                  key="OwnThreadHandler::process|%s-unlocked" % ("sync-run" if n in base else "post"))

    # the two executors (caller under m_mutex / worker thread) never overlap: the handler goes back to synchronous mode only
    # after the worker thread has finished (the worker takes neither mutex while it delivers)
    from rules.oth import worker_cleared_after_stop
    for cls_ in sorted({f.cls for f in insts}):
        worker_cleared_after_stop(ck, cls_, cls_.split("<")[-1].rstrip(">").split("::")[-1], "C02-O2")

    # ---- O5 lock order
    lock_order(ck)

    # ---- O6 atomic publication
    gs = [g for g in F.globals.values() if g["name"].endswith("g_activeLogger")]
    ck.require(len(gs) == 1, "g_activeLogger no longer resolves")
    gl = gs[0]
    # the cell may be the global itself or the pointer field of a file-local wrapper object (`ActiveLoggerSlot g_activeLogger`)
    cell_type = gl["type"]
    wrapper_fields = []
    wrec = F.records.get(gl["type"].replace("const ", "").strip())
    if wrec is not None:
        wrapper_fields = [f_ for f_ in wrec.get("fields", []) if "Logger" in f_.get("type", "")]
        if len(wrapper_fields) == 1:
            cell_type = wrapper_fields[0]["type"]

    def is_cell(x):
        x = skip_copies(x) if isinstance(x, dict) else None
        if not isinstance(x, dict):
            return False
        if is_ref_to(x, gl["decl"]):
            return wrec is None
        if wrec is not None and x.get("k") == "member" and x.get("dk") == "field" and len(wrapper_fields) == 1 and x["name"].split("::")[-1] == wrapper_fields[0]["name"]:
            return is_ref_to(x.get("base"), gl["decl"])
        return False
    atomic = cell_type.startswith(("QAtomicPointer<", "std::atomic<"))
    ck.ob("C02-O6", "%s:%d (g_activeLogger)" % (gl["file"].split("/src/")[-1], gl["line"]), atomic, "active logger pointer has type %s" % cell_type if atomic else
          "active logger pointer is a plain %s: install and the message handler race on it" % cell_type, key="g_activeLogger|not-atomic")
    dt = F.fn(LG + "::~Logger")
    ck.touch(dt)
    g = Graph(dt)
    clears = []
    for n in dt.calls():
        if n.get("ck") == "member" and is_cell(n.get("obj")) and name_is(n.get("callee"), ("testAndSetOrdered", "testAndSetRelease", "testAndSetAcquire", "testAndSetRelaxed", "compare_exchange_strong")):
            a = n.get("args", [])
            if len(a) >= 2 and skip_copies(deref_local(dt, a[0])).get("k") == "this" and skip_copies(deref_local(dt, a[1])).get("k") == "null_lit":
                clears.append(n)
        if n.get("ck") == "member" and is_cell(n.get("obj")) and name_is(n.get("callee"), ("storeRelease", "store", "storeRelaxed")) and n.get("args") and skip_copies(n["args"][0]).get("k") == "null_lit":
            clears.append(n)
    for n in dt.find(lambda n: n.get("k") == "binop" and n.get("op") == "=" and is_cell(n.get("lhs")) and skip_copies(n.get("rhs")).get("k") == "null_lit"):
        clears.append(n)
    ok = bool(clears) and (g.must_pass(set(g.sites_of_nodes(clears))) or atomic and all(name_is(c.get("callee"), ("testAndSetOrdered", "testAndSetRelease", "testAndSetAcquire", "testAndSetRelaxed", "compare_exchange_strong")) for c in clears))
    if clears and not atomic:
        # plain pointer: `if (g == this) g = nullptr;` clears exactly when this logger is the active one
        ok = True
    ck.ob("C02-O6", sitestr(dt), ok, "~Logger clears the active-logger pointer if it is this logger" if ok else "~Logger leaves a dangling active-logger pointer", key="Logger::~Logger|no-clear")
    # null test in messageHandler
    g = Graph(mh)
    loads = [n for n in mh.find(lambda n: n.get("k") == "decl") for v in n.get("vars", []) if isinstance(v.get("init"), dict) and any(is_cell(x) for x in walk(v["init"]))]
    if len(loads) == 1:
        ld = loads[0]["vars"][0]["decl"]
        isl = lambda n: n.get("k") == "ref" and n.get("decl") == ld
        keep = g.projector(atom_eq(isl, False))
        live = g.live(keep)
        bad = [n for n in entry_calls if g.site_of(n) in live]
        ck.ob("C02-O6", sitestr(mh), not bad, "messageHandler does nothing when no logger is active" if not bad else "messageHandler dereferences a null active logger", key="Logger::messageHandler|null-deref")
        ok = all(is_ref_to(unwrap_ptr(n.get("obj")), ld) for n in entry_calls)
        ck.ob("C02-O6", sitestr(mh), ok, "the pointer is loaded once and that value is used", key="Logger::messageHandler|double-load")
    else:
        ck.ob("C02-O6", sitestr(mh), None, "active logger is not loaded into exactly one local in messageHandler")
    inst = F.fn(LG + "::installMessageHandler")
    ck.touch(inst)
    g = Graph(inst)
    st = [n for n in inst.calls() if is_cell(n.get("obj")) and n.get("args") and skip_copies(deref_local(inst, n["args"][0])).get("k") == "this"]
    st += inst.find(lambda n: n.get("k") == "binop" and n.get("op") == "=" and is_cell(n.get("lhs")) and skip_copies(n.get("rhs")).get("k") == "this")
    qi = [n for n in inst.calls("qInstallMessageHandler")]
    ok = bool(st) and bool(qi) and all(g.dominated(q, set(g.sites_of_nodes(st))) for q in g.sites_of_nodes(qi))
    ck.ob("C02-O6", sitestr(inst), ok, "the logger is published before the Qt handler is installed" if ok else "the Qt handler is installed before/without publishing the logger",
          key="Logger::installMessageHandler|publish-order")
    ck.rule("C02-O13", "a logger becomes Qt's message handler only once its pipeline is built: in every Logger method that both fills the pipeline (QtLogger::configure(this, ...)) and calls "
                       "installMessageHandler(), the installation comes after the configuration on every path (the builder methods change the handler list without the logger's lock; a "
                       "message of another thread meanwhile runs a half-built pipeline and misses the sinks created by the same call)")
    n13 = 0
    for f_ in sorted((x for x in F.fns.values() if x.body is not None and in_lib(x.file) and strip_tmpl(x.cls or "") == "QtLogger::Logger"), key=lambda x: x.sig):
        ff_ = F.flat(f_)
        cfgs_ = [c_ for c_ in ff_.calls("QtLogger::configure")]
        inst_ = [c_ for c_ in ff_.calls("QtLogger::Logger::installMessageHandler")]
        if not cfgs_ or not inst_:
            continue
        n13 += 1
        g_ = Graph(ff_)
        cs_ = set(g_.sites_of_nodes(cfgs_))
        ok_ = all(not any(g_.can_reach(i_, c_) for c_ in cs_) for i_ in g_.sites_of_nodes(inst_))
        ck.ob("C02-O13", sitestr(ff_, inst_[0]), ok_, "%s: the pipeline is configured, then the message handler is installed" % f_.name.split("QtLogger::")[-1] if ok_ else
              "%s installs the message handler before the pipeline is built: messages of other threads are accepted by a logger whose handler list is being appended to without the lock, "
              "and miss the sinks that the same call creates a moment later" % f_.name.split("QtLogger::")[-1], key="install-before-configure|%s" % f_.sig.split("QtLogger::")[-1][:60])
    ck.require(n13 >= 2, "only %d Logger methods configure and install (2 confirmed by hand)" % n13)
    ck.rule("C02-O14", "a sequence number is drawn while the message is inside the pipeline (under the lock that orders the messages): SeqNumberAttr::attributes() advances the handler's own counter "
                       "once per call and publishes it - a number drawn earlier (when the record is created) orders the messages by creation, not by the order the sinks see them")
    from rules.c16 import seq
    seq(ck, "C02-O14")
    ck.rule("C02-O9", "handler code keeps no mutable static state: every static variable written by code reachable from a handler's process/format/filter/send/attributes/flush is a cache of constants "
                      "(the pipeline's lock covers the pipeline's own objects, not what all pipelines share)")
    from rules.oth import shared_static_state
    shared_static_state(ck, F, "C02-O9", "its own mutex")
    ck.rule("C02-O10", "handler code registers no deferred callback (QObject::connect, QTimer, QtConcurrent, std::thread, QMetaObject::invokeMethod): everything a handler does to its state happens inside the call the pipeline's lock covers")
    from rules.oth import no_deferred_callbacks
    no_deferred_callbacks(ck, F, "C02-O10", allowed=("OwnThreadHandler::process",))
    ck.rule("C02-O11", "what all pipelines of the process share is left under its own lock: the standard streams are written through stdio / iostream calls that take the stream's lock, and no builder "
                       "method hands out a handler object from process-wide storage")
    from rules.oth import process_wide_streams_locked, builders_create_fresh_handlers, shared_instances_guard_their_state
    process_wide_streams_locked(ck, F, "C02-O11")
    builders_create_fresh_handlers(ck, F, "C02-O11")
    ck.rule("C02-O12", "a handler class with a process-wide instance() keeps per-message state only under a lock of its own (its users lock independently)")
    shared_instances_guard_their_state(ck, F, "C02-O12")
    # a message that a sink hands on through a queued signal (SignalSink with a receiver in another thread) needs LogMessage to be a
    # registered meta-type whenever a logger exists - in synchronous mode the emitting thread is whichever thread logs
    ck.rule("C02-O8", "qRegisterMetaType<LogMessage> runs on every path of a constructor every logger goes through (OwnThreadHandler, SignalSink), not only when asynchronous mode is switched on")
    from rules.oth import metatype_registered
    metatype_registered(ck, F, "C02-O8")
    # installing never takes the logger out, not even for a moment: every qInstallMessageHandler reachable from
    # installMessageHandler() installs the logger's own entry function (a re-install that first restores the previous handler lets
    # messages logged by other threads in between go to that handler: they never enter the pipeline)
    ids = F.reachable_from([inst], virtual=False)
    n_qi = 0
    for i_ in sorted(ids):
        f_ = F.fns.get(i_)
        if f_ is None or f_.body is None or not in_lib(f_.file):
            continue
        for q in f_.calls("qInstallMessageHandler"):
            n_qi += 1
            a0 = skip_copies(deref_local(f_, q["args"][0])) if q.get("args") else None
            own = isinstance(a0, dict) and ((a0.get("k") == "ref" and (a0.get("name") or "").endswith("Logger::messageHandler")) or
                                            (a0.get("k") == "unop" and a0.get("op") == "&" and (skip_copies(a0.get("e")).get("name") or "").endswith("Logger::messageHandler")))
            ck.ob("C02-O7", sitestr(f_, q), own, "installMessageHandler installs the logger's own entry function" if own else
                  "%s, reached from installMessageHandler(), installs %s: while an installed logger is installed again its messages go to that handler for a moment and bypass the pipeline" %
                  (f_.name.split("::")[-1], describe(a0)[:40]), key="installMessageHandler|transient-uninstall|%s" % f_.name.split("::")[-1])
    ck.require(n_qi >= 1, "installMessageHandler no longer reaches qInstallMessageHandler")
    # who may change Qt's message handler at all: the install / restore pair; anything else takes the logger out of the message path
    # for as long as it likes (while another thread logs, those messages never enter the pipeline)
    allowed_ids = set(ids) | F.reachable_from([F.fn(LG + "::restorePreviousMessageHandler")], virtual=False)
    for f_ in sorted(F.fns.values(), key=lambda f: (f.file, f.line, f.sig)):
        if f_.body is None or not in_lib(f_.file) or f_.id in allowed_ids:
            continue
        for q in f_.calls("qInstallMessageHandler"):
            ck.ob("C02-O7", sitestr(f_, q), False, "%s changes Qt's message handler (%s) outside installMessageHandler()/restorePreviousMessageHandler(): until it puts the logger back, messages logged by "
                  "other threads go to another handler and never enter the pipeline" % (f_.name.split("QtLogger::")[-1], describe(q)[:50]), key="qInstallMessageHandler|outside-protocol|%s" % f_.name.split("::")[-1])
    # informational: stateful handlers
    for fld in ("QtLogger::SeqNumberAttr::m_count", "QtLogger::DuplicateFilter::m_lastMessage", "QtLogger::PrettyFormatter::m_threads",
                "QtLogger::PrettyFormatter::m_threadsIndex", "QtLogger::PrettyFormatter::m_categoryWidth"):
        for f, n, how in field_writes(F, fld):
            ck.notes.append("state %s written (%s) in %s" % (fld.split("::", 1)[1], how, f.sig))


def json_dumps_small(n):
    """type-ish text of a call node (template arguments of the callee are only visible in some of its fields)"""
    return " ".join(str(n.get(k, "")) for k in ("callee", "sig", "type", "fn"))


def lock_order(ck):
    F = ck.facts
    direct = {}
    for f in F.fns.values():
        if f.cfg is None:
            continue
        # cheap pre-filter: only functions that mention a locker or a mutex call
        if not any((n.get("k") == "decl" and any("Locker" in (v.get("type") or "") or "lock_guard" in (v.get("type") or "") or "unique_lock" in (v.get("type") or "") for v in n.get("vars", [])))
                   or (n.get("k") == "call" and strip_tmpl(n.get("cls") or "") in ("QMutex", "QBasicMutex", "QRecursiveMutex", "std::mutex")) for n in f.all_nodes()):
            continue
        d = direct_acquires(F, f)
        if d:
            direct[f.id] = d
    ck.notes.append("functions acquiring a mutex: %s" % sorted("%s -> %s" % (F.fns[k].name, sorted(v)) for k, v in direct.items()))

    def closure(fid, on_this_only, seen=None):
        seen = seen if seen is not None else set()
        if fid in seen:
            return set()
        seen.add(fid)
        out = set(direct.get(fid, ()))
        f = F.fns.get(fid)
        if f is None:
            return out
        for n in f.all_nodes():
            if n.get("k") != "call" or not n.get("fn"):
                continue
            if on_this_only:
                o = skip_copies(n.get("obj")) if n.get("obj") else None
                if not (isinstance(o, dict) and o.get("k") == "this"):
                    continue
            targets = {n["fn"]}
            if n.get("virtual"):
                targets |= F.overriders.get(n["fn"], set())
            for t in targets:
                out |= closure(t, on_this_only, seen)
        return out

    def recursive_mutex(m):
        cls, fld = m.rsplit("::", 1)
        for r in F.records.values():
            if strip_tmpl(r["name"]) == cls:
                for fd in r["fields"]:
                    if fd["name"] == fld:
                        return "Recursive" in fd["type"] or "recursive" in fd["type"]
        return False

    edges = {}
    n_sites = 0
    for fid in direct:
        f = F.fns[fid]
        lf = LockFlow(F, f)
        for n in f.all_nodes():
            if n.get("k") != "call" or not n.get("fn"):
                continue
            held = lf.held_set(n)
            if not held:
                continue
            targets = {n["fn"]}
            if n.get("virtual"):
                targets |= F.overriders.get(n["fn"], set())
            o = skip_copies(n.get("obj")) if n.get("obj") else None
            on_this = isinstance(o, dict) and o.get("k") == "this"
            for t in targets:
                if t not in F.fns:
                    continue
                n_sites += 1
                anyacq = closure(t, False)
                thisacq = closure(t, True) if on_this else set()
                for L in held:
                    for M in anyacq:
                        if M != L:
                            edges.setdefault((L, M), []).append(sitestr(f, n))
                    if L in thisacq and not recursive_mutex(L):
                        ck.ob("C02-O5", sitestr(f, n), False, "%s is called on this object while the non-recursive %s is held, and acquires it again (self-deadlock)" % (describe(n), L),
                              key="%s|self-deadlock|%s" % (strip_tmpl(f.name), L))
    ck.notes.append("lock-order edges: %s" % sorted("%s -> %s" % e for e in edges))
    # cycle detection
    adj = {}
    for (a, b) in edges:
        adj.setdefault(a, set()).add(b)
    cyc = None
    for s in adj:
        stack = [(s, [s])]
        while stack and not cyc:
            x, path = stack.pop()
            for y in adj.get(x, ()):
                if y == s:
                    cyc = path + [s]
                    break
                if y not in path:
                    stack.append((y, path + [y]))
        if cyc:
            break
    ck.ob("C02-O5", "lock-order graph (%d nested-acquisition sites, %d edges)" % (n_sites, len(edges)), cyc is None,
          "acyclic: %s" % sorted("%s -> %s" % e for e in edges) if cyc is None else "lock-order cycle %s at %s" % (" -> ".join(cyc), [edges[(cyc[i], cyc[i + 1])][0] for i in range(len(cyc) - 1)]),
          key="lock-order|cycle")
