"""C18 — Sentry events (DESIGN.md section 3, C18)."""
import os
import re

from engine.util import *
from engine.extract import REPO

LEVEL = "other"
MIN_OBLIGATIONS = 25
TECHNIQUE = "finite tables (level switch vs documentation table; skipped-names set vs dedicated-slot set evaluated by CFG projection per name) + def-use provenance of every event field + containment/ordering of the nested JSON objects; bulk-import idiom and own-key-before-import ordering rule under extra; byte-domain cut rule for the fingerprint; level and fingerprint[0] tabulated by cases for the five message types when the mapping is not a switch; persistent-event-object rule (every key written or removed on every path)"
LEVEL_TEXT = ("Decides for all messages and attribute sets: the level mapping (code and documentation), that the set of attribute names skipped under 'extra' equals the set of names "
              "that have a dedicated tag/context slot (so each custom attribute appears exactly once), that every other attribute is inserted unconditionally, and the provenance, "
              "guards and order of event_id / timestamp / level / message.formatted / logger / fingerprint, including that each nested object is attached after it is filled. "
              "JSON validity and id uniqueness are not decided.")
LEVEL_NOTE = "trusts QJsonDocument (validity), QUuid::createUuid (fresh random id, 32 hex digits in Id128 form), QDateTime::toUTC().toString(Qt::ISODate)"
DESIGN_REF = "DESIGN.md section 3, C18"
EXPLANATION = ("Static rules over SentryFormatter::format and qtMsgTypeToSentryLevel: switch->literal table for the five types compared with the required mapping and with the table in "
               "docs/api/formatters.md; for every attribute name mentioned anywhere in format() the loop is projected on 'key == name' to see whether the entry goes to extra, and the "
               "name's dedicated slot (hasAttribute(name) -> object[...] = attribute(name)) is located; the two sets must be equal. Field provenance by def-use through single-assignment locals.")
TRUSTED = ["QJsonObject value semantics: `parent[key] = child` copies child at that moment", "QUuid::toString(QUuid::Id128) is 32 lower-case hex digits", "Qt::ISODate of a UTC QDateTime ends in 'Z' and has second resolution"]
ASSUMPTIONS = []
NOT_DECIDED = ["JSON validity (QJsonDocument)", "uniqueness of event ids over many events (RNG)", "code-unit vs character meaning of 'first 100'"]

SF = "QtLogger::SentryFormatter"
LM = "QtLogger::LogMessage"
WANT_LEVEL = {"QtDebugMsg": "debug", "QtInfoMsg": "info", "QtWarningMsg": "warning", "QtCriticalMsg": "error", "QtFatalMsg": "fatal"}


def docs_level_table():
    p = os.path.join(REPO, "docs", "api", "formatters.md")
    if not os.path.exists(p):
        return None
    txt = open(p, errors="replace").read()
    m = re.search(r"Severity Level Mapping(.*?)(?:\n#|\Z)", txt, re.S)
    if not m:
        return None
    tab = {}
    for a, b in re.findall(r"^\|\s*`(Qt\w+Msg)`\s*\|\s*`(\w+)`\s*\|", m.group(1), re.M):
        tab[a] = b
    return tab


def run(ck):
    F = ck.facts
    ck.rule("C18-O1", "level mapping debug/info/warning/error/fatal for the five message types, in code and in docs/api/formatters.md")
    ck.rule("C18-O2", "names skipped in the 'extra' loop == names with a dedicated tag/context slot; every other attribute is inserted unconditionally via QJsonValue::fromVariant; nested objects are attached after being filled")
    ck.rule("C18-O3", "event_id fresh per call in 32-hex form; timestamp = time() -> UTC -> ISO-8601; level = map(type()); message.formatted = message(); logger only for non-empty non-'default' category; fingerprint = [level, category or 'default', message().left(100)]; compact serialisation")
    lv = F.fn("qtMsgTypeToSentryLevel", optional=True)
    fn = F.fn(SF + "::format")
    ck.touch(lv, fn)
    # ---- O1
    en = F.enums.get("QtMsgType")
    ck.require(en is not None, "enum QtMsgType not found")
    val = {e["name"]: e["value"] for e in en["enumerators"]}
    sws = lv.find(lambda n: n.get("k") == "switch") if lv is not None else []
    by_cases = None
    if lv is not None and len(sws) == 1 and is_ref_to(sws[0].get("cond"), lv.params[0]["decl"]):
        tab = switch_table(lv, sws[0])
        got = {}
        for name in WANT_LEVEL:
            leaf = tab.get(val[name], tab.get("default"))
            got[name] = const_str(leaf) if isinstance(leaf, dict) else None
        ok = got == WANT_LEVEL
        ck.ob("C18-O1", sitestr(lv, sws[0]), ok, "level table %s" % got if ok else "level table %s differs from %s" % (got, WANT_LEVEL), key="qtMsgTypeToSentryLevel|table")
    else:
        # no dedicated mapping function (or not a switch): the values format() publishes are tabulated by cases below
        by_cases = level_values_by_cases(ck, F, fn, val)
        got = by_cases[0] if by_cases else {}
        if by_cases is None:
            ck.ob("C18-O1", sitestr(fn), None, "the level mapping is neither a switch in qtMsgTypeToSentryLevel nor an expression the evaluation by cases can tabulate")
        else:
            ok = got == WANT_LEVEL
            ck.ob("C18-O1", sitestr(fn), ok, "level table %s (event['level'] evaluated for the five message types)" % got if ok else "level table %s differs from %s" % (got, WANT_LEVEL), key="qtMsgTypeToSentryLevel|table")
    dt = docs_level_table()
    if dt is None:
        ck.ob("C18-O1", "docs/api/formatters.md", None, "Severity Level Mapping table not found in the documentation")
    else:
        ck.ob("C18-O1", "docs/api/formatters.md (Severity Level Mapping)", dt == got, "documentation table agrees with the code" if dt == got else "documentation %s vs code %s" % (dt, got), key="docs|level-table")

    g = Graph(fn)
    if persistent_event_object(ck, fn):
        ck.ob("C18-O3", sitestr(fn), None, "the event is assembled in a data member across the constructor and format(): the per-field provenance rules below are written for an object built in format()")
        return
    sets = json_sets(fn)
    rs = returns(fn)
    ck.require(len(rs) == 1, "SentryFormatter::format has %d returns" % len(rs))
    e = skip_copies(rs[0].get("e"))
    tojson = skip_copies(e["args"][0]) if is_call(e, "QString::fromUtf8") and e.get("args") else None
    ok = tojson is not None and is_call(tojson, "QJsonDocument::toJson")
    doc = skip_copies(tojson.get("obj")) if ok else None
    while isinstance(doc, dict) and doc.get("k") == "cast":
        doc = skip_copies(doc.get("e"))
    ok = ok and doc.get("k") == "construct" and doc.get("class") == "QJsonDocument" and doc.get("args") and skip_copies(doc["args"][0]).get("k") == "ref"
    if not ok:
        ck.ob("C18-O3", sitestr(fn, rs[0]), False if lossy_wrappers(e) else None, "format() returns %s" % describe(e)[:120], key="SentryFormatter::format|return-shape")
        return
    mode = const_int(resolve_value(tojson["args"][0], lambda n: None, fn)) if tojson.get("args") else None
    ck.ob("C18-O3", sitestr(fn, rs[0]), mode == 1, "one JSON object serialised Compact (one line), decoded as UTF-8, unedited" if mode == 1 else "serialisation mode %s" % mode, key="SentryFormatter::format|mode")
    event = skip_copies(doc["args"][0])["decl"]
    retsite = g.site_of(rs[0])

    def attached_ok(objdecl, fill_node, depth=0):
        """the object is (transitively) attached to `event` after this fill on every path where it is non-empty"""
        if objdecl == event:
            return True, "event"
        if depth > 4:
            return False, "nesting too deep"
        fs = g.site_of(fill_node)
        att = [s for s in sets if is_ref_to(s["value"], objdecl)]
        att += [{"node": n, "obj": skip_copies(n.get("obj")).get("decl"), "value": None} for n in fn.calls() if n.get("ck") == "member" and name_is(n.get("callee"), "QJsonArray::append")
                and n.get("args") and is_ref_to(json_value_inner(n["args"][0]), objdecl)]
        if not att:
            return False, "never attached to a parent object"
        isempty = lambda n: is_call(n, ("QJsonObject::isEmpty", "QJsonArray::isEmpty")) and is_ref_to(skip_copies(n).get("obj"), objdecl)
        keep = g.projector(atom_eq(isempty, False))
        for a in att:
            asite = g.site_of(a["node"])
            if g.can_reach(asite, fs, strict=True):
                continue
            if not g.postdominated(fs, {asite}, keep=keep):
                continue
            okp, why = attached_ok(a["obj"], a["node"], depth + 1)
            if okp:
                return True, "attached"
        return False, "not attached after being filled on every path"

    # ---- O2
    loops = [l for l in find_loops(fn)]
    # bulk import: `auto extra = QJsonObject::fromVariantHash(lmsg.attributes());` followed by removals of the routed names
    bulk = []
    for dn in fn.find(lambda n: n.get("k") == "decl"):
        for v in dn.get("vars", []):
            i = skip_copies(v.get("init")) if isinstance(v.get("init"), dict) else None
            while isinstance(i, dict) and i.get("k") in ("cast", "construct") and (i.get("e") or (i.get("args") and len(i["args"]) == 1)):
                i = skip_copies(i.get("e") or i["args"][0])
            if is_call(i, ("QJsonObject::fromVariantHash", "QJsonObject::fromVariantMap")) and i.get("args"):
                src = skip_copies(deref_local(fn, i["args"][0]))
                if is_call(src, LM + "::attributes") and obj_is_param(src, fn, 0):
                    bulk.append((dn, v, i))
    iter_loops = [l for l in loops if l.get("k") == "for" and isinstance(l.get("init"), dict) and l["init"].get("k") == "decl"]
    bulk_mode = bool(bulk) and not iter_loops
    removed = {}
    if bulk_mode:
        ck.require(len(bulk) == 1, "format() imports the attributes %d times" % len(bulk))
        loop, bvar, bcall = bulk[0]
        extra_decl = bvar["decl"]
        itdecl = None
        key_of_it = val_of_it = lambda n: False
        ck.ob("C18-O2", sitestr(fn, bcall), True, "all custom attributes are imported at once (QJsonObject::fromVariantHash(lmsg.attributes()): every value through QJsonValue::fromVariant)", key="format|loop-shape")
        generic = [{"node": bcall, "obj": extra_decl, "key": None, "keynode": None, "value": None}]
        inloop = []
        gsites = {g.site_of(bcall)}
        condsite = None
        for n in fn.calls():
            if n.get("ck") == "member" and name_is(n.get("callee"), ("QJsonObject::remove", "QJsonObject::take")) and is_ref_to(skip_copies(n.get("obj")), extra_decl) and n.get("args"):
                a0 = skip_copies(n["args"][0])
                nm = const_str(a0)
                names = None
                encl = enclosing_loops(fn, n)
                if nm is not None:
                    names = {nm}
                elif a0.get("k") == "ref" and encl and encl[0].get("k") == "rangefor" and a0.get("decl") == encl[0]["var"]["decl"]:
                    rng = skip_copies(encl[0].get("range"))
                    if is_call(rng, ("qAsConst", "std::as_const")) and rng.get("args"):
                        rng = skip_copies(rng["args"][0])
                    tab = None
                    if rng.get("k") == "ref":
                        gv = F.globals.get(rng.get("decl"))
                        init = gv.get("init") if gv else None
                        if init is None:
                            _, lv_ = local_var(fn, rng.get("decl"))
                            init = lv_.get("init") if lv_ else None
                        vals = [const_str(e_) for e_ in walk(init)] if isinstance(init, dict) else []
                        tab = {v_ for v_ in vals if v_ is not None} or None
                    names = tab
                    if any(x.get("k") in ("break", "continue", "return") for x in walk(encl[0].get("body"))):
                        names = None
                if names is None:
                    ck.ob("C18-O2", sitestr(fn, n), None, "removal from extra with a key that is not a constant or an element of a constant table: %s" % describe(n)[:100])
                    continue
                site = g.site_of(encl[0]["desugar"]["cond"]) if encl and encl[0].get("k") == "rangefor" else g.site_of(n)
                always = g.must_pass({site}) and g.can_reach(list(gsites)[0], site)
                for nm_ in names:
                    removed[nm_] = removed.get(nm_, False) or always
    else:
        ck.require(len(loops) == 1 and loops[0].get("k") == "for", "format() no longer has exactly one iterator loop")
        loop = loops[0]
        itv = loop["init"]["vars"][0] if isinstance(loop.get("init"), dict) and loop["init"].get("k") == "decl" else None
        ck.require(itv is not None, "iterator loop not recognised")
        itdecl = itv["decl"]
        start = skip_copies(itv.get("init"))
        cont = skip_copies(start.get("obj")) if is_call(start, ("cbegin", "begin", "constBegin")) else None
        okc = False
        if isinstance(cont, dict) and cont.get("k") == "ref":
            _, cv = local_var(fn, cont["decl"])
            okc = cv is not None and is_call(cv.get("init"), LM + "::attributes") and obj_is_param(skip_copies(cv["init"]), fn, 0)
        cnd = skip_copies(loop.get("cond"))
        okshape = okc and isinstance(cnd, dict) and cnd.get("op") == "!=" and any(is_call(a, ("cend", "end", "constEnd")) for a in cnd.get("args", [])) and skip_copies(loop.get("inc")).get("op") == "++"
        ck.ob("C18-O2", sitestr(fn, loop), True if okshape else None, "the loop visits every custom attribute (lmsg.attributes(), begin..end)" if okshape else "attribute loop not recognised", key="format|loop-shape")
        key_of_it = lambda n: is_call(n, "key") and is_ref_to(skip_copies(n).get("obj"), itdecl)
        val_of_it = lambda n: is_call(n, "value") and is_ref_to(skip_copies(n).get("obj"), itdecl)
        inloop = [s for s in sets if any(a.get("id") == loop["id"] for a in fn.ancestors(s["node"]))]
        generic = [s for s in inloop if key_of_it(s["keynode"]) and is_call(s["value"], "QJsonValue::fromVariant") and val_of_it(skip_copies(s["value"])["args"][0])]
        if not generic:
            # QVariant::toJsonValue() / value<QJsonValue>() answer Undefined for every type that is not JSON-native (date-time, URL, UUID, byte array, char ...),
            # and storing Undefined through QJsonObject::operator[] / insert() removes the key: such an attribute appears nowhere in the event
            lossy = [s_ for s_ in inloop if key_of_it(s_["keynode"]) and is_call(s_["value"], ("QVariant::toJsonValue", "QVariant::toJsonObject", "QVariant::toJsonArray", "QVariant::value")) and
                     val_of_it(skip_copies(skip_copies(s_["value"]).get("obj")))]
            if lossy:
                ck.ob("C18-O2", sitestr(fn, lossy[0]["node"]), False, "custom attributes are converted with %s(): it answers Undefined for every value type that is not JSON-native (QDateTime, QUrl, QUuid, QByteArray, QChar, "
                      "QDate ...), and storing Undefined removes the key - such an attribute appears nowhere in the event (QJsonValue::fromVariant() stringifies them)" %
                      strip_tmpl(skip_copies(lossy[0]["value"]).get("callee") or "").split("::")[-1], key="format|attribute-conversion")
        ck.require(len(generic) >= 1, "the loop no longer inserts (it.key(), fromVariant(it.value()))")
        for s in inloop:
            if s not in generic:
                ck.ob("C18-O2", sitestr(fn, s["node"]), None, "unrecognised insertion in the attribute loop: %s" % describe(s["node"])[:100])
        extra_decl = generic[0]["obj"]
        gsites = set(g.sites_of_nodes([s["node"] for s in generic]))
        condsite = g.site_of(loop["cond"])
    # the formatter's own keys under extra must be written before the attributes are imported: a later write replaces a custom
    # attribute of the same name (its value is no longer intact)
    for s in sets:
        if s["obj"] == extra_decl and s["key"] is not None and s not in generic:
            ssite = g.site_of(s["node"])
            after = any(g.can_reach(gs, ssite) for gs in gsites)
            guard = lambda n, k_=s["key"]: is_call(n, ("QJsonObject::contains",)) and is_ref_to(skip_copies(skip_copies(n).get("obj")), extra_decl) and const_str(skip_copies(n)["args"][0]) == k_
            guarded = after and ssite not in g.live(g.projector(atom_eq(guard, True)))
            ck.ob("C18-O2", sitestr(fn, s["node"]), (not after) or guarded, "the formatter's own extra['%s'] is written before the custom attributes are copied (a custom attribute of that name keeps its value)" % s["key"] if not after else
                  "extra['%s'] is only written when no custom attribute of that name is present" % s["key"] if guarded else
                  "extra['%s'] is written after the custom attributes were copied in: a custom attribute named '%s' is replaced by the formatter's own value and is lost" % (s["key"], s["key"]),
                  key="format|own-key-after-import|%s" % s["key"])
    # names compared with it.key()
    cmps = {}
    for n in fn.calls():
        if n.get("op") in ("==", "!=") and len(n.get("args", [])) == 2:
            a, b = n["args"]
            for x, y in ((a, b), (b, a)):
                if key_of_it(x) and const_str(y) is not None:
                    cmps[n["id"]] = (const_str(y), n.get("op"))
    # membership tests of the key in a constant table (QSet/QStringList/array literal, std::any_of/find over it), possibly
    # inside a helper that was spliced in:  if (isDedicated(it.key())) continue;
    members = {}

    def const_table(x):
        x = skip_copies(x)
        if isinstance(x, dict) and x.get("k") == "call" and x.get("args") and strip_tmpl(x.get("callee") or "").split("::")[-1] in ("begin", "cbegin", "end", "cend") :
            x = skip_copies(x["args"][0]) if x.get("ck") != "member" else skip_copies(x.get("obj"))
        if not (isinstance(x, dict) and x.get("k") == "ref"):
            return None
        gv = F.globals.get(x.get("decl"))
        init = gv.get("init") if gv else None
        if init is None:
            _, lv_ = local_var(fn, x.get("decl"))
            init = lv_.get("init") if lv_ else None
        vals = [const_str(e) for e in walk(init)] if isinstance(init, dict) else []
        vals = [v for v in vals if v is not None]
        return set(vals) if vals else None

    def membership(n, depth=0):
        n = skip_copies(n)
        if not isinstance(n, dict) or depth > 3:
            return None
        if n.get("k") == "call" and n.get("inl_value") is not None and n["inl_value"] in fn.nodes:
            if not any(key_of_it(x) for a in n.get("args", []) for x in walk(a)):
                return None
            return membership(fn.nodes[n["inl_value"]], depth + 1)
        if n.get("k") == "call" and strip_tmpl(n.get("callee") or "") in ("std::any_of", "std::find", "std::find_if", "std::count", "std::binary_search") and n.get("args"):
            return const_table(n["args"][0])
        if n.get("k") == "call" and name_is(n.get("callee"), ("contains", "count")) and n.get("ck") == "member":
            return const_table(n.get("obj"))
        if n.get("k") == "binop" and n.get("op") in ("!=", "==") and any(strip_tmpl(skip_copies(x).get("callee") or "") in ("std::find", "std::find_if") for x in (n.get("lhs"), n.get("rhs")) if isinstance(x, dict)):
            for x in (n.get("lhs"), n.get("rhs")):
                if strip_tmpl(skip_copies(x).get("callee") or "") in ("std::find", "std::find_if"):
                    return const_table(skip_copies(x)["args"][0])
        return None
    for n in fn.calls():
        if any(a.get("id") == loop["id"] for a in fn.ancestors(n)) and n.get("id") not in cmps:
            ms_ = membership(n)
            if ms_ and not any(x.get("id") in members for x in fn.ancestors(n)):
                members[n["id"]] = ms_
    compared = sorted({v[0] for v in cmps.values()} | {x for v in members.values() for x in v} | set(removed))

    def goes_to_extra(name):
        if bulk_mode:
            if name in removed:
                return (False, True) if removed[name] else (True, True)
            return True, False

        def atom(n):
            if n.get("id") in cmps:
                s, op = cmps[n["id"]]
                eq = (s == name)
                return eq if op == "==" else (not eq)
            if n.get("id") in members:
                return name in members[n["id"]]
            return None
        keep0 = g.projector(atom)
        keep = lambda e: keep0(e) and not (e.src == condsite and e.idx == 1)
        r = g.reach([condsite], blocked=gsites, keep=keep, include_start=False)
        skipped_possible = condsite in r or g.exit in r
        reach_ins = bool(gsites & g.reach([condsite], keep=keep, include_start=False))
        return reach_ins, skipped_possible

    # dedicated slots: lmsg.attribute(<const>) feeding a json set
    slots = {}
    for s in sets:
        if s in inloop or s["value"] is None:
            continue
        for x in walk(s["value"]):
            if is_call(x, LM + "::attribute") and obj_is_param(skip_copies(x), fn, 0) and x.get("args") and const_str(x["args"][0]) is not None:
                slots.setdefault(const_str(x["args"][0]), []).append(s)
    # dedicated slots filled through a helper of the repository: helper(target, key, attrs, name) { target[key] = attrs.value(name)... }
    helper_slots = {}
    for c in fn.calls():
        hf = F.fns.get(c.get("fn"))
        if hf is None or hf.body is None or any(a.get("id") == loop["id"] for a in fn.ancestors(c)) or c.get("ck") == "member":
            continue
        cargs = c.get("args", [])
        if c.get("ck") == "operator" and c.get("op") == "()":
            cargs = cargs[1:]        # a local lambda: the first operand is the closure object
        for hs_ in json_sets(hf):
            # which parameter is the target object / the attribute name
            tpi = [i for i, p_ in enumerate(hf.params) if p_["decl"] == hs_["obj"]]
            if not tpi or hs_["value"] is None:
                continue
            npi = None
            for x in walk(hs_["value"]):
                if x.get("k") == "ref" and x.get("dk") == "local":
                    x = deref_local(hf, x)
                for y in walk(x):
                    if y.get("k") == "call" and name_is(y.get("callee"), ("value", "operator*")) and not y.get("args") and y.get("obj") is not None:
                        fy = skip_copies(deref_local(hf, y.get("obj")))     # it.value() with it = attrs.constFind(name)
                        if is_call(fy, ("find", "constFind")) and fy.get("args"):
                            a0 = skip_copies(fy["args"][0])
                            for i, p_ in enumerate(hf.params):
                                if a0.get("k") == "ref" and a0.get("decl") == p_["decl"]:
                                    npi = i
                    if y.get("k") == "call" and name_is(y.get("callee"), ("value", "attribute", "operator[]", "take")) and y.get("args"):
                        a0 = skip_copies(y["args"][-1] if name_is(y.get("callee"), "operator[]") else y["args"][0])
                        for i, p_ in enumerate(hf.params):
                            if a0.get("k") == "ref" and a0.get("decl") == p_["decl"]:
                                npi = i
            if npi is None or npi >= len(cargs) or tpi[0] >= len(cargs):
                continue
            nm = const_str(cargs[npi])
            tgt = skip_copies(cargs[tpi[0]])
            if nm is None or tgt.get("k") != "ref":
                continue
            ck.touch(hf)
            gh = Graph(hf)
            hsite = gh.site_of(hs_["node"])
            namep = hf.params[npi]["decl"]
            def present_test(n, namep=namep, hf=hf):
                if is_call(n, ("contains", "hasAttribute")) and skip_copies(n).get("args") and is_ref_to(skip_copies(n)["args"][0], namep):
                    return True
                # it != attrs.constEnd() with it = attrs.constFind(name)
                if isinstance(n, dict) and n.get("op") == "!=" and n.get("k") in ("call", "binop"):
                    ops = n.get("args") or [n.get("lhs"), n.get("rhs")]
                    ops = [skip_copies(deref_local(hf, o)) for o in ops if isinstance(o, dict)]
                    if any(is_call(o, ("constEnd", "end", "cend")) for o in ops) and any(is_call(o, ("find", "constFind")) and o.get("args") and is_ref_to(o["args"][0], namep) for o in ops):
                        return True
                return False
            written_when_present = gh.must_pass({hsite}, keep=gh.projector(atom_eq(present_test, True)))
            guards = [describe(i.get("cond"))[:60] for i in hf.find(lambda n: n.get("k") == "if")]
            helper_slots.setdefault(nm, []).append({"node": c, "obj": tgt.get("decl"), "key": const_str(cargs[[i for i, p_ in enumerate(hf.params) if "QString" in p_.get("type", "") and i not in (npi,)][0]]) if len(cargs) > 2 else None,
                                                   "helper": hf, "always": written_when_present, "guards": guards})
    slot_names = sorted(set(slots) | set(helper_slots))
    ins, skp = goes_to_extra("\0other")
    ck.ob("C18-O2", sitestr(fn, generic[0]["node"]), ins and not skp, "an attribute without a dedicated slot is always inserted under extra" if (ins and not skp) else
          "an ordinary attribute can be left out of extra", key="format|other-not-inserted")
    skip_names = []
    for name in sorted(set(compared) | set(slot_names)):
        ins, skp = goes_to_extra(name)
        if not ins:
            skip_names.append(name)
        elif skp:
            ck.ob("C18-O2", sitestr(fn, loop), None, "attribute '%s' is sometimes inserted and sometimes skipped; idiom not recognised" % name)
    only_skipped = sorted(set(skip_names) - set(slot_names))
    only_slotted = sorted(set(slot_names) - set(skip_names))
    ck.ob("C18-O2", sitestr(fn, loop), not only_skipped, "every name skipped under extra has a dedicated slot: %s" % skip_names if not only_skipped else
          "attributes skipped under extra but without any dedicated slot (they are lost): %s" % only_skipped, key="format|skipped-without-slot|%s" % ",".join(only_skipped))
    ck.ob("C18-O2", sitestr(fn, loop), not only_slotted, "every name with a dedicated slot is skipped under extra: %s" % slot_names if not only_slotted else
          "attributes with a dedicated slot that are also copied to extra (they appear twice): %s" % only_slotted, key="format|slot-and-extra|%s" % ",".join(only_slotted))
    ck.require(len(slot_names) >= 8, "fewer than 8 dedicated attribute slots found (%d)" % len(slot_names))
    for name in slot_names:
        has = lambda n, name=name: is_call(n, LM + "::hasAttribute") and obj_is_param(skip_copies(n), fn, 0) and const_str(skip_copies(n)["args"][0]) == name
        keep = g.projector(atom_eq(has, True))
        if name in helper_slots and name not in slots:
            hs = helper_slots[name]
            h0 = hs[0]
            called = g.must_pass({g.site_of(h0["node"])}, keep=keep)
            att, why = attached_ok(h0["obj"], h0["node"])
            allok = called and h0["always"] and len(hs) == 1 and att
            hname = h0["helper"].name.split("::")[-1]
            ck.ob("C18-O2", sitestr(fn, h0["node"]), allok, "'%s' -> slot '%s' through %s(), written whenever the attribute is present, attached to the event" % (name, h0["key"], hname) if allok else
                  "slot of '%s' (through %s): the slot is %s, while the name is always skipped under extra — such an attribute appears nowhere in the event; single-slot=%s, %s" %
                  (name, hname, "not written for every present attribute (guards in the helper: %s)" % h0["guards"] if not h0["always"] else "not filled on every path" if not called else "filled", len(hs) == 1, why),
                  key="format|slot|%s" % name)
            continue
        ss = slots[name]
        sites = set(g.sites_of_nodes([s["node"] for s in ss]))
        present = g.must_pass(sites, keep=keep)
        once = len(ss) == 1
        att, why = attached_ok(ss[0]["obj"], ss[0]["node"])
        allok = present and once and att
        ck.ob("C18-O2", sitestr(fn, ss[0]["node"]), allok, "'%s' -> slot '%s', set whenever the attribute is present, attached to the event" % (name, ss[0]["key"]) if allok else
              "slot of '%s': set-when-present=%s, single-slot=%s, %s" % (name, present, once, why), key="format|slot|%s" % name)
    att, why = attached_ok(extra_decl, generic[0]["node"])
    ck.ob("C18-O2", sitestr(fn, generic[0]["node"]), att, "'extra' is attached to the event after the loop" if att else "'extra': %s" % why, key="format|extra-attach")

    # ---- O3
    ev = {}
    for s in sets:
        if s["obj"] == event and s["key"] is not None:
            ev.setdefault(s["key"], []).append(s)

    def single(key, must=True):
        ss = ev.get(key, [])
        if len(ss) != 1:
            ck.ob("C18-O3", sitestr(fn), False if not ss else None, "event['%s'] is assigned %d times" % (key, len(ss)), key="format|field-missing|%s" % key)
            return None
        if must:
            okm = g.must_pass({g.site_of(ss[0]["node"])})
            if not okm:
                ck.ob("C18-O3", sitestr(fn, ss[0]["node"]), False, "event['%s'] is not set on every path" % key, key="format|field-conditional|%s" % key)
                return None
        return ss[0]

    s = single("event_id")
    if s:
        v = deref_local(fn, s["value"])
        names, root = call_chain(v)
        fresh = len(names) == 2 and name_is(names[0], "QUuid::toString") and name_is(names[1], "QUuid::createUuid")
        name_based = False
        if not fresh and len(names) >= 1 and name_is(names[0], "QUuid::toString"):
            # QUuid held in a local (possibly inside a helper that was spliced in): where does it come from?
            src_ = skip_copies(deref_local(fn, skip_copies(v).get("obj")))
            if is_call(src_, "QUuid::createUuid"):
                fresh = True
            elif isinstance(src_, dict) and src_.get("k") == "call" and strip_tmpl(src_.get("callee") or "").startswith("QUuid::createUuidV"):
                ck.ob("C18-O3", sitestr(fn, s["node"]), False, "event_id is a name-based UUID (%s) of data of the record: identical records share one id" % describe(src_)[:70], key="format|event-id")
                name_based = True
        form = fresh and skip_copies(v).get("args") and const_int(skip_copies(v)["args"][0]) == 3
        static = False
        sv = skip_copies(s["value"])
        if sv.get("k") == "ref":
            _, var = local_var(fn, sv["decl"])
            static = bool(var and var.get("static")) or sv.get("dk") in ("staticlocal", "global", "field")
        if sv.get("k") == "member":
            static = True
        ok = bool(form) and not static
        helper_verdict = None
        hv = skip_copies(v)
        if not fresh and not static and isinstance(hv, dict) and hv.get("k") == "call" and hv.get("fn") in F.fns:
            # the id comes from a helper of the repository: it must still be a fresh random UUID
            hf = F.fns[hv["fn"]]
            ck.touch(hf)
            reach = F.reachable_from([hf])
            called = set()
            for fid in reach:
                f2 = F.fns.get(fid)
                if f2 is not None:
                    called |= {strip_tmpl(c.get("callee") or "") for c in f2.calls()}
            rnd = "QUuid::createUuid" in called
            det = sorted(c for c in called if c in ("QUuid::createUuidV5", "QUuid::createUuidV3", "QCryptographicHash::hash", "qHash"))
            if not rnd:
                helper_verdict = (False, "event_id = %s, which never calls QUuid::createUuid()%s: the id is a function of the record, so identical records (same text, place and millisecond) share one id" %
                                  (describe(hv)[:60], " (uses %s)" % det if det else ""))
            else:
                hr = returns(hf)
                if len(hr) == 1:
                    hvv = deref_local(hf, hr[0].get("e"))
                    hn, _ = call_chain(hvv)
                    okh = len(hn) == 2 and name_is(hn[0], "QUuid::toString") and name_is(hn[1], "QUuid::createUuid") and skip_copies(hvv).get("args") and const_int(skip_copies(hvv)["args"][0]) == 3
                    helper_verdict = (True, "event_id = %s() = QUuid::createUuid().toString(QUuid::Id128)" % hf.name.split("::")[-1]) if okh else None
        if name_based:
            pass
        elif helper_verdict is not None:
            ck.ob("C18-O3", sitestr(fn, s["node"]), helper_verdict[0], helper_verdict[1], key="format|event-id")
        else:
            ck.ob("C18-O3", sitestr(fn, s["node"]), ok if (fresh or static) else None, "event_id = QUuid::createUuid().toString(QUuid::Id128), created inside format()" if ok else
                  "event_id = %s%s" % (describe(v), " (static: the same id for every event)" if static else ""), key="format|event-id")
    s = single("timestamp")
    if s:
        v = deref_local(fn, s["value"])
        names, root = call_chain(v)
        short = [strip_tmpl(x).split("::")[-1] for x in names]
        ok = short == ["toString", "toUTC", "time"] and isinstance(root, dict) and is_ref_to(root, fn.params[0]["decl"]) and const_int(skip_copies(v)["args"][0]) == 1
        known = set(short) <= {"toString", "toUTC", "time", "toLocalTime", "toTimeSpec", "currentDateTime", "currentDateTimeUtc"}
        ck.ob("C18-O3", sitestr(fn, s["node"]), True if ok else (False if known else None), "timestamp = lmsg.time().toUTC().toString(Qt::ISODate)" if ok else "timestamp = %s" % describe(v), key="format|timestamp")
    s = single("level")
    if s:
        v = deref_local(fn, s["value"])
        ok = is_call(v, "qtMsgTypeToSentryLevel") and is_call(deref_local(fn, v["args"][0]), LM + "::type") and obj_is_param(skip_copies(deref_local(fn, v["args"][0])), fn, 0)
        if not ok and by_cases is not None:
            ck.ob("C18-O3", sitestr(fn, s["node"]), True, "level = %s, tabulated for the five message types (C18-O1)" % describe(v)[:60], key="format|level")
        elif not ok and lv is not None:
            bc = level_values_by_cases(ck, F, fn, val)
            okc = bc is not None and bc[0] == WANT_LEVEL
            ck.ob("C18-O3", sitestr(fn, s["node"]), okc if bc is not None else None, "level = %s gives %s for the five message types" % (describe(v)[:60], bc[0] if bc else "?"), key="format|level")
        else:
            ck.ob("C18-O3", sitestr(fn, s["node"]), ok, "level = qtMsgTypeToSentryLevel(lmsg.type())" if ok else "level = %s" % describe(v), key="format|level")
    s = single("message")
    if s:
        v = skip_copies(s["value"])
        if v.get("k") == "ref":
            ms = [x for x in sets if x["obj"] == v["decl"] and x["key"] == "formatted"]
            mv_ = skip_copies(deref_local(fn, ms[0]["value"])) if len(ms) == 1 else None
            ok = len(ms) == 1 and is_call(mv_, LM + "::message") and obj_is_param(mv_, fn, 0) and g.must_pass({g.site_of(ms[0]["node"])}) \
                and not g.can_reach(g.site_of(s["node"]), g.site_of(ms[0]["node"]))
            ck.ob("C18-O3", sitestr(fn, s["node"]), ok, "message.formatted = lmsg.message(), attached afterwards" if ok else
                  "message.formatted is %s" % ([describe(x["value"]) for x in ms] or "not set"), key="format|message-formatted")
        else:
            ck.ob("C18-O3", sitestr(fn, s["node"]), None, "event['message'] is not a local object")
    # logger
    ss = ev.get("logger", [])
    catdecl = None
    if len(ss) == 1:
        v = skip_copies(ss[0]["value"])
        src = deref_local(fn, v)
        okv = is_call(src, "QString::fromLatin1") and is_call(src["args"][0], LM + "::category")
        ck.ob("C18-O3", sitestr(fn, ss[0]["node"]), okv, "logger = category" if okv else "logger = %s" % describe(src), key="format|logger-value")
        if v.get("k") == "ref":
            catdecl = v["decl"]
            isE = lambda n: is_call(n, "QString::isEmpty") and is_ref_to(skip_copies(n).get("obj"), catdecl)
            def isD(n):
                if n.get("k") == "call" and n.get("op") in ("==", "!=") and len(n.get("args", [])) == 2:
                    a, b = n["args"]
                    return (is_ref_to(a, catdecl) and const_str(b) == "default") or (is_ref_to(b, catdecl) and const_str(a) == "default")
                return False
            lsite = g.site_of(ss[0]["node"])
            res = {}
            for emp in (True, False):
                for dfl in (True, False):
                    def atom(n, emp=emp, dfl=dfl):
                        if isE(n):
                            return emp
                        if isD(n):
                            return dfl if n.get("op") == "==" else (not dfl)
                        return None
                    keep = g.projector(atom)
                    live = g.live(keep)
                    res[(emp, dfl)] = (lsite in live, g.must_pass({lsite}, keep=keep))
            ok = res[(False, False)] == (True, True) and not res[(True, False)][0] and not res[(False, True)][0] and not res[(True, True)][0]
            ck.ob("C18-O3", sitestr(fn, ss[0]["node"]), ok, "logger is emitted iff the category is non-empty and not 'default'" if ok else "logger guard: (empty, default) -> (reachable, always) = %s" % res, key="format|logger-guard")
    else:
        ck.ob("C18-O3", sitestr(fn), False if not ss else None, "event['logger'] assigned %d times" % len(ss), key="format|logger-missing")
    # fingerprint
    s = single("fingerprint")
    if s:
        v = skip_copies(s["value"])
        if v.get("k") == "ref":
            apps = [n for n in fn.calls() if n.get("ck") == "member" and name_is(n.get("callee"), ("QJsonArray::append", "QJsonArray::push_back")) and is_ref_to(n.get("obj"), v["decl"])]
            others = [n for n in fn.calls() if n.get("ck") == "member" and is_ref_to(n.get("obj"), v["decl"]) and n.get("constm") is False and n not in apps]
            order_ok = len(apps) == 3 and all(g.dominated(g.site_of(apps[i + 1]), {g.site_of(apps[i])}) for i in range(2)) and all(g.must_pass({g.site_of(a)}) for a in apps) \
                and not any(g.can_reach(g.site_of(s["node"]), g.site_of(a)) for a in apps) and not others
            ck.ob("C18-O3", sitestr(fn, s["node"]), order_ok, "fingerprint has exactly three entries appended in order before it is attached" if order_ok else
                  "fingerprint is built from %d appends (%d other mutations)" % (len(apps), len(others)), key="format|fingerprint-shape")
            if len(apps) == 3:
                a0 = skip_copies(deref_local(fn, json_value_inner(apps[0]["args"][0])))
                ok0 = is_call(a0, "qtMsgTypeToSentryLevel") and is_call(deref_local(fn, a0["args"][0]), LM + "::type")
                if not ok0:
                    # whatever its form: the first entry must be the published level for each of the five message types
                    bc = by_cases if by_cases is not None else level_values_by_cases(ck, F, fn, val)
                    if bc is not None and bc[1] is not None:
                        okc = bc[1] == bc[0] and bc[0] == WANT_LEVEL or (bc[1] == WANT_LEVEL)
                        diff = sorted(k for k in WANT_LEVEL if bc[1].get(k) != WANT_LEVEL[k])
                        ck.ob("C18-O3", sitestr(fn, apps[0]), okc, "fingerprint[0] is the level for all five message types" if okc else
                              "fingerprint[0] = %s: %s, but the level is %s" % (describe(a0)[:40], {k: bc[1].get(k) for k in diff}, {k: WANT_LEVEL[k] for k in diff}), key="format|fingerprint-0")
                    else:
                        ck.ob("C18-O3", sitestr(fn, apps[0]), None, "fingerprint[0] = %s could not be tabulated" % describe(a0)[:60], key="format|fingerprint-0")
                else:
                    ck.ob("C18-O3", sitestr(fn, apps[0]), ok0, "fingerprint[0] = level", key="format|fingerprint-0")
                a1 = json_value_inner(apps[1]["args"][0])
                ok1 = False
                if catdecl is not None:
                    isE = lambda n: is_call(n, "QString::isEmpty") and is_ref_to(skip_copies(n).get("obj"), catdecl)
                    ve = resolve_value(a1, atom_eq(isE, True), fn)
                    vn = resolve_value(a1, atom_eq(isE, False), fn)
                    ok1 = const_str(ve) == "default" and (is_ref_to(vn, catdecl) or (is_call(vn, "QString::fromLatin1") and is_call(vn["args"][0], LM + "::category")))
                ck.ob("C18-O3", sitestr(fn, apps[1]), ok1, "fingerprint[1] = category, or 'default' when empty" if ok1 else "fingerprint[1] = %s" % describe(a1), key="format|fingerprint-1")
                a2 = skip_copies(deref_local(fn, json_value_inner(apps[2]["args"][0])))
                a2o = skip_copies(deref_local(fn, a2.get("obj"))) if is_call(a2, "QString::left") else None
                ok2 = is_call(a2, "QString::left") and const_int(a2["args"][0]) == 100 and is_call(a2o, LM + "::message") and obj_is_param(a2o, fn, 0)
                cut = is_call(a2, ("QString::left", "QString::mid", "QString::right", "QString::chopped"))
                bytecut = [x for x in walk(a2) if x.get("k") == "call" and x.get("ck") == "member" and strip_tmpl(x.get("cls") or "") in ("QByteArray", "QByteArrayView", "std::string", "std::basic_string")
                           and (x.get("callee") or "").split("::")[-1] in ("left", "mid", "right", "chopped", "first", "sliced", "truncate", "substr", "resize", "chop")]
                ck.ob("C18-O3", sitestr(fn, apps[2]), True if ok2 else (False if cut or bytecut or is_call(a2, LM + "::message") else None), "fingerprint[2] = message().left(100)" if ok2 else
                      "fingerprint[2] = %s%s" % (describe(a2), ": the cut is made on the encoded bytes - 100 bytes are fewer than 100 characters for any non-ASCII text, and a sequence cut in the middle decodes to U+FFFD" if bytecut else ""),
                      key="format|fingerprint-2")
        else:
            ck.ob("C18-O3", sitestr(fn, s["node"]), None, "fingerprint is not a local array")


def level_values_by_cases(ck, F, fn, val):
    """({type name: event['level']}, {type name: fingerprint[0]} or None) evaluated from the source of format() for the five message
    types (engine/conc.py: locals are followed to their initialisers, helper functions are entered); None outside the fragment"""
    from engine.conc import Conc, Unknown
    sets = [x for x in json_sets(fn) if x["key"] == "level"]
    if len(sets) != 1:
        return None
    fps = [n for n in fn.calls() if n.get("ck") == "member" and name_is(n.get("callee"), "QJsonArray::append") and n.get("args")]
    fps = sorted(fps, key=lambda n: (n.get("l", 0), n.get("c", 0)))
    lev, fp0 = {}, {}
    try:
        for name in WANT_LEVEL:
            def leaf(n, env, name=name):
                if is_call(n, LM + "::type") and obj_is_param(skip_copies(n), fn, 0):
                    return val[name]
                return None
            c = Conc(F, leaf=leaf)
            lev[name] = c.eval(json_value_inner(sets[0]["value"]), {"__fn__": fn})
            if fps:
                try:
                    fp0[name] = Conc(F, leaf=leaf).eval(json_value_inner(fps[0]["args"][0]), {"__fn__": fn})
                except Unknown:
                    fp0 = None
                    fps = []
    except Unknown as e:
        ck.notes.append("level by cases: %s" % e)
        return None
    if not all(isinstance(v, str) for v in lev.values()):
        return None
    if fp0 is not None and not all(isinstance(v, str) for v in fp0.values()):
        fp0 = None
    return lev, (fp0 or None)


def persistent_event_object(ck, fn):
    """C18-O4: when the serialised object outlives the call (a data member reused from event to event) every key that some path of
    format() writes must be written or removed on *every* path — otherwise the value an earlier event left there is serialised again
    (a `logger` of the previous event in an event of category `default`).  Returns True when the event object is persistent."""
    F = ck.facts
    rs = returns(fn)
    if len(rs) != 1:
        return False
    e = skip_copies(rs[0].get("e"))
    docs = [x for x in walk(e) if x.get("k") == "construct" and x.get("class") == "QJsonDocument" and x.get("args")]
    if len(docs) != 1:
        return False
    o = skip_copies(deref_local(fn, docs[0]["args"][0]))
    if not (o.get("k") == "member" and skip_copies(o.get("base") or {}).get("k") == "this"):
        return False
    ck.rule("C18-O4", "an event object kept between calls carries nothing over: every key format() can write is written or removed on every path")
    fld = o.get("decl") or o.get("name")
    g = Graph(fn)
    is_obj = lambda x: isinstance(x, dict) and skip_copies(x).get("k") == "member" and (skip_copies(x).get("decl") or skip_copies(x).get("name")) == fld
    lams = {l.id: l for l in F.lambdas_of(fn)}
    # direct writes / removes in format() and, for local lambdas, (call site, key) pairs
    touch = {}    # key -> [site]
    cond_keys = set()

    def key_of(f_, kn, binds=None):
        kn = skip_copies(deref_local(f_, kn))
        c = const_str(kn)
        if c is None and binds and kn.get("k") == "ref" and kn.get("decl") in binds:
            return const_str(skip_copies(deref_local(fn, binds[kn["decl"]])))
        return c

    def ops_in(f_, binds=None):
        out = []
        for n in f_.all_nodes():
            if n.get("k") != "call":
                continue
            if n.get("op") == "=" and len(n.get("args", [])) == 2:
                l = skip_copies(n["args"][0])
                if l.get("k") == "call" and l.get("op") == "[]" and is_obj(l["args"][0]):
                    out.append((n, key_of(f_, l["args"][1], binds)))
            elif n.get("ck") == "member" and name_is(n.get("callee"), ("QJsonObject::insert", "QJsonObject::remove", "QJsonObject::take")) and is_obj(n.get("obj")) and n.get("args"):
                out.append((n, key_of(f_, n["args"][0], binds)))
        return out
    unknown_key = False
    for n, k in ops_in(fn):
        s_ = g.site_of(n)
        if k is None:
            unknown_key = True
        elif s_ is not None:
            touch.setdefault(k, []).append(s_)
    for call in fn.calls():
        if call.get("ck") == "operator" and call.get("op") == "()" and call.get("args"):
            f0 = skip_copies(call["args"][0])
            lam = None
            if f0.get("k") == "ref":
                ini = skip_copies(deref_local(fn, f0))
                if ini.get("k") == "lambda" and ini.get("fn") in F.fns:
                    lam = F.fns[ini["fn"]]
            if lam is None:
                continue
            binds = {p["decl"]: a for p, a in zip(lam.params, call["args"][1:])}
            gl = Graph(lam)
            inner = ops_in(lam, binds)
            by_key = {}
            for n, k in inner:
                by_key.setdefault(k, []).append(gl.site_of(n))
            for k, sites in by_key.items():
                if k is None:
                    unknown_key = True
                    continue
                # the lambda touches the key on every one of its paths?
                if gl.must_pass({s for s in sites if s is not None}):
                    s_ = g.site_of(call)
                    if s_ is not None:
                        touch.setdefault(k, []).append(s_)
                else:
                    cond_keys.add(k)
    bad = []
    for k, sites in sorted(touch.items()):
        if not g.must_pass(set(sites)):
            bad.append(k)
    bad += sorted(cond_keys - set(touch))
    ck.ob("C18-O4", sitestr(fn, rs[0]), False if bad else None if unknown_key else True,
          "the event object %s is kept between calls, and key%s %s %s neither written nor removed on some path of format(): an event taking that path is serialised with the value an earlier event left there" %
          (describe(o), "s" if len(bad) > 1 else "", ", ".join(repr(b) for b in bad), "are" if len(bad) > 1 else "is") if bad else
          "the event object %s is kept between calls; every key format() writes (%d) is written or removed on every path" % (describe(o), len(touch)), key="format|stale-key")
    return True
