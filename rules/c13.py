"""C13 — JSON output valid, complete, lossless; compact = one line (DESIGN.md section 3, C13)."""
from engine.util import *

LEVEL = "other"
MIN_OBLIGATIONS = 12
TECHNIQUE = "CFG must-insert rule on the attribute loop, literal key table of allAttributes() vs accessors, return-expression delegation to QJsonDocument, mode projected on m_compact; mode provenance from formatToJson's argument to m_compact (no shared instance fixed by the first caller); fresh-object rule (the serialised object starts empty in every call); setAttribute stores on every path (no skip decided by the converting QVariant equality); conversion helpers evaluated by cases over every numeric meta type (float and the narrow integers included); the LogMessage copy-constructor rule (every member from the source, C strings re-homed in owned buffers) is claimed for the fields a record behind the hand-off shows (shared with C03)"
LEVEL_TEXT = ("Decides completeness and delegation structurally for all messages: every entry of allAttributes() is inserted unconditionally under its own key through "
              "QJsonValue::fromVariant, allAttributes() binds each built-in key to the same-named accessor and overlays the custom attributes, and the result is exactly "
              "QJsonDocument(obj).toJson(Compact iff compact) decoded as UTF-8 with no further editing. JSON validity/escaping and round-trip of values are Qt's (trusted).")
LEVEL_NOTE = "trusts QJsonDocument/QJsonValue::fromVariant (validity, escaping of control characters so Compact has no line break, number handling)"
DESIGN_REF = "DESIGN.md section 3, C13"
EXPLANATION = ("Path rules on JsonFormatter::format (iterator loop begin->end; from the loop test every path inserts (it.key(), fromVariant(it.value())) into the object "
               "that is serialised), literal table of LogMessage::allAttributes vs accessors, serialisation mode under both values of m_compact.")
TRUSTED = ["QJsonDocument::toJson(Compact) emits no line break (control characters inside strings are escaped)", "QJsonValue::fromVariant is lossless for strings, bools, |n|<=2^53 numbers, lists, maps"]
ASSUMPTIONS = ["attribute names do not shadow built-in field names (as in the property)"]
NOT_DECIDED = ["JSON syntax validity and Unicode/number round-trip (QJsonDocument's job)"]
THOROUGH_CONFIGS = ("headeronly", "nothread")

JF = "QtLogger::JsonFormatter"
LM = "QtLogger::LogMessage"
BUILTIN = {"type": None, "line": "line", "file": "file", "function": "function", "category": "category", "message": "message", "time": "time", "threadId": "threadId"}


def variant_helper_by_cases(F, h):
    """a helper QJsonValue f(const QVariant &) evaluated (engine/conc.py) for the scalar attribute types and the boundary values of the statement
    (|n| <= 2^53, bool, text): each must come out as QJsonValue::fromVariant would make it - a number as a JSON number, not as text.
    (True/False/None, text)"""
    from engine.conc import Conc, Unknown
    # QMetaType ids (Qt 5 and 6 agree on these): the whole numeric range 32..40 is there because range tests over the ids (`type >= Long && type <= SChar`)
    # also contain Float
    MT = {"Bool": 1, "Int": 2, "UInt": 3, "LongLong": 4, "ULongLong": 5, "Double": 6, "QString": 10, "Long": 32, "Short": 33, "Char": 34, "ULong": 35, "UShort": 36, "UChar": 37, "Float": 38, "SChar": 40}
    if len(h.params) != 1 or "QVariant" not in (h.params[0].get("type") or ""):
        return None, "the attribute value is converted by %s, which is not a function of one QVariant" % strip_tmpl(h.name).split("::")[-1]
    pd = h.params[0]["decl"]
    B = 1 << 53
    cases = [("Int", v) for v in (-2147483648, -42, -1, 0, 1, 42, 2147483647)] + [("UInt", v) for v in (0, 1, 4294967295)] + \
            [("LongLong", v) for v in (-B, -42, -1, 0, 1, 42, B)] + [("ULongLong", v) for v in (0, 1, 42, B)] + [("Double", v) for v in (-1.5, 0.0, 2.5)] + \
            [("Bool", v) for v in (0, 1)] + [("QString", v) for v in ("", "text", "42", "2024-05-15T10:00:00")] + \
            [("Float", v) for v in (0.25, 36.5, -1.5, 3.0)] + [("Long", v) for v in (-42, 0, 42)] + [("ULong", 42), ("Short", -3), ("UShort", 9), ("Char", 65), ("UChar", 200), ("SChar", -5)]
    bad = []
    for tname, v in cases:
        var = ("variant", tname, v)

        def leaf(n, env, var=var, tname=tname, v=v):
            if not isinstance(n, dict):
                return None
            if n.get("k") == "ref" and n.get("decl") == pd:
                return var
            if n.get("k") == "call" and n.get("ck") == "member" and isinstance(n.get("obj"), dict) and strip_tmpl(n.get("cls") or "") == "QVariant":
                o = skip_copies(n["obj"])
                if not (o.get("k") == "ref" and o.get("decl") == pd):
                    return None
                short = strip_tmpl(n.get("callee") or "").split("::")[-1]
                num = tname != "QString"
                if short in ("userType", "type", "typeId"):
                    return MT[tname]
                if short in ("toULongLong", "toUInt") and num:
                    return int(v) % (1 << (64 if short == "toULongLong" else 32))
                if short in ("toLongLong", "toInt") and num:
                    bits = 64 if short == "toLongLong" else 32      # the conversion wraps: uint 4294967295 -> int -1
                    return ((int(v) + (1 << (bits - 1))) % (1 << bits)) - (1 << (bits - 1))
                if short in ("toDateTime", "toDate", "toTime"):
                    import re as _re
                    return ("qdt", v if (tname == "QString" and _re.match(r"^\d{4}-\d{2}-\d{2}", str(v))) else None)
                if short == "toDouble" and num:
                    return ("double", float(v))
                if short == "toString":
                    return str(v) if tname != "Bool" else ("true" if v else "false")
                if short == "toBool" and num:
                    return int(bool(v))
                if short in ("isNull",):
                    return 0
                if short == "isValid":
                    return 1
                raise Unknown("QVariant::%s" % short)
            if n.get("k") == "call" and n.get("ck") == "member" and isinstance(n.get("obj"), dict) and strip_tmpl(n.get("cls") or "") in ("QDateTime", "QDate", "QTime"):
                o_ = cc.eval(n["obj"], env)
                if isinstance(o_, tuple) and o_ and o_[0] == "qdt":
                    short = strip_tmpl(n.get("callee") or "").split("::")[-1]
                    if short == "isValid":
                        return int(o_[1] is not None)
                    if short == "isNull":
                        return int(o_[1] is None)
                    if o_[1] is not None and short in ("toOffsetFromUtc", "toUTC", "toLocalTime", "toTimeSpec", "toTimeZone"):
                        return o_
                    if short == "offsetFromUtc":
                        return 0
                    real_ = [a for a in n.get("args", []) if a.get("k") != "defaultarg"]
                    if o_[1] is not None and short == "toString" and len(real_) == 1 and const_int(real_[0]) == 9 and "." not in str(o_[1]):
                        # Qt::ISODateWithMs always writes the milliseconds: whatever the offset is, the text differs from one that has none
                        return str(o_[1])[:19] + ".000<utc offset>"
                    raise Unknown("what %s() makes of the date-like text %r" % (short, o_[1]))
            if is_call(n, "QJsonValue::fromVariant") and n.get("args"):
                a = cc.eval(n["args"][0], env)
                return ("json", "as-fromVariant", a)
            if n.get("k") == "construct" and (n.get("class") or "") == "QJsonValue" and len([a for a in n.get("args", []) if a.get("k") != "defaultarg"]) == 1:
                a = cc.eval([a for a in n["args"] if a.get("k") != "defaultarg"][0], env)
                if isinstance(a, tuple) and a and a[0] == "json":
                    return a
                return ("json", "text" if isinstance(a, str) else "number" if isinstance(a, (int, float)) or (isinstance(a, tuple) and a[0] == "double") else "?", a)
            return None
        cc = Conc(F, leaf=leaf, max_steps=5000)
        try:
            got = cc.call_fn(h, [var])
        except Unknown as e:
            return None, "the attribute value is converted by %s, which could not be evaluated by cases (%s)" % (strip_tmpl(h.name).split("::")[-1], e)
        if not (isinstance(got, tuple) and got and got[0] == "json"):
            return None, "%s: result %r not understood" % (strip_tmpl(h.name).split("::")[-1], got)
        kind = got[1]
        want = "text" if tname == "QString" else "number"
        same = kind == "as-fromVariant" and got[2] == var
        if not same and not (kind == want and tname != "Bool" and (got[2] == v or (not isinstance(v, str) and got[2] == ("double", float(v))))):
            bad.append("%s %r comes out as %s %r" % ({"LongLong": "qlonglong", "ULongLong": "qulonglong"}.get(tname, tname.lower()), v, kind, got[2] if kind != "as-fromVariant" else "another value"))
    nm = strip_tmpl(h.name).split("::")[-1]
    if bad:
        return False, "%s() does not convert every attribute value as QJsonValue::fromVariant does: %s - the value is not recovered from the record (a number within |n| <= 2^53 must stay a JSON number)" % (nm, "; ".join(bad[:3]))
    return True, "%s(it.value()) evaluated for %d scalar values (int / uint / qlonglong / qulonglong at 0, +-1, +-42, +-2^53, the 32-bit limits; double, bool, text): each is converted as QJsonValue::fromVariant converts it" % (nm, len(cases))



def mode_field(F):
    """(qualified name of the member that carries the serialisation mode, its value for compact = true, its value for compact = false): the member the
    JsonFormatter(bool) constructor initialises from its parameter - the flag itself, or the QJsonDocument::JsonFormat chosen from it (evaluated by cases)"""
    from engine.conc import Conc, Unknown
    for ct in F.fn_all(JF + "::JsonFormatter"):
        if ct.d.get("kind") == "ctor" and not ct.d.get("copyctor") and not ct.d.get("movector") and ct.params:
            pd = ct.params[0]["decl"]
            for i in ct.inits:
                if i.get("member") and isinstance(i.get("e"), dict) and any(x.get("k") == "ref" and x.get("decl") == pd for x in walk(i["e"])):
                    vals = []
                    for v in (1, 0):
                        try:
                            vals.append(Conc(F).eval(i["e"], {"__fn__": ct, pd: v}))
                        except Unknown:
                            vals.append(None)
                    return strip_tmpl(i["member"]), vals[0], vals[1], ct, i
    return None, None, None, None, None


def run(ck):
    F = ck.facts
    attribute_setter(ck)
    ck.rule("C13-O7", "the text the record's \"message\" member is made from is the text that was logged: LogMessage stores its message argument unchanged and message() returns it")
    from rules.oth import message_text_intact
    message_text_intact(ck, F, "C13-O7", "the \"message\" member of the JSON record is another text than the one that was logged, so the original text is not recovered")
    ck.rule("C13-O8", "a record formatted behind a copy of the message (asynchronous logger, queued signal) shows the same category / file / function / line / attributes: the LogMessage copy "
                      "constructor takes every member from the source and re-homes the three C strings in buffers the copy owns")
    from rules.c03 import copy_ctor
    copy_ctor(ck, "C13-O8")
    ck.rule("C13-O1", "format(): every entry of allAttributes() is inserted unconditionally as (it.key(), QJsonValue::fromVariant(it.value())) into the serialised object")
    ck.rule("C13-O2", "allAttributes(): exactly the built-in keys, each bound to its same-named accessor, then overlaid with the custom attributes, returned")
    ck.rule("C13-O3", "the result is QString::fromUtf8(QJsonDocument(obj).toJson(mode)) unedited; mode is Compact iff m_compact")
    fn = F.fn(JF + "::format")
    aa = F.fn(LM + "::allAttributes")
    ck.touch(fn, aa)
    g = Graph(fn)
    # --- O3 return expression
    rs = returns(fn)
    ck.require(rs, "JsonFormatter::format has no return")

    def delegation(r):
        """(tojson call, document construct) if `return QString::fromUtf8(QJsonDocument(obj).toJson(mode))`, else None"""
        e = skip_copies(r.get("e"))
        tj = skip_copies(e["args"][0]) if is_call(e, "QString::fromUtf8") and e.get("args") else None
        if tj is None or not is_call(tj, "QJsonDocument::toJson"):
            return None
        d = skip_copies(deref_local(fn, tj.get("obj")))
        while isinstance(d, dict) and d.get("k") == "cast":
            d = skip_copies(d.get("e"))
        if isinstance(d, dict) and d.get("k") == "construct" and d.get("class") == "QJsonDocument" and d.get("args"):
            o = skip_copies(deref_local(fn, d["args"][0]))
            if isinstance(o, dict) and (o.get("k") == "ref" or (o.get("k") == "member" and skip_copies(o.get("base") or {}).get("k") == "this")):
                d = dict(d, args=[o] + list(d["args"][1:]))   # the object local, possibly returned by a spliced helper
                return tj, d
        return None
    shaped = [(r, delegation(r)) for r in rs]
    bad = [r for r, d in shaped if d is None]
    for r in bad:
        e = skip_copies(r.get("e"))
        lw = lossy_wrappers(e)
        src = deref_local(fn, e)
        by_hand = bool(lw) or any(x.get("k") == "call" and (x.get("op") in ("+", "+=") or name_is(x.get("callee"), ("append", "prepend", "insert", "QString::number", "toUtf8"))) for x in walk(src)) \
            or any(x.get("k") == "ref" and x.get("dk") == "local" and any(write_kind(fn, y) or assignment_target(fn, y)[0] is not None for y in refs_to(fn, x.get("decl"))) for x in walk(e))
        ck.ob("C13-O3", sitestr(fn, r), False if by_hand else None, "format() returns %s%s: this path does not leave the serialisation (escaping of names and values) to QJsonDocument" %
              (describe(e)[:100], " (edited by %s)" % lw if lw else " (assembled by hand)" if by_hand else ""), key="JsonFormatter::format|return-shape")
    if bad:
        return
    ck.ob("C13-O3", sitestr(fn, rs[0]), True, "every return (%d) is QString::fromUtf8(QJsonDocument(obj).toJson(mode)) with no further editing" % len(rs))
    objs = {skip_copies(d[1]["args"][0])["decl"] for r, d in shaped}
    ck.require(len(objs) == 1, "the returns of JsonFormatter::format serialise different objects")
    objdecl = objs.pop()
    tojson = shaped[0][1][0]
    # the record holds the members of this message only: the serialised object starts empty in this call
    ck.rule("C13-O5", "the serialised object is built from nothing in each call: a local that starts empty (or a member emptied on every path before the first insertion); nothing of an earlier message survives in it")
    objnode = skip_copies(shaped[0][1][1]["args"][0])
    if objnode.get("k") == "ref" and objnode.get("dk") in ("local", None):
        dv = [v for n_ in fn.find(lambda n: n.get("k") == "decl") for v in n_.get("vars", []) if v.get("decl") == objdecl]
        if len(dv) == 1 and not dv[0].get("static"):
            i = skip_copies(dv[0].get("init")) if isinstance(dv[0].get("init"), dict) else None
            empty = i is None or (i.get("k") == "construct" and not [a for a in i.get("args", []) if a.get("k") != "defaultarg"]) or (i.get("k") == "initlist" and not i.get("els"))
            ck.ob("C13-O5", sitestr(fn), True if empty else None, "the object is a local of format() that starts empty" if empty else "the object local starts as %s" % describe(i)[:60], key="JsonFormatter::format|fresh-object")
        else:
            ck.ob("C13-O5", sitestr(fn), False if (dv and dv[0].get("static")) else None, "the serialised object is a static local: members inserted for earlier messages stay in it" if dv else "declaration of the serialised object not found",
                  key="JsonFormatter::format|fresh-object")
    else:
        # a data member / global: every path to the first insertion must empty it
        resets = []
        for n_ in fn.calls():
            if n_.get("op") == "=" and len(n_.get("args", [])) == 2 and skip_copies(n_["args"][0]).get("decl") == objdecl:
                r_ = skip_copies(n_["args"][1])
                if (r_.get("k") == "construct" and not [a for a in r_.get("args", []) if a.get("k") != "defaultarg"]) or (r_.get("k") == "initlist" and not r_.get("els")):
                    resets.append(n_)
        ins_ = [s_["node"] for s_ in json_sets(fn) if s_["obj"] == objdecl]
        rs_sites = set(g.sites_of_nodes(resets))
        okf = bool(resets) and bool(ins_) and all(g.must_pass(rs_sites, to=g.site_of(x_)) for x_ in ins_)
        ck.ob("C13-O5", sitestr(fn, ins_[0] if ins_ else None), okf, "the member object is emptied on every path before anything is inserted" if okf else
              "the serialised object %s outlives the call and is not emptied on every path: members of an earlier message (an attribute this message does not have) stay in the record" % describe(objnode),
              key="JsonFormatter::format|fresh-object")
    MF_, vT_, vF_, _, _ = mode_field(F)
    MF_ = MF_ or (JF + "::m_compact")
    enum_mode = (vT_, vF_) == (1, 0) and not any("bool" in (f_.get("type") or "") for f_ in F.record(JF)["fields"] if JF + "::" + f_["name"] == MF_)
    isc = lambda n: is_this_field(n, MF_) and not enum_mode
    for val, want, wname in ((True, 1, "Compact"), (False, 0, "Indented")):
        if enum_mode:
            # the member IS the mode (QJsonDocument::JsonFormat chosen in the constructor): every return hands it to toJson() as it is
            for r, (tj, d) in shaped:
                mode = tj["args"][0] if tj.get("args") else None
                okm_ = isinstance(mode, dict) and is_this_field(skip_copies(deref_local(fn, mode)), MF_)
                got_ = (vT_ if val else vF_) if okm_ else None
                ck.ob("C13-O3", sitestr(fn, tj), (got_ == want) if got_ is not None else None, "compact=%s -> QJsonDocument::%s (the constructor stores the format itself)" % (val, wname) if got_ == want else
                      "compact=%s -> mode %s" % (val, describe(mode)), key="JsonFormatter::format|mode-%s" % val)
            continue
        keepv = g.projector(atom_eq(isc, val))
        livev = g.live(keepv)
        for r, (tj, d) in shaped:
            if g.site_of(r) not in livev:
                continue
            mode = tj["args"][0] if tj.get("args") else None
            leafm = resolve_value(mode, atom_eq(isc, val), fn)
            if isinstance(leafm, dict) and skip_copies(leafm).get("k") == "cond":
                cv_ = eval_cond(skip_copies(leafm).get("cond"), atom_eq(isc, val), fn)
                if cv_ is not None:
                    leafm = resolve_value(skip_copies(leafm).get("t") if cv_ else skip_copies(leafm).get("f"), atom_eq(isc, val), fn)
            got = const_int(leafm)
            if leafm is not None and skip_copies(leafm).get("k") == "cond":
                got = None
            ck.ob("C13-O3", sitestr(fn, tj), (got == want) if got is not None else None, "compact=%s -> QJsonDocument::%s" % (val, wname) if got == want else
                  "compact=%s -> mode %s" % (val, describe(leafm)), key="JsonFormatter::format|mode-%s" % val)
    for ct in F.fn_all(JF + "::JsonFormatter"):
        if ct.d.get("kind") == "ctor" and not ct.d.get("copyctor") and not ct.d.get("movector") and ct.params:
            i = [x for x in ct.inits if strip_tmpl(x.get("member") or "") == MF_]
            ok = bool(i) and (is_ref_to(i[0]["e"], ct.params[0]["decl"]) or (vT_, vF_) == (1, 0))
            ck.ob("C13-O3", sitestr(ct), ok, "%s(compact%s)" % (MF_.split("::")[-1], "" if not enum_mode else " ? Compact : Indented"), key="JsonFormatter|ctor")
    # --- O1 loop
    loops = find_loops(fn)
    ck.require(len(loops) == 1, "JsonFormatter::format has %d loops" % len(loops))
    loop = loops[0]
    sets = [s for s in json_sets(fn) if s["obj"] == objdecl]
    if loop.get("k") == "for":
        itv = None
        init = loop.get("init")
        if isinstance(init, dict) and init.get("k") == "decl" and len(init.get("vars", [])) == 1:
            itv = init["vars"][0]
        ck.require(itv is not None, "iterator loop not recognised")
        start = skip_copies(itv.get("init"))
        okb = is_call(start, ("cbegin", "begin", "constBegin"))
        cont = skip_copies(start.get("obj")) if okb else None
        cond = skip_copies(loop.get("cond"))
        oke = isinstance(cond, dict) and cond.get("op") == "!=" and any(is_call(deref_local(fn, a), ("cend", "end", "constEnd")) for a in (cond.get("args") or [cond.get("lhs"), cond.get("rhs")]) if isinstance(a, dict))
        inc = skip_copies(loop.get("inc"))
        oki = isinstance(inc, dict) and inc.get("op") == "++"
        ck.ob("C13-O1", sitestr(fn, loop), True if (okb and oke and oki) else None, "the loop runs an iterator from begin to end with ++" if (okb and oke and oki) else "iterator loop shape not recognised", key="JsonFormatter::format|loop-shape")
        itdecl = itv["decl"]
        condsite = g.site_of(loop["cond"])
        key_ok = lambda n: is_call(n, "key") and is_ref_to(skip_copies(n).get("obj"), itdecl)
        val_ok = lambda n: is_call(n, "value") and is_ref_to(skip_copies(n).get("obj"), itdecl)
    elif loop.get("k") == "while":
        # auto it = c.cbegin(); [const auto end = c.cend();] while (it != end) { ...; ++it; }
        cond = skip_copies(loop.get("cond"))
        ops = (cond.get("args") or [cond.get("lhs"), cond.get("rhs")]) if isinstance(cond, dict) and cond.get("op") == "!=" else []
        itr = [skip_copies(o) for o in ops if isinstance(o, dict) and skip_copies(o).get("k") == "ref" and not is_call(deref_local(fn, o), ("cend", "end", "constEnd"))]
        oke = any(is_call(deref_local(fn, o), ("cend", "end", "constEnd")) for o in ops if isinstance(o, dict))
        itv = local_var(fn, itr[0]["decl"])[1] if len(itr) == 1 else None
        ck.require(itv is not None, "iterator loop not recognised")
        start = skip_copies(itv.get("init"))
        okb = is_call(start, ("cbegin", "begin", "constBegin"))
        cont = skip_copies(start.get("obj")) if okb else None
        itdecl = itv["decl"]
        steps = [n for n in walk(loop.get("body")) if (n.get("k") == "unop" and n.get("op") == "++" and is_ref_to(n.get("e"), itdecl)) or (n.get("k") == "call" and n.get("op") == "++" and n.get("args") and is_ref_to(n["args"][0], itdecl))]
        condsite = g.site_of(loop["cond"])
        oki = len(steps) == 1 and g.postdominated(condsite, {g.site_of(steps[0])}, keep=lambda e_: not (e_.src == condsite and e_.idx == 1)) and not any(x.get("k") in ("continue", "break", "return") for x in walk(loop.get("body")))
        ck.ob("C13-O1", sitestr(fn, loop), True if (okb and oke and oki) else None, "the loop runs an iterator from begin to end, stepping once per iteration" if (okb and oke and oki) else "iterator loop shape not recognised", key="JsonFormatter::format|loop-shape")
        key_ok = lambda n: is_call(n, "key") and is_ref_to(skip_copies(n).get("obj"), itdecl)
        val_ok = lambda n: is_call(n, "value") and is_ref_to(skip_copies(n).get("obj"), itdecl)
    elif loop.get("k") == "rangefor":
        ck.ob("C13-O1", sitestr(fn, loop), None, "range-for idiom over the attribute hash is not recognised yet")
        return
    else:
        ck.ob("C13-O1", sitestr(fn, loop), None, "loop form not recognised")
        return
    # container = local initialised from lmsg.allAttributes()
    okc = False
    if isinstance(cont, dict) and cont.get("k") == "ref":
        _, cv = local_var(fn, cont["decl"])
        okc = cv is not None and is_call(cv.get("init"), LM + "::allAttributes") and obj_is_param(skip_copies(cv["init"]), fn, 0)
    ck.ob("C13-O1", sitestr(fn, loop), okc, "the loop iterates lmsg.allAttributes()" if okc else "the loop iterates %s" % describe(cont), key="JsonFormatter::format|loop-source")
    insets = [s for s in sets if any(a.get("id") == loop["id"] for a in fn.ancestors(s["node"]))]
    good = [s for s in insets if key_ok(s["keynode"]) and is_call(s["value"], "QJsonValue::fromVariant") and val_ok(skip_copies(s["value"])["args"][0])]
    if not good:
        # the conversion goes through a helper of the library: toJsonValue(it.value()).  Decide it by cases over the scalar types the statement names
        via = [s for s in insets if key_ok(s["keynode"]) and isinstance(skip_copies(s["value"]), dict) and skip_copies(s["value"]).get("k") == "call" and
               F.fns.get(skip_copies(s["value"]).get("fn")) is not None and F.fns[skip_copies(s["value"])["fn"]].body is not None and
               any(val_ok(skip_copies(a_)) for a_ in skip_copies(s["value"]).get("args", []))]
        if via:
            verdict, why = variant_helper_by_cases(F, F.fns[skip_copies(via[0]["value"])["fn"]])
            ck.touch(F.fns[skip_copies(via[0]["value"])["fn"]])
            ck.ob("C13-O1", sitestr(fn, via[0]["node"]), verdict, why, key="JsonFormatter::format|value-conversion")
            if verdict is not False:
                good = via
    if not good:
        ck.ob("C13-O1", sitestr(fn, loop), False, "no insertion of (it.key(), fromVariant(it.value())) in the loop: %s" % [describe(s["node"])[:80] for s in insets], key="JsonFormatter::format|no-insert")
    else:
        sites = set(g.sites_of_nodes([s["node"] for s in good]))
        body_first = g.site_of(loop["body"]["body"][0]) if loop.get("body", {}).get("k") == "compound" and loop["body"].get("body") else None
        # from the loop test (true edge) every path back to the test passes the insertion
        keep_in = lambda e: not (e.src == condsite and e.idx == 1)
        r = g.reach([condsite], blocked=sites, keep=keep_in, include_start=False)
        uncond = condsite not in r and g.exit not in r
        ck.ob("C13-O1", sitestr(fn, good[0]["node"]), uncond, "every entry is inserted on every path through the loop body (no filter, no continue)" if uncond else
              "an entry can be skipped: a path through the loop body avoids the insertion", key="JsonFormatter::format|conditional-insert")
        for s in insets:
            if s not in good:
                ck.ob("C13-O1", sitestr(fn, s["node"]), False, "the loop also inserts %s" % describe(s["node"])[:100], key="JsonFormatter::format|other-insert")
    # nothing removed from the object afterwards
    for n in fn.calls():
        if n.get("ck") == "member" and is_ref_to(n.get("obj"), objdecl) and name_is(n.get("callee"), ("remove", "take", "erase")):
            ck.ob("C13-O1", sitestr(fn, n), False, "an entry is removed from the object: %s" % describe(n), key="JsonFormatter::format|remove")
    all_attributes(ck, aa)


def all_attributes(ck, aa):
    F = ck.facts
    g = Graph(aa)
    decls = aa.find(lambda n: n.get("k") == "decl")
    ck.require(decls, "allAttributes has no local")
    var = decls[0]["vars"][0]
    pairs = initlist_pairs(var.get("init"))
    want = dict(BUILTIN)
    if ck.config == "nothread":
        want.pop("threadId")
    got = {}
    for k, v in pairs:
        got[const_str(k)] = v
    ok = set(got) == set(want)
    ck.ob("C13-O2", sitestr(aa, decls[0]), ok, "built-in keys are exactly %s" % sorted(got) if ok else "built-in keys %s differ from %s" % (sorted(k or "?" for k in got), sorted(want)),
          key="LogMessage::allAttributes|keys")
    for k, acc in sorted(want.items()):
        if k not in got:
            continue
        v = json_value_inner(got[k])
        while isinstance(v, dict) and v.get("k") == "construct" and v.get("class") == "QVariant" and len(v.get("args", [])) == 1:
            v = skip_copies(v["args"][0])
        if k == "type":
            ok = is_call(v, "QtLogger::qtMsgTypeToString") and is_call(v["args"][0], LM + "::type") and skip_copies(skip_copies(v["args"][0]).get("obj")).get("k") == "this"
        else:
            ok = is_call(v, LM + "::" + acc) and skip_copies(v.get("obj")).get("k") == "this"
        ck.ob("C13-O2", sitestr(aa, got[k]), ok, "'%s' <- %s" % (k, describe(v)) if ok else "'%s' is bound to %s" % (k, describe(v)), key="LogMessage::allAttributes|binding-%s" % k)
    vdecl = var["decl"]
    merges = [n for n in aa.calls() if n.get("ck") == "member" and name_is(n.get("callee"), ("insert", "unite")) and is_ref_to(n.get("obj"), vdecl) and n.get("args") and is_this_field(n["args"][0], LM + "::m_attributes")]
    ok = len(merges) == 1 and g.must_pass(set(g.sites_of_nodes(merges)))
    ck.ob("C13-O2", sitestr(aa), ok, "custom attributes are merged on every path" if ok else "custom attributes are not merged on every path", key="LogMessage::allAttributes|merge")
    rs = returns(aa)
    ok = bool(rs) and all(is_ref_to(r.get("e"), vdecl) for r in rs)
    ck.ob("C13-O2", sitestr(aa), ok, "the merged table is returned", key="LogMessage::allAttributes|return")
    for n in aa.calls():
        if n.get("ck") == "member" and is_ref_to(n.get("obj"), vdecl) and name_is(n.get("callee"), ("remove", "take", "erase", "clear")):
            ck.ob("C13-O2", sitestr(aa, n), False, "an entry is removed: %s" % describe(n), key="LogMessage::allAttributes|remove")
    # the type-name table is total and injective over the five message types
    ts = F.fn("QtLogger::qtMsgTypeToString")
    ck.touch(ts)
    d = (ts.find(lambda n: n.get("k") == "decl") or [None])[0]
    tab = {const_int(k): const_str(v) for k, v in initlist_pairs(d["vars"][0].get("init"))} if d else {}
    wanttab = {0: "debug", 4: "info", 1: "warning", 2: "critical", 3: "fatal"}
    if not tab:
        # no constant table (a switch, an if-chain): the function is evaluated for the five types instead
        from rules.oth import msgtype_tables_by_cases
        tab = msgtype_tables_by_cases(F)[0]
        if tab is None:
            ck.ob("C13-O2", sitestr(ts), None, "qtMsgTypeToString is neither a constant table nor evaluable by cases", key="qtMsgTypeToString|table")
            tab = wanttab
    ck.ob("C13-O2", sitestr(ts), tab == wanttab, "type names: %s" % tab if tab == wanttab else "type-name table %s differs from debug/info/warning/critical/fatal" % tab, key="qtMsgTypeToString|table")
    # accessors return their field
    for acc, fld in (("message", "m_message"), ("time", "m_time")):
        f = F.fn(LM + "::" + acc)
        rs = returns(f)
        ok = len(rs) == 1 and is_this_field(rs[0].get("e"), LM + "::" + fld)
        ck.ob("C13-O2", sitestr(f), ok, "%s() returns %s" % (acc, fld) if ok else "%s() returns %s" % (acc, describe(rs[0].get("e")) if rs else "?"), key="LogMessage::%s|return" % acc)
    for acc in ("line", "file", "function", "category"):
        f = F.fn(LM + "::" + acc)
        rs = returns(f)
        e = skip_copies(rs[0].get("e")) if len(rs) == 1 else None
        ok = e is not None and e.get("k") == "member" and e.get("name") == "QMessageLogContext::" + acc and is_this_field(e.get("base"), LM + "::m_context")
        ck.ob("C13-O2", sitestr(f), ok, "%s() returns m_context.%s" % (acc, acc) if ok else "%s() returns %s" % (acc, describe(e)), key="LogMessage::%s|return" % acc)
    mode_reaches_formatter(ck)


def mode_reaches_formatter(ck):
    """compact = one line only if the mode the caller asks for is the mode of the formatter that ends up in the pipeline"""
    F = ck.facts
    ck.rule("C13-O4", "the requested mode reaches the formatter: JsonFormatter(compact) stores its argument in m_compact, which nothing else writes; "
                      "SimplePipeline::formatToJson(compact) appends a formatter constructed from its own argument (not a shared instance whose mode was fixed by the first caller)")
    MC, vT_, vF_, _, _ = mode_field(F)
    MC = MC or (JF + "::m_compact")
    ctors = [f for f in F.fn_all(JF + "::JsonFormatter") if f.d.get("kind") == "ctor" and not f.d.get("copyctor") and not f.d.get("movector") and f.params]
    ck.require(len(ctors) == 1, "JsonFormatter(bool) constructor not found")
    ct = ctors[0]
    ck.touch(ct)
    ws = field_writes(F, MC)
    init = [w for w in ws if w[0].id == ct.id and w[2] == "ctor-init"]
    other = [w for w in ws if w not in init]
    mshort = MC.split("::")[-1]
    oki = len(init) == 1 and (vT_, vF_) == (1, 0)
    ck.ob("C13-O4", sitestr(ct), oki, "%s is initialised from the constructor argument (true -> compact, false -> indented)" % mshort if oki else "%s is not initialised from the constructor argument" % mshort, key="JsonFormatter|mode-init")
    for wf, wn, how in other:
        ck.ob("C13-O4", sitestr(wf, wn), False, "%s is also written in %s (%s)" % (mshort, wf.name.split("::")[-1], how), key="JsonFormatter::m_compact|writer|%s" % wf.name.split("::")[-1])
    ft = F.fn("QtLogger::SimplePipeline::formatToJson")
    ck.touch(ft)
    pdecl = ft.params[0]["decl"]
    apps = [n for n in ft.calls() if name_is(n.get("callee"), ("append", "appendFormatter", "setFormatter", "operator<<")) and n.get("args")]
    ck.require(len(apps) == 1, "formatToJson adds %d handlers" % len(apps))
    a = skip_copies(deref_local(ft, apps[0]["args"][-1]))
    while isinstance(a, dict) and a.get("k") in ("cast", "construct") and (a.get("e") or (a.get("args") and len(a["args"]) == 1)) and not name_is(strip_tmpl(a.get("callee") or ""), "QSharedPointer::create"):
        a = skip_copies(a.get("e") or a["args"][0])
    if is_call(a, ("QSharedPointer::create", "std::make_shared", "QSharedPointer<QtLogger::JsonFormatter>::create")) or (a.get("k") == "call" and name_is(strip_tmpl(a.get("callee") or ""), "QSharedPointer::create")):
        def through_forward(x):
            x = skip_copies(deref_local(ft, skip_copies(x)))
            while isinstance(x, dict) and x.get("k") == "call" and name_is(strip_tmpl(x.get("callee") or ""), ("std::forward", "std::move", "forward", "move")) and len(x.get("args", [])) == 1:
                x = skip_copies(deref_local(ft, skip_copies(x["args"][0])))
            return x
        ok = bool(a.get("args")) and is_ref_to(through_forward(a["args"][0]), pdecl)
        ck.ob("C13-O4", sitestr(ft, a), ok, "formatToJson(compact) appends a new JsonFormatter(compact)" if ok else "formatToJson creates the formatter with %s" % [describe(x) for x in a.get("args", [])], key="formatToJson|mode-arg")
    elif a.get("k") == "new" or (a.get("k") == "construct" and "JsonFormatter" in (a.get("class") or "")):
        args = a.get("args", [])
        ok = bool(args) and any(is_ref_to(deref_local(ft, x), pdecl) for x in walk(args[0]))
        ck.ob("C13-O4", sitestr(ft, a), ok, "formatToJson(compact) appends a new JsonFormatter(compact)" if ok else "formatToJson creates the formatter without its argument", key="formatToJson|mode-arg")
    elif a.get("k") == "call" and F.fns.get(a.get("fn")) is not None and F.fns[a["fn"]].body is not None:
        cal = F.fns[a["fn"]]
        ck.touch(cal)
        pd = {p_["decl"] for p_ in cal.params}
        shared = []
        for d in cal.find(lambda n: n.get("k") == "decl"):
            for v in d.get("vars", []):
                if v.get("static") and isinstance(v.get("init"), dict) and any(x.get("k") == "ref" and x.get("decl") in pd for x in walk(v["init"])):
                    shared.append((d, v))
        if shared:
            ck.ob("C13-O4", sitestr(cal, shared[0][0]), False, "%s() keeps one shared formatter in a function-local static initialised from its parameter: the first caller's mode wins, "
                  "a later formatToJson(true) gets the indented instance (records span several lines)" % cal.name.split("::")[-1], key="formatToJson|shared-instance")
        else:
            ck.ob("C13-O4", sitestr(ft, a), None, "formatToJson obtains the formatter from %s(); idiom not recognised" % cal.name.split("::")[-1])
    else:
        ck.ob("C13-O4", sitestr(ft, apps[0]), None, "formatToJson appends %s; idiom not recognised" % describe(a)[:80])


def attribute_setter(ck, rid="C13-O6"):
    """attribute values are recovered exactly: LogMessage::setAttribute(name, value) stores exactly (name, value) on every path.  A skip
    'when the value is unchanged' decided with QVariant::operator== drops writes: in Qt 5 that comparison converts (1 == true,
    "404" == 404, ["1","2"] == [1,2]), so a value of another type that compares equal is never stored."""
    F = ck.facts
    ck.rule(rid, "LogMessage::setAttribute inserts (name, value) into m_attributes on every path; no 'unchanged' short cut decided by the converting QVariant equality")
    fn = F.fn(LM + "::setAttribute")
    ck.touch(fn)
    g = Graph(fn)
    ins = [n for n in fn.calls() if n.get("ck") == "member" and name_is(n.get("callee"), ("insert", "operator[]")) and is_this_field(n.get("obj"), LM + "::m_attributes")]
    ins += [n for n in fn.calls() if n.get("op") == "=" and n.get("args") and any(is_this_field(x, LM + "::m_attributes") for x in walk(n["args"][0]))]
    okargs = bool(ins) and all(any(is_ref_to(skip_copies(x), fn.params[1]["decl"]) for a in n.get("args", []) for x in walk(a)) for n in ins)
    always = bool(ins) and g.must_pass(set(g.sites_of_nodes(ins)))
    if always and okargs:
        ck.ob(rid, sitestr(fn), True, "setAttribute() stores (name, value) on every path", key="LogMessage::setAttribute|effect")
        return
    # why is it skipped?
    eqs = [n for n in fn.all_nodes() if n.get("k") == "call" and n.get("ck") == "operator" and n.get("op") in ("==", "!=") and any("QVariant" in (a.get("type") or "") for a in n.get("args", []))]
    eqs += [n for n in fn.all_nodes() if n.get("k") == "binop" and n.get("op") in ("==", "!=") and any("QVariant" in ((x or {}).get("type") or "") for x in (n.get("lhs"), n.get("rhs")))]
    ck.ob(rid, sitestr(fn, eqs[0] if eqs else (ins[0] if ins else None)), False if (eqs or not ins or not okargs) else None,
          "setAttribute() skips the write when the stored value compares equal (%s): QVariant's == converts between types, so overwriting 1 with true, '404' with 404 or ['1','2'] with [1,2] is "
          "silently dropped and the record shows the old value and type" % describe(eqs[0])[:40] if eqs else
          "setAttribute() does not store (name, value) on every path" if ins and okargs else "setAttribute() no longer stores its value argument", key="LogMessage::setAttribute|effect")
