"""Worker-side rules of OwnThreadHandler shared by C03 (hand-off) and C04 (stop): what Worker::customEvent does around the
handler run matters to both — the pending counter must cover the message that is being delivered, and the worker must not
hold the hand-off mutex while the sinks run."""
from engine.util import *
from engine.locks import LockFlow

OT = "QtLogger::OwnThreadHandler"
DEC = ("fetchAndSubOrdered", "fetchAndSubRelaxed", "fetchAndSubRelease", "fetchAndSubAcquire", "deref", "operator--")


def custom_event(F, cls):
    ce = [f for f in F.fns.values() if f.cls and f.cls.startswith(cls + "::Worker") and f.name.endswith("::customEvent")]
    return F.flat(ce[0]) if len(ce) == 1 else None


def pending_covers_inflight(ck, cls, tag, rule):
    """the decrement of m_pendingCount comes after the handler run on every path (never before it): while a message is
    being delivered the stop must still see it as pending"""
    F = ck.facts
    ce = custom_event(F, cls)
    ck.require(ce is not None, "%s: Worker::customEvent not found" % tag)
    ck.touch(ce)
    g = Graph(ce)
    run = [n for n in ce.calls() if n.get("qualified") and name_is(n.get("callee"), "process")]
    dec = [n for n in ce.calls() if n.get("ck") == "member" and name_is(n.get("callee"), DEC) and is_field(n.get("obj"), OT + "::m_pendingCount")]
    dec += ce.find(lambda n: n.get("k") == "unop" and n.get("op") == "--" and is_field(n.get("e"), OT + "::m_pendingCount"))
    if not run or not dec:
        ck.ob(rule, sitestr(ce), False if run else None, "%s: customEvent has %d handler runs and %d decrements of the pending count" % (tag, len(run), len(dec)), key="Worker::customEvent|pending-protocol")
        return
    rsites = set(g.sites_of_nodes(run))
    for d in dec:
        ds = g.site_of(d)
        after = g.dominated(ds, rsites)
        ck.ob(rule, sitestr(ce, d), after, "%s: pending -= 1 only after the handler run has returned (the message being delivered still counts as pending)" % tag if after else
              "%s: the pending count is decremented before the handler has run: a stop that sees 0 quits (and after 3 s terminates) the thread while the last message is still being delivered" % tag,
              key="Worker::customEvent|decrement-before-run")
    for r in run:
        ok = g.postdominated(g.site_of(r), set(g.sites_of_nodes(dec)))
        ck.ob(rule, sitestr(ce, r), ok, "%s: every handler run is followed by the decrement" % tag if ok else "%s: a handler run is not followed by a decrement on every path (the stop would wait forever)" % tag,
              key="Worker::customEvent|run-without-decrement")


def worker_runs_unlocked(ck, cls, tag, rule):
    """Worker::customEvent must not hold the handler's hand-off mutex while the wrapped handler runs: process() takes that
    mutex to post, so a logging call would block for as long as a sink is busy"""
    F = ck.facts
    ce = custom_event(F, cls)
    ck.require(ce is not None, "%s: Worker::customEvent not found" % tag)
    ck.touch(ce)
    lf = LockFlow(F, ce)
    run = [n for n in ce.calls() if n.get("qualified") and name_is(n.get("callee"), "process")]
    for r in run:
        held = lf.held_set(r)
        bad = [m for m in held if m == OT + "::m_mutex"]
        ck.ob(rule, sitestr(ce, r), not bad, "%s: the worker runs the handler without holding the hand-off mutex (producers only wait for a post, never for a sink)" % tag if not bad else
              "%s: the worker holds %s while the sinks run; OwnThreadHandler::process needs the same mutex to post, so the logging call blocks on the sink" % (tag, bad[0]),
              key="Worker::customEvent|run-under-handoff-mutex")


def worker_cleared_after_stop(ck, cls, tag, rule):
    """m_worker becomes null only after quit() and wait(): while the thread can still be delivering queued messages a null
    worker makes process() run the handler on the caller's thread — out of order, off the logger thread and blocking"""
    F = ck.facts
    rs = [f for f in F.fns.values() if f.cls == cls and f.name == cls + "::resetOwnThread"]
    ck.require(len(rs) == 1, "%s: resetOwnThread not found" % tag)
    rs = F.flat(rs[0])
    ck.touch(rs)
    g = Graph(rs)
    W = OT + "::m_worker"
    clears = [n for n in rs.find(lambda n: n.get("k") == "binop" and n.get("op") == "=" and is_this_field(n.get("lhs"), W) and skip_copies(n.get("rhs")).get("k") == "null_lit")]
    clears += [n for n in rs.calls() if n.get("ck") == "member" and is_this_field(n.get("obj"), W) and name_is(n.get("callee"), ("clear", "reset"))]
    waits = [n for n in rs.calls("QThread::wait")]
    quits = [n for n in rs.calls() if name_is(n.get("callee"), ("QThread::quit", "QThread::exit"))]
    if not clears or not waits or not quits:
        ck.ob(rule, sitestr(rs), None, "%s: resetOwnThread: clear/quit/wait anchors not found (%d/%d/%d)" % (tag, len(clears), len(quits), len(waits)))
        return
    for c in clears:
        cs = g.site_of(c)
        ok = g.dominated(cs, set(g.sites_of_nodes(waits))) and g.dominated(cs, set(g.sites_of_nodes(quits)))
        ck.ob(rule, sitestr(rs, c), ok, "%s: the worker pointer is cleared only after quit() and wait(): until then every message goes through the queue" % tag if ok else
              "%s: the worker pointer is cleared while the thread may still be delivering the backlog: a message logged meanwhile is run synchronously on the caller's thread, overtaking queued ones" % tag,
              key="resetOwnThread|clear-before-wait")


def resolve_roles(F):
    """the fields of OwnThreadHandler by role, whatever they are called and wherever they live (directly in the class or in a member
    struct held by value): worker pointer, thread object, pending counter, hand-off mutex; the event's payload. The rules keep
    writing OT::m_worker etc.; engine.facts.FIELD_ALIAS maps those canonical names to the actual ones."""
    import re
    from engine import facts as FX
    cands = {"m_worker": [], "m_thread": [], "m_pendingCount": [], "m_mutex": [], "LogEvent::lmsg": []}
    for q, rec in F.records.items():
        qs = strip_tmpl(q)
        if not (qs == OT or qs.startswith(OT + "::")):
            continue
        inner = qs[len(OT):]
        for f_ in rec.get("fields", []):
            t = (f_.get("type") or "").replace("const ", "").strip()
            full = strip_tmpl(f_.get("qname") or (qs + "::" + f_["name"]))
            if inner.endswith("::LogEvent"):
                if re.search(r"\bLogMessage$", t):
                    cands["LogEvent::lmsg"].append(full)
                continue
            if inner.endswith("::Worker"):
                continue
            if re.search(r"\bWorker \*$", t):
                cands["m_worker"].append(full)
            elif "QThread" in t:
                cands["m_thread"].append(full)
            elif re.search(r"QAtomicInt|QAtomicInteger|std::atomic<", t):
                cands["m_pendingCount"].append(full)
            elif re.search(r"\b(QMutex|QRecursiveMutex|QBasicMutex|std::mutex|std::recursive_mutex)$", t):
                cands["m_mutex"].append(full)
    out = {}
    for role, names in cands.items():
        names = sorted(set(names))
        canon = OT + "::" + role
        if len(names) == 1 and names[0] != canon:
            FX.FIELD_ALIAS[canon] = {names[0]}
        elif canon in FX.FIELD_ALIAS and (len(names) != 1 or names[0] == canon):
            del FX.FIELD_ALIAS[canon]
        out[role] = names
    return out


def builder_fidelity(ck, F, rid, fn, cls, key, params=None):
    """a fluent builder method `X &X::name(args)` adds exactly one handler, of class `cls`, constructed from its own parameters unchanged,
    on every path, and does nothing else to the handler list.  A deviation is *undecided* (the substitute may be equivalent: merging
    two thresholds correctly, skipping a filter that passes everything) unless it is definite: the handler is built without the
    caller's argument, or nothing of the class is built at all.
    params: indices of the method's parameters that must be the constructor arguments, in order (default: all of them)."""
    from engine.util import Graph, sitestr, is_ref_to, skip_copies, describe, name_is
    g = Graph(fn)
    short = fn.name.split("::")[-1]
    cname = cls.split("::")[-1]
    creates = [n for n in fn.calls() if (n.get("callee") or "").endswith("::create") and "QSharedPointer<" in (n.get("callee") or "")]
    news = [n for n in fn.all_nodes() if n.get("k") == "new"]
    right = [n for n in creates if (n.get("callee") or "").startswith("QSharedPointer<%s>::" % cls)]
    wrong = [n for n in creates if n not in right]
    want = list(range(len(fn.params))) if params is None else list(params)
    good = True

    def verbatim(a, i):
        from engine.util import deref_local
        a = skip_copies(deref_local(fn, skip_copies(a)))
        if is_ref_to(a, fn.params[i]["decl"]):
            return True
        if a.get("k") in ("call", "construct") and len(a.get("args", [])) == 1 and name_is(a.get("callee") or a.get("class") or "", ("move", "std::move", "forward", "std::forward")):
            return is_ref_to(skip_copies(deref_local(fn, skip_copies(a["args"][0]))), fn.params[i]["decl"])
        return False

    if not right:
        ck.ob(rid, sitestr(fn), False, "%s() builds no %s at all" % (short, cname), key="%s|create-count" % key)
        return False
    if wrong or news:
        x = (wrong or news)[0]
        good = False
        ck.ob(rid, sitestr(fn, x), None, "%s() also builds %s: whether messages judged by it get the verdict a %s would give is not decided here" % (short, describe(x)[:60], cname), key="%s|other-handler" % key)
    for c in right:
        args = [a for a in c.get("args", []) if a.get("k") != "defaultarg"]
        okargs = len(args) == len(want) and all(verbatim(a, i) for a, i in zip(args, want))
        written = [n for n in fn.all_nodes() if n.get("k") == "binop" and n.get("op") in ("=", "+=", "-=", "*=", "|=", "&=") and any(is_ref_to(n.get("lhs"), fn.params[i]["decl"]) for i in want)]
        mentioned = all(any(x.get("k") == "ref" and x.get("decl") == fn.params[i]["decl"] for a in args for x in walk(a)) for i in want)
        v = True if (okargs and not written) else False if not mentioned else None
        good = good and v is True
        ck.ob(rid, sitestr(fn, c), v, "%s() constructs the %s from its argument%s unchanged" % (short, cname, "s" if len(want) != 1 else "") if v else
              "%s() constructs the %s from %s%s" % (short, cname, [describe(a)[:40] for a in args], ": the caller's argument is not used" if v is False else ", a value computed from the caller's argument"), key="%s|create-args" % key)
    if len(right) > 1:
        good = False
        ck.ob(rid, sitestr(fn), None, "%s() has %d construction sites for %s" % (short, len(right), cname), key="%s|create-count" % key)
    apps = [n for n in fn.calls() if name_is(n.get("callee"), ("QtLogger::Pipeline::append", "append", "appendFilter", "appendAttrHandler", "appendSink", "appendFormatter", "setFormatter", "operator<<"))
            and any(x.get("id") in {c["id"] for c in right} for a in n.get("args", []) for x in walk(a))]
    okapp = len(apps) == 1 and g.must_pass({g.site_of(apps[0])})
    good = good and okapp
    ck.ob(rid, sitestr(fn, apps[0] if apps else right[0]), True if okapp else None, "%s() appends that handler on every path" % short if okapp else
          "%s() does not append a freshly built %s on every path" % (short, cname), key="%s|append-always" % key)
    others = [n for n in fn.calls() if (name_is(n.get("callee"), ("QtLogger::Pipeline::handlers", "handlers", "clear", "remove", "insert", "prepend", "removeLast", "takeLast", "replace")) and n not in apps)]
    good = good and not others
    ck.ob(rid, sitestr(fn, others[0] if others else None), True if not others else None, "%s() does nothing else to the handler list" % short if not others else
          "%s() also edits the handler list through %s (an earlier handler is replaced or merged)" % (short, describe(others[0])[:50]), key="%s|list-edit" % key)
    return good


def construction_tuple(F, cls, call, fn=None, depth=0):
    """values of the constructor parameters of `cls` for a `QSharedPointer<cls>::create(args...)` call, or for a call to a function
    that returns such an object made at a single create site (X::instance()): explicit arguments converted to the parameter type,
    then the constructor's default arguments.  None when not constant / not recognised."""
    from engine.util import skip_copies, const_int
    from engine.conc import Conc, Unknown
    callee = call.get("callee") or ""
    if not (callee.startswith("QSharedPointer<%s>::create" % cls)):
        f = F.fns.get(call.get("fn"))
        if f is None or f.body is None or depth > 2:
            return None
        inner = [n for n in f.calls() if (n.get("callee") or "").startswith("QSharedPointer<%s>::create" % cls)]
        if len(inner) != 1:
            return None
        return construction_tuple(F, cls, inner[0], f, depth + 1)
    args = [a for a in call.get("args", []) if a.get("k") != "defaultarg"]
    ctors = [c for c in F.fn_all(cls + "::" + cls.split("::")[-1]) if c.d.get("kind") == "ctor" and not c.d.get("copyctor") and not c.d.get("movector") and len(c.params) >= len(args)
             and all("default" in p for p in c.params[len(args):])]
    if len(ctors) != 1:
        return None
    ct = ctors[0]
    out = []
    try:
        for i, p in enumerate(ct.params):
            e = args[i] if i < len(args) else p["default"]
            v = Conc(F).eval(e, {"__fn__": fn} if fn is not None else {})
            if p.get("type") == "bool" and isinstance(v, int):
                v = int(bool(v))
            out.append((p.get("name"), v))
    except Unknown:
        return None
    return out


def _stored_values(fn, decl):
    """expressions whose value is stored into `decl` inside fn (initialiser, assignments, element assignments, mutating member calls)"""
    from engine.util import skip_copies
    out = []
    for n in fn.all_nodes():
        if n.get("k") == "decl":
            for v in n.get("vars", []):
                if v.get("decl") == decl and isinstance(v.get("init"), dict):
                    out.append(v["init"])
        if n.get("k") == "binop" and (n.get("op") or "").endswith("=") and n.get("op") not in ("==", "!=", "<=", ">="):
            base = skip_copies(n.get("lhs"))
            while isinstance(base, dict) and base.get("k") == "subscript":
                base = skip_copies(base.get("base"))
            if isinstance(base, dict) and base.get("k") == "ref" and base.get("decl") == decl:
                out.append(n.get("rhs"))
        if n.get("k") == "unop" and n.get("op") in ("++", "--") and isinstance(n.get("e"), dict) and skip_copies(n["e"]).get("decl") == decl:
            out.append(n)
        if n.get("k") == "call" and n.get("ck") == "operator" and n.get("op") in ("=", "+=", "-=", "++", "--") and n.get("args"):
            l = skip_copies(n["args"][0])
            if isinstance(l, dict) and l.get("k") == "ref" and l.get("decl") == decl:
                out.append(n["args"][1] if len(n["args"]) > 1 else n)
        if n.get("k") == "call" and n.get("ck") == "member" and n.get("constm") is False:
            o = skip_copies(n.get("obj")) if isinstance(n.get("obj"), dict) else {}
            if o.get("k") == "ref" and o.get("decl") == decl:
                out += list(n.get("args", [])) or [n]
        if n.get("k") == "call" and n.get("args") and "(" in (n.get("sig") or ""):
            # handed to a callee as a pointer / reference to non-const (file.read(buffer, n), memcpy(buffer, ...)): the callee writes it
            ptypes = _param_types(n["sig"])
            args = n["args"][1:] if n.get("ck") == "operator" and len(n["args"]) == len(ptypes) + 1 else n["args"]
            for a, pt in zip(args, ptypes):
                if not _writable_param(pt):
                    continue
                base = skip_copies(a)
                while isinstance(base, dict) and (base.get("k") == "subscript" or (base.get("k") == "unop" and base.get("op") == "&") or base.get("k") == "cast"):
                    base = skip_copies(base.get("base") if base.get("k") == "subscript" else base.get("e"))
                if isinstance(base, dict) and base.get("k") == "ref" and base.get("decl") == decl:
                    out.append(n)
    return out


def _param_types(sig):
    inner = sig[sig.index("(") + 1:sig.rindex(")")] if ")" in sig else ""
    out, depth, cur = [], 0, ""
    for ch in inner:
        if ch in "<([":
            depth += 1
        elif ch in ">)]":
            depth -= 1
        if ch == "," and depth == 0:
            out.append(cur.strip())
            cur = ""
        else:
            cur += ch
    if cur.strip():
        out.append(cur.strip())
    return out


def _writable_param(t):
    """T * / T & with a non-const pointee (T && and by-value parameters receive a copy or a temporary)"""
    t = t.strip()
    if t.endswith("&&"):
        return False
    if not (t.endswith("*") or t.endswith("&")):
        return False
    pointee = t[:-1].strip()
    return not (pointee.startswith("const ") or pointee.endswith(" const") or " const" in pointee.split("<")[0] or pointee.split("<")[0].startswith("const"))


def _constant_value(fn, e, depth=0, seen=None):
    """the value depends on nothing but literals and locals that are themselves computed from literals / loop counters"""
    from engine.util import const_str, skip_copies
    seen = seen if seen is not None else set()
    if not isinstance(e, dict):
        return True
    if const_str(e) is not None:
        return True
    for x in walk(e):
        k = x.get("k")
        if k == "this" or (k == "ref" and x.get("dk") in ("param", "field")) or k == "member":
            return False
        if k == "unop" and x.get("op") in ("++", "--"):
            o_ = skip_copies(x.get("e")) if isinstance(x.get("e"), dict) else {}
            if not (o_.get("k") == "ref" and o_.get("dk") == "local" and not o_.get("static")):
                return False
            continue
        if k == "call" and x.get("ck") in ("member", "free") and const_str(x) is None:
            if (x.get("callee") or "").split("::")[-1] not in ("operator()",) and not (x.get("callee") or "").startswith(("QStaticStringData", "QStringLiteral", "QLatin1", "QChar", "QString::fromLatin1", "QString::fromUtf8", "QRegularExpression")):
                return False
        if k == "ref" and x.get("dk") == "local" and x.get("decl") not in seen and depth < 3:
            seen.add(x["decl"])
            for w in _stored_values(fn, x["decl"]):
                if not _constant_value(fn, w, depth + 1, seen):
                    return False
    return True


def shared_static_state(ck, F, rid, what_lock, roots=None, min_roots=25, what="handler code"):
    """static-storage variables written by code that runs as part of a handler (process / format / filter / send / attributes / flush and
    everything they reach).  Such a variable is shared by every instance of the handler and by every pipeline, i.e. it lies outside
    the one lock a pipeline runs under; it is accepted only as a cache of constants."""
    subs = F.subclasses("QtLogger::Handler") | {"QtLogger::Handler"}
    if roots is None:
        roots = [f for f in F.fns.values() if f.body is not None and strip_tmpl(f.cls or "") in subs and f.name.split("::")[-1] in ("process", "format", "filter", "send", "attributes", "flush")]
    ck.require(len(roots) >= min_roots, "only %d entry points found for the static-state rule (%d confirmed by hand)" % (len(roots), min_roots))
    reach = F.reachable_from(roots, virtual=True)
    for f in list(F.fns.values()):
        if f.lambda_of in reach:
            reach.add(f.id)
    n_static, bad = 0, 0
    for gv in sorted(F.globals.values(), key=lambda g: (g.get("file") or "", g.get("line") or 0, g.get("name") or "")):
        if gv.get("const") or not in_lib(gv.get("file")):
            continue
        if gv.get("staticlocal"):
            if gv.get("function") not in reach:
                continue
            fns = [F.fns.get(gv.get("function"))]
        else:
            fns = [f for f in F.fns.values() if f.id in reach and f.body is not None and any(x.get("k") == "ref" and x.get("decl") == gv["decl"] for x in f.all_nodes())]
            if not fns:
                continue
        n_static += 1
        t_ = (gv.get("type") or "").replace("const ", "").strip()
        if t_.startswith(("std::once_flag", "QMutex", "QBasicMutex", "QRecursiveMutex", "QReadWriteLock", "std::mutex", "std::recursive_mutex", "std::shared_mutex", "QSemaphore", "QWaitCondition", "std::condition_variable")):
            # made to be shared: what it guards is judged on its own
            ck.ob(rid, "%s:%s (%s)" % ((gv.get("file") or "").split("/src/")[-1], gv.get("line"), gv.get("name")), True, "%s: a synchronisation object (%s)" % (gv.get("name"), t_.split("<")[0]), key="static-state|%s" % (gv.get("name") or "").split("::")[-1])
            continue
        stored = [(f, w) for f in fns if f is not None and f.body is not None for w in _stored_values(f, gv["decl"])]
        state = [(f, w) for f, w in stored if not _constant_value(f, w)]
        where = "%s:%s (%s)" % ((gv.get("file") or "").split("/src/")[-1], gv.get("line"), gv.get("name"))
        if gv.get("staticlocal") and state:
            # initialised at its declaration (thread-safe in C++11) and never written afterwards: fixed for the life of the process
            f_ = fns[0]
            inits = [v.get("init") for n_ in f_.find(lambda n: n.get("k") == "decl") for v in n_.get("vars", []) if v.get("decl") == gv["decl"] and isinstance(v.get("init"), dict)]
            if len(stored) == len(inits) == 1 and stored[0][1].get("id") == inits[0].get("id"):
                # ... unless the initialiser depends on the first caller's arguments (one answer for everybody: C19-O5's business too)
                if not any(x.get("k") == "ref" and x.get("dk") == "param" for x in walk(inits[0])):
                    ck.ob(rid, where, True, "%s: initialised once at its declaration, never written afterwards" % gv.get("name"), key="static-state|%s" % (gv.get("name") or "").split("::")[-1])
                    continue
        if state:
            bad += 1
            f0, w0 = state[0]
            ck.ob(rid, where, False, "%s is a static variable written by %s (%s stores %s): it is shared by every instance and every pipeline, so two pipelines — each correctly under %s — "
                  "read and write it at the same time, and one pipeline's messages see values left by another's" % (gv.get("name"), what, f0.name.split("QtLogger::")[-1], describe(w0)[:40], what_lock),
                  key="static-state|%s" % (gv.get("name") or "").split("::")[-1])
        else:
            ck.ob(rid, where, True, "%s: static, but only ever given values computed from constants (a cache)" % gv.get("name"), key="static-state|%s" % (gv.get("name") or "").split("::")[-1])
    ck.ob(rid, "(%s)" % what, not bad, "%d functions reachable from the %d entry points of the %s; %d static variables written there, none carrying state" % (len(reach), len(roots), what, n_static) if not bad else
          "%d static variable(s) of the %s carry state across pipelines" % (bad, what), key="static-state|summary")


DEFERRED = {"connect": ("QObject",), "singleShot": ("QTimer",), "callOnTimeout": ("QTimer",), "invokeMethod": ("QMetaObject",), "run": ("QtConcurrent",), "start": ("QThreadPool", "QTimer"),
            "thread": ("std",), "async": ("std",)}


def no_deferred_callbacks(ck, F, rid, allowed=()):
    """handler code registers no callback that runs later (signal connection, timer, pool task, thread): such a callback runs
    outside the pipeline's lock, possibly in another thread, and whatever handler state it touches is then touched unlocked"""
    subs = F.subclasses("QtLogger::Handler") | {"QtLogger::Handler"}
    roots = [f for f in F.fns.values() if f.body is not None and strip_tmpl(f.cls or "") in subs and f.name.split("::")[-1] in ("process", "format", "filter", "send", "attributes", "flush")]
    reach = F.reachable_from(roots, virtual=True)
    for f in list(F.fns.values()):
        if f.lambda_of in reach:
            reach.add(f.id)
    sites = 0
    for fid in sorted(reach):
        f = F.fns.get(fid)
        if f is None or f.body is None or not in_lib(f.file):
            continue
        for n in f.calls():
            c = n.get("callee") or ""
            short = c.split("::")[-1].split("<")[0]
            if short not in DEFERRED or not any(c.startswith(p_) or ("::" + p_ + "::") in c or c.startswith(p_ + "::") for p_ in DEFERRED[short]):
                continue
            if any(strip_tmpl(f.name).endswith(a) for a in allowed):
                continue
            sites += 1
            lam = [x for a in n.get("args", []) for x in walk(a) if x.get("k") == "lambda"]
            captures = any((x.get("captures") or x.get("caps") or []) for x in lam)
            ck.ob(rid, sitestr(f, n), False if (lam or len(n.get("args", [])) >= 3) else None,
                  "%s registers a callback (%s) from handler code: it runs later, outside the lock the pipeline is evaluated under (in the thread that emits the signal / the pool), "
                  "and the handler state it shares with %s is then read and written concurrently with other producers" % (strip_tmpl(f.name).split("QtLogger::")[-1], describe(n)[:50], strip_tmpl(f.name).split("::")[-1]),
                  key="deferred-callback|%s" % strip_tmpl(f.name).split("::")[-1])
    if not sites:
        ck.ob(rid, "(handler code)", True, "no signal connection, timer, pool task or thread is created by code reachable from the handler entry points (%d functions)" % len(reach), key="deferred-callback|none")


def message_text_intact(ck, F, rid, consequence):
    """LogMessage(type, context, message) stores the text it is given: m_message is initialised from the `message` parameter itself, and
    message() returns m_message.  Anything 'tidied' on the way in (a trailing line break chopped, trimming, normalisation) changes the
    text every handler decides on and prints."""
    LMc = "QtLogger::LogMessage"
    cts = [c for c in F.fn_all(LMc + "::LogMessage") if c.d.get("kind") == "ctor" and not c.d.get("copyctor") and not c.d.get("movector") and len(c.params) >= 3]
    ck.require(cts, "LogMessage(type, context, message) not found")
    for ct in cts:
        ck.touch(ct)
        mp = [p for p in ct.params if "QString" in (p.get("type") or "")]
        ini = [i for i in ct.inits if i.get("member") == LMc + "::m_message" and isinstance(i.get("e"), dict)]
        ok = len(mp) == 1 and len(ini) == 1 and is_ref_to(skip_copies(ini[0]["e"]), mp[0]["decl"])
        body_writes = [n for n in ct.all_nodes() if n.get("k") == "member" and n.get("name") == LMc + "::m_message" and write_kind(ct, n)]
        verdict, why = (True, "") if ok and not body_writes else (False, "")
        if not ok and not body_writes and len(mp) == 1 and len(ini) == 1:
            # a deep copy is as good as the string itself when it is given the length: QString(p.constData(), p.size()).  Without the length the
            # pointer is read as NUL-terminated text and everything behind the first U+0000 is gone
            e_ = skip_copies(ini[0]["e"])
            ptr = lambda x: is_call(x, ("QString::unicode", "QString::constData", "QString::data", "QString::utf16")) and is_ref_to(skip_copies(x).get("obj"), mp[0]["decl"])
            size = lambda x: is_call(x, ("QString::size", "QString::length", "QString::count")) and is_ref_to(skip_copies(x).get("obj"), mp[0]["decl"])
            args_ = [a for a in (e_.get("args") or []) if a.get("k") != "defaultarg"] if isinstance(e_, dict) and e_.get("k") in ("construct", "call") else []
            LOSSY = ("trimmed", "simplified", "chopped", "left", "right", "mid", "normalized", "toLower", "toUpper", "toCaseFolded", "remove", "replace", "section", "toHtmlEscaped", "fromLatin1", "toLatin1", "fromLocal8Bit")
            if args_ and ptr(args_[0]) and len(args_) >= 2 and size(args_[1]):
                verdict = True
            elif args_ and ptr(args_[0]) and len(args_) == 1:
                verdict, why = False, " (the pointer is read as NUL-terminated text: everything behind the first U+0000 is dropped)"
            elif any(x.get("k") == "call" and strip_tmpl(x.get("callee") or "").split("::")[-1] in LOSSY for x in walk(e_)):
                verdict = False
            else:
                verdict = None
        ck.ob(rid, sitestr(ct), verdict, "LogMessage stores the message text it is given, unchanged" if verdict else
              "LogMessage initialises its text with %s instead of the message it was given%s: %s" % (describe(ini[0]["e"])[:60] if ini else "nothing", why, consequence), key="LogMessage|text-intact")
    # a copy of the message (the asynchronous hand-off, a queued signal sink) carries the same text and formatted text
    for cc_ in [c for c in F.fn_all(LMc + "::LogMessage") if c.d.get("copyctor") and c.body is not None and not c.d.get("implicit") and not c.d.get("defaulted")]:
        srcd = cc_.params[0]["decl"] if cc_.params else None
        for fld in ("m_message", "m_formattedMessage"):
            ini = [i for i in cc_.inits if i.get("member") == LMc + "::" + fld and isinstance(i.get("e"), dict) and i.get("written")]
            if not ini:
                continue            # not copied at all: C03-O1's business (every member)
            e_ = skip_copies(ini[0]["e"])
            same = isinstance(e_, dict) and e_.get("k") == "member" and (e_.get("name") or "").endswith("::" + fld) and is_ref_to(skip_copies(e_.get("base") or {}), srcd)
            LOSSY2 = ("utf16", "unicode", "constData", "data", "fromUtf16", "fromUtf8", "toUtf8", "fromLatin1", "toLatin1", "fromLocal8Bit", "toLocal8Bit", "fromRawData", "trimmed", "simplified", "normalized", "left", "mid", "chopped")
            verdict = True if same else None
            why = ""
            if not same:
                # helpers of the class are looked into (one level): a deep copy through a pointer without a length stops at the first U+0000,
                # fromUtf16() also swallows a leading byte-order mark
                nodes = list(walk(e_))
                for x in list(nodes):
                    h_ = F.fns.get(x.get("fn")) if x.get("k") == "call" else None
                    if h_ is not None and h_.body is not None and in_lib(h_.file):
                        nodes += list(h_.all_nodes())
                calls_ = [x for x in nodes if x.get("k") == "call"]
                ptr_only = [x for x in calls_ if strip_tmpl(x.get("callee") or "").split("::")[-1] in ("fromUtf16", "fromUcs4", "fromWCharArray") and len([a for a in x.get("args", []) if a.get("k") != "defaultarg"]) == 1] + \
                           [x for x in nodes if x.get("k") == "construct" and strip_tmpl(x.get("class") or "") == "QString" and len([a for a in x.get("args", []) if a.get("k") != "defaultarg"]) == 1 and
                            is_call(skip_copies(x["args"][0]), ("QString::unicode", "QString::constData", "QString::data", "QString::utf16"))]
                if ptr_only:
                    verdict, why = False, " (a pointer without a length: the text ends at the first U+0000%s)" % (", and fromUtf16 removes a leading U+FEFF" if any("fromUtf16" in (x.get("callee") or "") for x in ptr_only) else "")
                elif any(strip_tmpl(x.get("callee") or "").split("::")[-1] in ("trimmed", "simplified", "normalized", "left", "mid", "chopped", "toLatin1", "fromLatin1", "toLocal8Bit", "fromLocal8Bit") for x in calls_):
                    verdict = False
            ck.ob(rid, sitestr(cc_, ini[0]["e"]), verdict, "a copy of the message carries the source's %s" % fld if verdict else
                  "the copy constructor initialises %s with %s%s: behind a copy (asynchronous mode, queued signal sink) %s" % (fld, describe(ini[0]["e"])[:60], why, consequence), key="LogMessage(copy)|text-intact|%s" % fld)
    acc = F.fn(LMc + "::message")
    rs = returns(acc)
    oka = len(rs) == 1 and is_this_field(rs[0].get("e"), LMc + "::m_message")
    ck.ob(rid, sitestr(acc), oka, "message() returns m_message" if oka else "message() returns %s" % (describe(rs[0].get("e"))[:40] if rs else "?"), key="LogMessage::message|return")


UNLOCKED_STDIO = ("fwrite_unlocked", "fflush_unlocked", "fputs_unlocked", "fputc_unlocked", "putc_unlocked", "putchar_unlocked", "fread_unlocked", "fgets_unlocked",
                  "getc_unlocked", "getchar_unlocked", "fputws_unlocked", "fputwc_unlocked", "putwc_unlocked", "putwchar_unlocked", "clearerr_unlocked", "__fsetlocking",
                  "_fwrite_nolock", "_fflush_nolock", "_fputc_nolock", "_putc_nolock", "_fputs_nolock", "_putchar_nolock")


def process_wide_streams_locked(ck, F, rid):
    """stdout / stderr are shared by every pipeline of the process (and by the rest of the program); a pipeline's lock covers one pipeline.  Library code
    must therefore leave the C library's own stream lock in place: no *_unlocked / _nolock stdio call, no __fsetlocking, no sync_with_stdio(false)."""
    n, bad = 0, []
    for f in F.fns.values():
        if f.body is None or not in_lib(f.file):
            continue
        for c in f.calls():
            short = strip_tmpl(c.get("callee") or "").split("::")[-1]
            if short in ("fwrite", "fflush", "fputs", "fputc", "putc", "puts", "printf", "fprintf", "vfprintf", "operator<<", "flush", "endl", "write", "put") and \
               any(x.get("k") == "ref" and (x.get("name") or "").split("::")[-1] in ("stdout", "stderr", "cout", "cerr", "clog") for x in walk(c)):
                n += 1
            if short in UNLOCKED_STDIO:
                bad.append((f, c, "%s() bypasses the stream's own lock" % short))
            if short == "sync_with_stdio" and c.get("args") and const_int(c["args"][0]) == 0:
                bad.append((f, c, "sync_with_stdio(false) makes the standard streams unsynchronised"))
    for f, c, why in bad:
        ck.ob(rid, sitestr(f, c), False, "%s: the stream is process-wide, the pipeline's lock is per pipeline - a Logger and a bare pipeline (or two loggers' sinks, or the application's own output) "
              "writing to it at the same time race on the stdio buffer: records are lost, duplicated or torn" % why, key="stdio|unlocked")
    ck.ob(rid, "(library)", not bad, "%d writes to the process-wide standard streams, all through calls that take the stream's own lock" % n, key="stdio|summary")


def _origin(F, fn, e, depth=0, seen=None):
    """where a handler pointer comes from: {"fresh", "param", "static", "field", "unknown"}"""
    seen = seen if seen is not None else set()
    e = skip_copies(e) if isinstance(e, dict) else None
    if not isinstance(e, dict) or depth > 6:
        return {"unknown"}
    k = e.get("k")
    if k == "call":
        c = strip_tmpl(e.get("callee") or "")
        short = c.split("::")[-1]
        if c in ("QSharedPointer::create", "std::make_shared", "std::make_unique"):
            return {"fresh"}
        if short in ("toStrongRef", "lock", "value", "operator[]", "take", "first", "last", "at", "data", "get", "staticCast", "dynamicCast", "objectCast", "constCast", "qSharedPointerCast",
                     "qSharedPointerDynamicCast", "qSharedPointerObjectCast", "operator->", "operator*", "sharedFromThis") and (isinstance(e.get("obj"), dict) or e.get("args")):
            return _origin(F, fn, e.get("obj") if isinstance(e.get("obj"), dict) else e["args"][0], depth + 1, seen)
        h = F.fns.get(e.get("fn"))
        if h is not None and h.body is not None and in_lib(h.file) and h.id not in seen:
            seen.add(h.id)
            out = set()
            for r in returns(h):
                out |= _origin(F, h, r.get("e"), depth + 1, seen)
            # a parameter of the helper is whatever the caller passed
            if "param" in out:
                out.discard("param")
                for a in e.get("args") or []:
                    out |= _origin(F, fn, a, depth + 1, seen)
            return out or {"unknown"}
        return {"unknown"}
    if k in ("construct", "cast", "defaultinit", "materialize", "bindtemp") and (e.get("args") or e.get("e")):
        a = (e.get("args") or [e.get("e")])[0]
        if isinstance(skip_copies(a), dict) and skip_copies(a).get("k") == "new":
            return {"fresh"}
        return _origin(F, fn, a, depth + 1, seen)
    if k == "new":
        return {"fresh"}
    if k == "cond":
        return _origin(F, fn, e.get("t"), depth + 1, seen) | _origin(F, fn, e.get("f"), depth + 1, seen)
    if k == "ref":
        dk = e.get("dk")
        if dk == "param":
            return {"param"}
        if dk == "local":
            if e.get("static"):
                return {"static"}
            key = ("l", e.get("decl"))
            if key in seen:
                return set()
            seen.add(key)
            g = [gv for gv in F.globals.values() if gv.get("decl") == e.get("decl")]
            if g and g[0].get("staticlocal"):
                return {"static"}
            out = set()
            for w in _stored_values(fn, e.get("decl")):
                out |= _origin(F, fn, w, depth + 1, seen)
            return out or {"unknown"}
        if dk in ("global", "var", "staticmember") or any(gv.get("decl") == e.get("decl") for gv in F.globals.values()):
            return {"static"}
        return {"unknown"}
    if k == "member":
        return {"field"}
    return {"unknown"}


def builders_create_fresh_handlers(ck, F, rid, SP="QtLogger::SimplePipeline", P="QtLogger::Pipeline"):
    """every handler a SimplePipeline builder method adds is created by that call (XPtr::create) or is the caller's own argument: a handler handed out of
    process-wide storage is shared by pipelines that lock independently"""
    n = 0
    for f in sorted((x for x in F.fns.values() if x.cls == SP and x.body is not None and x.d.get("kind") == "method"), key=lambda x: x.sig):
        adds = [c for c in f.calls() if strip_tmpl(c.get("callee") or "") in (P + "::append", P + "::operator<<", "QtLogger::SortedPipeline::appendPipeline", "QtLogger::SortedPipeline::appendFilter",
                                                                               "QtLogger::SortedPipeline::appendAttrHandler", "QtLogger::SortedPipeline::appendSink", "QtLogger::SortedPipeline::setFormatter")
                and c.get("args")]
        adds_ = []
        for c in adds:
            # a handler chosen into a local first (`FormatterPtr f; if (...) f = A::create(); else f = B::instance(); append(f);`): every value the local
            # is given is looked at on its own
            a_ = skip_copies(c["args"][-1])
            while isinstance(a_, dict) and a_.get("k") in ("construct", "cast", "materialize", "bindtemp") and len([y for y in (a_.get("args") or ([a_["e"]] if isinstance(a_.get("e"), dict) else [])) if y.get("k") != "defaultarg"]) == 1:
                a_ = skip_copies([y for y in (a_.get("args") or [a_.get("e")]) if y.get("k") != "defaultarg"][0])
            vals_ = None
            if isinstance(a_, dict) and a_.get("k") == "ref" and a_.get("dk") == "local" and not a_.get("static"):
                vals_ = [v_ for v_ in _stored_values(f, a_.get("decl")) if isinstance(v_, dict) and not (skip_copies(v_).get("k") == "construct" and not [y for y in skip_copies(v_).get("args", []) if y.get("k") != "defaultarg"])]
            for v_ in (vals_ or [c["args"][-1]]):
                adds_.append((c, v_))
        for c, arg_ in adds_:
            n += 1
            o = _origin(F, f, arg_)
            short = f.name.split("::")[-1]
            if "static" in o:
                # a process-wide object without data members (QtLogMessageFormatter::instance()) has nothing two pipelines could race on
                import re as _re
                x_ = skip_copies(arg_)
                while isinstance(x_, dict) and x_.get("k") in ("construct", "cast", "materialize", "bindtemp") and len(x_.get("args") or ([x_["e"]] if isinstance(x_.get("e"), dict) else [])) == 1:
                    x_ = skip_copies((x_.get("args") or [x_.get("e")])[0])
                t = (x_.get("type") if isinstance(x_, dict) else "") or ""
                m_ = _re.search(r"QSharedPointer<\s*(?:const\s+)?([\w:]+)", t)
                cls_ = m_.group(1) if m_ else None
                if cls_ and not cls_.startswith("QtLogger::"):
                    cls_ = "QtLogger::" + cls_
                fam = None
                if cls_ and F.records.get(cls_):
                    fam = {cls_} | F.subclasses(cls_)
                    todo_ = [cls_]
                    while todo_:
                        for b_ in (F.records.get(todo_.pop()) or {}).get("bases", []):
                            if b_["type"] in F.records and b_["type"] not in fam:
                                fam.add(b_["type"])
                                todo_.append(b_["type"])
                flds = [fl.get("name") for k_ in (fam or ()) for fl in (F.records.get(k_) or {}).get("fields", []) if not fl.get("static")] if fam else None
                if fam is not None and not flds:
                    ck.ob(rid, sitestr(f, c), True, "%s() adds a process-wide %s, a class without data members (nothing to share)" % (short, cls_.split("::")[-1]), key="builder-shares|%s" % short)
                    continue
                if fam is None:
                    ck.ob(rid, sitestr(f, c), None, "%s() adds a handler taken out of process-wide storage whose class could not be determined" % short, key="builder-shares|%s" % short)
                    continue
                ck.ob(rid, sitestr(f, c), False, "%s() adds a handler taken out of process-wide storage: two pipelines that ask for it share one object, and each runs it under its own lock only - an installed Logger and a bare "
                      "pipeline enter the same sink at the same time (write buffer, rotation state)" % short, key="builder-shares|%s" % short)
            else:
                ck.ob(rid, sitestr(f, c), True if o <= {"fresh", "param"} else None, "%s() adds %s" % (short, "/".join(sorted(o))), key="builder-shares|%s" % short)
    ck.require(n >= 22, "only %d handler additions in SimplePipeline's builder methods (25 confirmed by hand)" % n)


def creation_is_atomic(ck, cls, tag, rule):
    """moveToOwnThread(): the test "a thread / worker exists already" and the creation it guards form one critical section: the test is made with the
    hand-off mutex held and the mutex stays held up to every `new`.  A test made before the mutex is taken (and not repeated inside) lets two callers
    both pass it and both create a thread and a worker: two logger threads run the handler at the same time and FIFO delivery is lost."""
    F = ck.facts
    mv = [f for f in F.fns.values() if f.cls == cls and f.name == cls + "::moveToOwnThread"]
    ck.require(len(mv) == 1, "%s: moveToOwnThread not found" % tag)
    mv = F.flat(mv[0])
    ck.touch(mv)
    g = Graph(mv)
    lf = LockFlow(F, mv, g)
    T, W, M = OT + "::m_thread", OT + "::m_worker", OT + "::m_mutex"
    held = lambda k: any(m == M for m, _ in lf.IN.get(k, ()))
    news = [x for x in mv.find(lambda y: y.get("k") == "new")]
    tests = []
    for n in mv.all_nodes():
        if n.get("k") in ("if", "while", "cond") and isinstance(n.get("cond"), dict):
            for x in walk(n["cond"]):
                if is_this_field(x, T) or is_this_field(x, W):
                    k = g.site_of(x)
                    if k is not None:
                        tests.append((x, k))
    if not news or not tests:
        ck.ob(rule, sitestr(mv), None, "%s: moveToOwnThread: %d creations, %d tests of the thread / worker pointer" % (tag, len(news), len(tests)), key="moveToOwnThread|check-then-create")
        return
    for c in news:
        cs = g.site_of(c)
        ok = False
        for x, k in tests:
            if not held(k) or not g.dominated(cs, {k}):
                continue
            between = [q for q in g.reach([k]) if q == cs or g.can_reach(q, cs)]
            if all(held(q) for q in between):
                ok = True
                break
        ck.ob(rule, sitestr(mv, c), ok, "%s: `%s` is guarded by a test of the thread / worker pointer made under the hand-off mutex, which stays held up to the creation" % (tag, describe(c)[:30]) if ok else
              "%s: `%s` is not guarded by a test of the thread / worker pointer made under the same critical section (check-then-act): two callers of moveToOwnThread() both pass the unlocked test, are serialised "
              "by the mutex and both create a thread and a worker - two logger threads run the handler at the same time, messages posted to the first worker are overtaken, and resetOwnThread() stops only the second" % (tag, describe(c)[:30]),
              key="moveToOwnThread|check-then-create")


def mode_predicates_agree(ck, cls, tag, rule):
    """two unlocked observers decide "asynchronous or not": process() by the worker pointer (under the mutex), Logger::processMessage() - for the flush of a
    fatal message - by ownThreadIsRunning() (the thread object, no mutex).  They agree as long as the stop never lets go of the mutex between "the worker is
    gone" and "the thread has stopped": resetOwnThread() either clears the worker pointer after wait() has returned, or keeps the mutex from the clear to the wait."""
    F = ck.facts
    rs = [f for f in F.fns.values() if f.cls == cls and f.name == cls + "::resetOwnThread"]
    ck.require(len(rs) == 1, "%s: resetOwnThread not found" % tag)
    rs = F.flat(rs[0])
    ck.touch(rs)
    g = Graph(rs)
    lf = LockFlow(F, rs, g)
    W, M = OT + "::m_worker", OT + "::m_mutex"
    clears = [n for n in rs.find(lambda n: n.get("k") == "binop" and n.get("op") == "=" and is_this_field(n.get("lhs"), W) and skip_copies(n.get("rhs")).get("k") == "null_lit")]
    clears += [n for n in rs.calls() if n.get("ck") == "member" and is_this_field(n.get("obj"), W) and name_is(n.get("callee"), ("clear", "reset"))]
    waits = [n for n in rs.calls("QThread::wait")]
    if not clears or not waits:
        ck.ob(rule, sitestr(rs), None, "%s: resetOwnThread: clear / wait anchors not found (%d/%d)" % (tag, len(clears), len(waits)), key="resetOwnThread|mode-window")
        return
    wsites = set(g.sites_of_nodes(waits))
    for c in clears:
        cs = g.site_of(c)
        if g.dominated(cs, wsites):
            ck.ob(rule, sitestr(rs, c), True, "%s: the worker pointer is cleared after wait() has returned: whenever process() runs synchronously the thread has stopped, so a fatal message is flushed" % tag, key="resetOwnThread|mode-window")
            continue
        region = g.reach([cs], blocked=wsites)
        free = sorted(k for k in region if k != g.exit and not any(m == M for m, _ in lf.IN.get(k, ())))
        ck.ob(rule, sitestr(rs, c), not free, "%s: the mutex is held from the clearing of the worker pointer until wait()" % tag if not free else
              "%s: the worker pointer is cleared and the mutex released while the thread is still running: in that window process() already runs the pipeline in the caller's thread, but ownThreadIsRunning() "
              "is still true, so Logger::processMessage() skips the flush of a fatal message - the record and everything buffered before it are lost when Qt aborts" % tag, key="resetOwnThread|mode-window")


def shared_instances_guard_their_state(ck, F, rid):
    """a handler class that hands out one process-wide object (a static accessor returning a static) is shared by pipelines that lock independently:
    whatever its per-message code writes in the object is written under a lock that belongs to the object"""
    from engine.locks import LockFlow, MUTEX_CLASSES
    n_cls = 0
    for q, rec in sorted(F.records.items()):
        if not q.startswith("QtLogger::") or "<" in q:
            continue
        fam = F.superclasses(q) if hasattr(F, "superclasses") else set()
        acc = [f for f in F.fns.values() if f.cls == q and f.d.get("static") and f.body is not None and not f.params]
        acc = [f for f in acc if any("static" in _origin(F, f, r.get("e")) for r in returns(f))]
        if not acc:
            continue
        bases = set()
        todo = [q]
        while todo:
            for b_ in (F.records.get(todo.pop()) or {}).get("bases", []):
                if b_["type"] not in bases:
                    bases.add(b_["type"])
                    todo.append(b_["type"])
        if "QtLogger::Handler" not in bases or "QtLogger::Pipeline" in bases:
            continue            # pipelines (the Logger) are guarded by their own mutex: C02-O1..O4
        n_cls += 1
        short = q.split("::")[-1]
        fields = [fl for fl in rec.get("fields", []) if not fl.get("static")]
        mutexes = {q + "::" + fl["name"] for fl in fields if strip_tmpl((fl.get("type") or "").replace("mutable ", "")) in MUTEX_CLASSES}
        roots = [f for f in F.fns.values() if f.cls == q and f.body is not None and f.name.split("::")[-1] in ("process", "format", "filter", "send", "attributes", "flush")]
        reach = F.reachable_from(roots, virtual=False) if roots else set()
        bad, n_w = [], 0

        def called_under_lock(fn_, depth):
            """a helper of the class that is only ever called with the object's lock held (every call site reachable from the entry points)"""
            if depth > 3 or fn_.id in {r_.id for r_ in roots}:
                return False
            sites = [(g_, c_) for g_ in (F.fns.get(i_) for i_ in reach) if g_ is not None and g_.body is not None for c_ in g_.calls() if c_.get("fn") == fn_.id]
            if not sites:
                return False
            for g_, c_ in sites:
                gg = Graph(g_)
                lf_ = LockFlow(F, g_, gg)
                k_ = gg.site_of(c_)
                h_ = {m for m, _ in lf_.IN.get(k_, ())} if k_ is not None else set()
                if not (h_ & mutexes) and not called_under_lock(g_, depth + 1):
                    return False
            return True
        for fl in fields:
            fq = q + "::" + fl["name"]
            if fq in mutexes:
                continue
            for f_, n_, how_ in field_writes(F, fq):
                if how_ == "ctor-init" or f_.id not in reach or f_.d.get("kind") in ("ctor", "dtor"):
                    continue
                n_w += 1
                ff = F.flat(f_) if hasattr(F, "flat") else f_
                g = Graph(f_)
                lf = LockFlow(F, f_, g)
                k = g.site_of(n_)
                held = {m for m, _ in lf.IN.get(k, ())} if k is not None else set()
                if not (held & mutexes) and not called_under_lock(f_, 0):
                    bad.append((f_, n_, fl["name"]))
        for f_, n_, nm in bad[:3]:
            ck.ob(rid, sitestr(f_, n_), False, "%s::instance() hands one %s to every pipeline that asks for it, and %s writes its member %s without holding a lock of the object: two pipelines (an installed logger "
                  "and a second one) lock independently and run this code at the same time" % (short, short, strip_tmpl(f_.name).split("::")[-1] + "()", nm), key="shared-instance|%s|%s" % (short, nm))
        if not bad:
            ck.ob(rid, "%s (class %s)" % ((rec.get("file") or "").split("/src/")[-1], short), True, "%s hands out a process-wide object; its per-message code writes %d member%s, %s" %
                  (short, n_w, "" if n_w == 1 else "s", "all under the object's own lock" if n_w else "none"), key="shared-instance|%s" % short)
    ck.require(n_cls >= 3, "only %d handler classes with a process-wide instance() found (4 confirmed by hand)" % n_cls)



def msgtype_tables_by_cases(F):
    """(type -> name, name -> type) of qtMsgTypeToString / stringToQtMsgType, evaluated on the source for the five message types and the five
    documented names (engine/conc.py) - independent of whether the functions are a table, a switch or an if-chain.  A side that cannot be
    evaluated is None."""
    from engine.conc import Conc, Unknown
    en = {e["name"]: e["value"] for e in F.enums["QtMsgType"]["enumerators"] if e["name"] in ("QtDebugMsg", "QtInfoMsg", "QtWarningMsg", "QtCriticalMsg", "QtFatalMsg")}
    ts = F.fn("QtLogger::qtMsgTypeToString", flat=False)
    st = F.fn("QtLogger::stringToQtMsgType", flat=False)
    to_name, to_type = {}, {}
    try:
        for nm, v in en.items():
            r = Conc(F).call_fn(ts, [v], {})
            if not isinstance(r, str):
                raise Unknown("not a string")
            to_name[v] = r
    except Unknown:
        to_name = None
    except Exception:
        to_name = None
    try:
        for name in ("debug", "info", "warning", "critical", "fatal", "no-such-type"):
            args = [name] + ([en["QtDebugMsg"]] if len(st.params) > 1 else [])
            r = Conc(F).call_fn(st, args, {})
            if not isinstance(r, int):
                raise Unknown("not an integer")
            to_type[name] = r
    except Unknown:
        to_type = None
    except Exception:
        to_type = None
    return to_name, to_type


def metatype_registered(ck, F, rid):
    """LogMessage is a registered meta-type, under the name moc records for the signal's parameter, on every path of a constructor every logger goes through"""
    from engine.cfg import Graph

    def json_dumps_small(n):
        return " ".join(str(n.get(k, "")) for k in ("callee", "sig", "type", "fn"))
    regs = []
    for f_ in F.fns.values():
        if f_.body is None or not in_lib(f_.file):
            continue
        for n_ in f_.calls():
            if "qRegisterMetaType" in (n_.get("callee") or "") and "LogMessage" in (n_.get("callee") or "") + (n_.get("sig") or "") + (n_.get("type") or "") + json_dumps_small(n_):
                regs.append((f_, n_))
    ok_reg = []
    for f_, n_ in regs:
        ctor = f_.d.get("kind") == "ctor" and (strip_tmpl(f_.cls or "") == OT or (f_.cls or "").endswith("SignalSink"))
        g_ = Graph(f_)
        site = g_.site_of(n_)
        if site is None:
            for a_ in f_.ancestors(n_):
                if a_.get("k") == "decl" and g_.site_of(a_) is not None:
                    site = g_.site_of(a_)
                    break
        if ctor and site is not None and g_.must_pass({site}):
            ok_reg.append(f_)
    if not regs:
        ck.ob(rid, "src/qtlogger", False, "LogMessage is never registered as a meta-type: SignalSink cannot deliver across threads", key="metatype|unregistered")
    else:
        f0, n0 = regs[0]
        ck.ob(rid, sitestr(f0, n0), bool(ok_reg), "LogMessage is registered as a meta-type in %s, on every path" % ok_reg[0].name.split("::")[-1] if ok_reg else
              "LogMessage is registered as a meta-type only in %s: a synchronous logger whose SignalSink receiver lives in another thread drops the messages of every other thread "
              "(Qt cannot queue the argument)" % sorted({f_.name.split("::")[-1] for f_, _ in regs}), key="metatype|registered-late")
    # ... and under the name Qt looks up: moc records the parameter of SignalSink::message() as "QtLogger::LogMessage"; a registration with another spelling
    # (qRegisterMetaType<LogMessage>("LogMessage")) registers a type that a queued connection never asks for
    for f_, n_ in regs:
        names = [const_str(a_) for a_ in n_.get("args", []) if a_.get("k") != "defaultarg" and const_str(a_) is not None]
        odd = [x for x in names if x.replace("::QtLogger::", "QtLogger::") != "QtLogger::LogMessage"]
        ck.ob(rid, sitestr(f_, n_), not odd, "registered under the type's own name" if not odd else
              "LogMessage is registered as %r only: a queued signal asks for \"QtLogger::LogMessage\" (the spelling moc records), finds nothing and the message is dropped with "
              "'Cannot queue arguments'" % odd[0], key="metatype|name")
