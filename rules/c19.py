"""C19 — configuration front-ends build the documented pipeline (DESIGN.md section 3, C19)."""
import itertools
import os
import re

from engine.util import *
from engine.extract import REPO

LEVEL = "other"
MIN_OBLIGATIONS = 40
THOROUGH_CONFIGS = ("headeronly",)
TECHNIQUE = "INI key table extracted from settings.value() calls vs the Markdown reference tables; construction table by CFG reachability under every truth assignment of each key's guard; append order by dominance; sibling predicate agreement; handler install/restore protocol by projection; global rule: no function-local static initialised from a parameter; construction-parameter agreement of the fallback formatter with PrettyFormatter::instance() (constructor defaults from the fact base); front-end forwarding rule (every parameter used, same-named parameters forwarded); INI numbers keep their meaning for the sink (by cases over the sink's classes); no virtual dispatch from base-class constructors / destructors to methods a library subclass overrides; LogMessage null / empty text rules shared; every escape sequence in the string literals of the pretty formatter's code is one the stripping expression removes; no verdict memo keyed by a C-string address (also inside pair / tuple keys) in the filters the front-ends build; a settings read inside a spliced phase function is part of configure(), only an accessor hands the read out"
LEVEL_TEXT = ("Decides for every combination of the INI keys and configure() arguments which handler objects are created, with which arguments and in which order, by enumerating "
              "the truth assignments of each guard on the CFG (not by running configure), and compares the key table (names, types, defaults) with docs/configuration.md. "
              "The install/restore protocol of the Qt message handler is decided on all paths. End-to-end delivery per configuration is run-time and not decided.")
LEVEL_NOTE = "trusts QSettings::value/QVariant conversions, QSharedPointer::create forwarding, Pipeline::operator<< appending (C01-O7); delivery itself is C01/C05"
DESIGN_REF = "DESIGN.md section 3, C19"
EXPLANATION = ("Static rules over QtLogger::configure (both overloads), SimplePipeline::sendToFile and Logger::install/restorePreviousMessageHandler. Guards are evaluated by "
               "projecting the CFG on every assignment of the guard's atoms (key present / flag set) and testing reachability of each creation site; creation arguments are "
               "traced through single-assignment locals to the settings.value() call of the documented key.")
TRUSTED = ["QSettings::value(key, default) returns the default when the key is absent", "`*pipeline << handler` appends at the end (C01-O7)"]
ASSUMPTIONS = ["the compiled configuration is the cmake default (QTLOGGER_SYSLOG on; NETWORK/SDJOURNAL off)", "PlatformStdSink aliases StdErrSink on this platform (sinks/platformstdsink.h) and is recognised as StdErrSink created without arguments"]
NOT_DECIDED = ["that messages then arrive exactly once per configured output (C01/C02/C05 decide the mechanisms)", "content of the documentation prose outside the reference tables"]

BUILD_OPTION_KEYS = {  # documented keys that are legitimately not read in the compiled configuration (one reason each)
    "sdjournal": "read only under QTLOGGER_SDJOURNAL (cmake option QTLOGGER_JOURNAL, off)",
    "http_url": "read only under QTLOGGER_NETWORK (off)",
    "http_msg_format": "read only under QTLOGGER_NETWORK (off)",
}
LG = "QtLogger::Logger"


def doc_ini_tables():
    p = os.path.join(REPO, "docs", "configuration.md")
    if not os.path.exists(p):
        return None
    txt = open(p, errors="replace").read()
    m = re.search(r"### INI Settings Reference(.*?)\n---", txt, re.S)
    if not m:
        return None
    rows = {}
    for key, typ, desc in re.findall(r"^\|\s*`(\w+)`\s*\|\s*(\w+)\s*\|\s*(.*?)\s*\|\s*$", m.group(1), re.M):
        d = re.search(r"default:\s*(-?\d+)", desc)
        rows[key] = {"type": typ, "default": int(d.group(1)) if d else None, "desc": desc}
    return rows


def created_class(n):
    """class X of `QSharedPointer<X>::create(...)` / `X::instance()`"""
    n = unwrap_ptr(n)
    if not (isinstance(n, dict) and n.get("k") == "call"):
        return None, None
    c = n.get("callee") or ""
    m = re.match(r"^QSharedPointer<(.+)>::create$", c)
    if m:
        return m.group(1), n
    if c.endswith("::instance"):
        return c[:-len("::instance")], n
    return None, n


def pipeline_appends(fn):
    """[(class, create-call, append-node)] for `*pipeline << X` in order of node id"""
    out = []
    pdecl = fn.params[0]["decl"]
    for n in fn.calls():
        if n.get("op") == "<<" and len(n.get("args", [])) == 2 and is_ref_to(unwrap_ptr(n["args"][0]), pdecl):
            cls, c = created_class(n["args"][1])
            # PlatformStdSink is an alias (sinks/platformstdsink.h); on this platform it names StdErrSink, and the alias is
            # not visible in the resolved callee. It is always created without arguments, StdErrSink proper with a colour mode.
            if cls == "QtLogger::StdErrSink" and c is not None and not c.get("args"):
                cls = "QtLogger::PlatformStdSink"
            out.append((cls, c, n))
    return out


def run(ck):
    F = ck.facts
    # filter_rules / regexp_filter decide by the category's text: a verdict memo keyed by the category's address serves another category's verdict as soon as two
    # names share an address (asynchronous copies in recycled buffers, a re-created QLoggingCategory)
    from rules.c03 import no_pointer_identity
    no_pointer_identity(ck, "C19-O9", scope=("CategoryFilter", "RegExpFilter", "LevelFilter"))
    ck.rule("C19-O1", "INI keys read by configure(settings) == documented keys (minus those behind a disabled build option), with the documented types and defaults")
    ck.rule("C19-O2", "each key guards the creation of the documented handler with arguments taken from the documented keys; creation order filters < formatter < sinks < async")
    ck.rule("C19-O3", "one-line configure: pretty(colour) < platform sink < [path: ANSI-stripping formatter < rotating|plain file sink] < async; rotating predicate equals SimplePipeline::sendToFile's")
    ck.rule("C19-O4", "install remembers the displaced handler unless it is ours; restore is a no-op when nothing is remembered, reinstates it, keeps a newer foreign handler, and forgets it")
    ini = F.fn("QtLogger::configure", sig_contains="const QSettings &")
    one = F.fn("QtLogger::configure", sig_contains="const QString &, int, int")
    ck.touch(ini, one)
    ini_rules(ck, ini)
    one_line(ck, one)
    handler_protocol(ck)
    per_call_answers(ck, (ini, one))
    ck.rule("C19-O8", "no constructor or destructor of a library base class calls (directly or through its own non-virtual methods) a virtual method that a subclass overrides")
    no_virtual_dispatch_in_ctor(ck)
    ck.rule("C19-O7", "what an output prints is the formatter's text whenever a formatter ran, the empty text included: formattedMessage()/isFormatted() distinguish 'null' (nothing formatted) from 'empty'")
    from rules.c01 import logmessage
    logmessage(ck, "C19-O7")
    front_ends_forward(ck)


def front_ends_forward(ck):
    """C19-O6: the configuration front-ends are thin wrappers around the two configure() functions; an argument that does not arrive
    there is a setting the caller made and the library ignored."""
    F = ck.facts
    ck.rule("C19-O6", "every configuration front-end (configure*/configureFromIniFile of the library and of Logger) uses each of its parameters, and when it delegates to another front-end, "
                      "a parameter of the callee that has the same name as one of its own receives that parameter (not the callee's default)")
    fes = [f for f in F.fns.values() if f.body is not None and f.name.split("::")[-1] in ("configure", "configureFromIniFile") and (f.name.startswith("QtLogger::configure") or strip_tmpl(f.cls or "") in ("QtLogger::Logger", "QtLogger::SimplePipeline"))]
    ck.require(len(fes) >= 5, "only %d configuration front-ends found (5 confirmed by hand)" % len(fes))
    fe_ids = {f.id for f in fes}
    for f in sorted(fes, key=lambda f: (f.file, f.line, f.sig)):
        ck.touch(f)
        short = f.sig.split("QtLogger::")[-1][:70]
        unused = [p["name"] for p in f.params if p.get("name") and not any(x.get("k") == "ref" and x.get("decl") == p["decl"] for x in f.all_nodes())]
        ck.ob("C19-O6", sitestr(f), not unused, "%s uses all its parameters" % short if not unused else "%s ignores its parameter %s: whatever the caller passes, the logger is configured as if it had not" % (short, ", ".join(unused)),
              key="front-end|unused|%s" % f.name.split("::")[-1])
        mine = {p["name"]: p["decl"] for p in f.params if p.get("name")}
        for c in f.calls():
            callee = F.fns.get(c.get("fn"))
            if callee is None or callee.id not in fe_ids or callee.id == f.id:
                continue
            args = c.get("args", [])
            for i, p in enumerate(callee.params):
                nm = p.get("name")
                if nm not in mine:
                    continue
                a = args[i] if i < len(args) else None
                passed = isinstance(a, dict) and a.get("k") != "defaultarg" and any(x.get("k") == "ref" and x.get("decl") == mine[nm] for x in walk(a))
                ck.ob("C19-O6", sitestr(f, c), passed, "%s passes its %s on to %s" % (short, nm, callee.name.split("QtLogger::")[-1]) if passed else
                      "%s calls %s with %s for `%s` instead of its own `%s`" % (short, callee.name.split("QtLogger::")[-1], "the default" if (a is None or a.get("k") == "defaultarg") else describe(a)[:40], nm, nm),
                      key="front-end|forward|%s|%s" % (f.name.split("::")[-1], nm))


def per_call_answers(ck, roots):
    """what a key configures is decided per handler: nothing on the way from configure() to the sinks answers from a
    function-local static that was initialised from the first caller's argument (stdout's terminal test reused for stderr)"""
    F = ck.facts
    ck.rule("C19-O5", "no library function keeps a function-local static initialised from its own parameter (one shared answer for every stream / mode / name, fixed by the first caller)")
    # handlers are constructed through QSharedPointer<T>::create (a template the call graph does not enter), so the scope is every
    # function of the library: the rule is a global one
    ids = [f.id for f in F.fns.values() if f.body is not None and in_lib(f.file)]
    n = 0
    bad = 0
    for i in sorted(ids):
        f = F.fns.get(i)
        if f is None or f.body is None:
            continue
        n += 1
        for d, v in statics_from_params(f):
            bad += 1
            ck.touch(f)
            ck.ob("C19-O5", sitestr(f, d), False, "%s(): `static %s` is initialised from the parameter of the first call and returned to every later caller: the answer for one stream / mode is reused for the other "
                  "(e.g. stderr coloured according to whether stdout is a terminal)" % (f.name.split("::")[-1], v.get("name")), key="static-from-param|%s" % f.name.split("::")[-1])
    ck.require(n >= 250, "only %d library functions examined (307 on the tree the rule was written for)" % n)
    if not bad:
        ck.ob("C19-O5", "(all library functions)", True, "%d functions: no function-local static depends on a parameter" % n, key="static-from-param|none")


def settings_reads(fn):
    """{key: {node, default, conv, var}} for settings.value(group + "/key"[, default]).toX() calls"""
    out = {}
    sdecl = fn.params[1]["decl"]
    gdecl = fn.params[2]["decl"]
    for n in fn.calls("QSettings::value"):
        if not is_ref_to(n.get("obj"), sdecl):
            continue
        leaves = concat_leaves(n["args"][0])
        if len(leaves) == 1:
            # the key is a parameter of a spliced accessor (intOption(settings, group + "/key", dflt)): what the caller passed
            leaves = concat_leaves(deref_local(fn, n["args"][0]))

        # a key prefix computed once (`const QString prefix = group + '/'; ... settings.value(prefix + "key")`): the local stands for its pieces
        for _ in range(2):
            ex = []
            for lf_ in leaves:
                l0 = skip_copies(lf_)
                if isinstance(l0, dict) and l0.get("k") == "ref" and l0.get("dk") == "local" and not is_ref_to(l0, gdecl):
                    d0 = deref_local(fn, l0)
                    if isinstance(d0, dict) and skip_copies(d0).get("id") != l0.get("id"):
                        ex += concat_leaves(d0)
                        continue
                ex.append(lf_)
            leaves = ex

        def text_of(x):
            # constant text of a piece, through Qt string wrappers and parameters of a spliced accessor lambda
            x = skip_copies(deref_local(fn, x))
            c = const_str(x)
            if c is not None:
                return c
            if isinstance(x, dict) and x.get("k") == "construct" and len(x.get("args", [])) == 1:
                return text_of(x["args"][0])
            if isinstance(x, dict) and x.get("k") in ("char", "int") and x.get("v") is not None:
                return chr(x["v"])
            return None
        rest = [text_of(x) for x in leaves[1:]]
        if len(leaves) < 2 or not is_ref_to(leaves[0], gdecl) or any(r is None for r in rest) or not "".join(rest).startswith("/"):
            raise AnalysisBroken("settings.value() key %s not of the form group + \"/key\"" % describe(n["args"][0]))
        key = "".join(rest)[1:]
        dflt = skip_copies(deref_local(fn, n["args"][1])) if len(n["args"]) > 1 else None
        dv = None
        if dflt is not None and dflt.get("k") != "defaultarg":
            x = dflt
            while isinstance(x, dict) and x.get("k") == "construct" and x.get("class") == "QVariant" and len(x.get("args", [])) == 1:
                x = skip_copies(x["args"][0])
            dv = const_int(x) if const_int(x) is not None else const_str(x)
        p = fn.nodes.get(fn.parent.get(n["id"]))
        base = n
        if p is not None and p.get("k") == "inl_return":
            # the read sits in an accessor (lambda / helper) that was spliced in: the conversion is applied to its call
            for a_ in fn.ancestors(n):
                if a_.get("k") == "call" and a_.get("inl_body") is not None:
                    base = a_
                    p = fn.nodes.get(fn.parent.get(a_["id"]))
                    break
        conv = (p.get("callee") or "").split("::")[-1] if p is not None and p.get("k") == "call" and p.get("ck") == "member" and skip_copies(p.get("obj")).get("id") == base["id"] else None
        var = None
        top = p if conv else base
        # the whole read (value + conversion) sits in a spliced helper - intOption(settings, group + "/key", dflt): the value the caller sees is the
        # helper's result, whatever it does with a missing / zero / malformed setting
        outer = None
        in_return = False
        for a in fn.ancestors(top):
            if a.get("k") == "inl_return":
                in_return = True
            if a.get("k") == "call" and a.get("inl_body") is not None:
                # an accessor hands the read out as its result; a phase function (configureFilters(pipeline, settings, group)) that reads the
                # setting into a local of its own and goes on to use it is just a piece of configure()
                if in_return:
                    outer = a
                in_return = False
        inner = None
        if outer is not None and outer.get("id") != top.get("id"):
            inner, top = top, outer
        for a in fn.ancestors(top):
            if a.get("k") == "decl":
                var = a["vars"][0]["decl"]
                break
        out[key] = {"node": n, "default": dv, "conv": conv, "var": var, "expr": top, "inner": inner}
    return out


def ini_rules(ck, fn):
    F = ck.facts
    g = Graph(fn)
    reads = settings_reads(fn)
    # every QSettings::value() call of the configuration unit must be one of the recognised reads; otherwise the keys are read
    # through something the rule does not follow (an accessor object, a template) and "key never read" would be a guess
    seen_sites = {(r["node"].get("l"), r["node"].get("c")) for r in reads.values()}
    # "of the configuration unit": what configure() itself reaches (helpers, lambdas, accessor objects) — in the header-only configuration
    # every function of the library lives in one file, so the file is no criterion
    reach_ = F.reachable_from([fn], virtual=False)
    unit_fns = [f_ for f_ in F.fns.values() if f_.body is not None and (f_.id in reach_ or f_.lambda_of in reach_ or
                ((f_.file or "") == (fn.file or "") and not (fn.file or "").endswith("/qtlogger.h")))]
    all_sites = {(n.get("l"), n.get("c")) for f_ in unit_fns for n in f_.calls("QSettings::value")}
    stray = sorted(all_sites - seen_sites)
    if stray:
        raise AnalysisBroken("settings are read at %d site(s) the rule does not follow (e.g. line %s): through an accessor object or a helper that is not spliced" % (len(stray), stray[0][0]))
    docs = doc_ini_tables()
    ck.require(docs is not None and len(docs) >= 15, "INI Settings Reference tables not found in docs/configuration.md")
    CONV = {"toString": "string", "toBool": "bool", "toInt": "int"}
    for key, r in sorted(reads.items()):
        d = docs.get(key)
        if d is None:
            ck.ob("C19-O1", sitestr(fn, r["node"]), False, "key '%s' is read but not documented in the INI reference" % key, key="ini|undocumented|%s" % key)
            continue
        t = CONV.get(r["conv"])
        ck.ob("C19-O1", sitestr(fn, r["node"]), t == d["type"], "'%s' read as %s (documented %s)" % (key, t, d["type"]), key="ini|type|%s" % key)
        if d["default"] is not None:
            # a read inside a helper that supplies the default itself (no default argument at the value() call) is not a wrong default
            okd = r["default"] == d["default"]
            ck.ob("C19-O1", sitestr(fn, r["node"]), okd if (okd or r["default"] is not None or r.get("inner") is None) else None, "'%s' default %s (documented %s)" % (key, r["default"], d["default"]), key="ini|default|%s" % key)
    for key in sorted(docs):
        if key not in reads:
            why = BUILD_OPTION_KEYS.get(key)
            ck.ob("C19-O1", "docs/configuration.md ('%s')" % key, why is not None, "documented key '%s' is not read: %s" % (key, why) if why else "documented key '%s' is never read by configure()" % key,
                  key="ini|unread|%s" % key)
    ck.require(len(reads) >= 16, "only %d INI keys are read (16 confirmed by hand)" % len(reads))
    # implied defaults (the statement's 'platform log' is on unless disabled; everything else off)
    for key, want in (("platform_std_log", 1), ("stdout", 0), ("stdout_color", 0), ("stderr", 0), ("stderr_color", 0), ("async", 0), ("rotate_daily", 0), ("compress_old_files", 0)):
        if key in reads:
            ck.ob("C19-O1", sitestr(fn, reads[key]["node"]), reads[key]["default"] == want, "'%s' defaults to %s" % (key, bool(want)) if reads[key]["default"] == want else
                  "'%s' defaults to %s, the documented example/behaviour is %s" % (key, reads[key]["default"], bool(want)), key="ini|default|%s" % key)

    # text settings reach their handler verbatim: between settings.value(key) and the variable the handler is created from there is the conversion to
    # QString and nothing else, and the variable is not edited afterwards ("sanitising" a rule list or an expression makes it another one)
    EDITS = ("trimmed", "simplified", "toLower", "toUpper", "toCaseFolded", "left", "right", "mid", "chopped", "section", "normalized", "remove", "replace", "arg", "toHtmlEscaped", "repeated")
    MUTS = ("replace", "remove", "append", "prepend", "insert", "chop", "truncate", "resize", "clear", "fill", "operator+=", "operator=", "push_back", "squeeze_")
    for key, r in sorted(reads.items()):
        if r["conv"] != "toString" or r["var"] is None:
            continue
        chain = []
        for a in fn.ancestors(r["node"]):
            if a.get("k") == "decl":
                break
            if a.get("k") == "call" and a.get("ck") == "member" and strip_tmpl(a.get("callee") or "").split("::")[-1] in EDITS:
                chain.append(strip_tmpl(a.get("callee") or "").split("::")[-1])
        muts = sorted({strip_tmpl(c_.get("callee") or "").split("::")[-1] for c_ in fn.calls() if c_.get("ck") in ("member", "operator") and
                       is_ref_to((c_.get("obj") if c_.get("ck") == "member" else (c_.get("args") or [None])[0]), r["var"]) and strip_tmpl(c_.get("callee") or "").split("::")[-1] in MUTS})
        bad_ = chain + muts
        ck.ob("C19-O2", sitestr(fn, r["node"]), not bad_, "'%s' reaches its handler as configured" % key if not bad_ else
              "the value of '%s' is edited (%s) before the handler is built from it: the handler works with another %s than the one configured - leading / trailing blanks, a ':' or an upper-case letter "
              "can be part of a regular expression, a category name or a pattern" % (key, ", ".join(bad_), "text"), key="ini|text|%s" % key)
    apps = pipeline_appends(fn)
    by_cls = {}
    for cls, c, n in apps:
        if cls is None:
            ck.ob("C19-O2", sitestr(fn, n), None, "unrecognised handler expression %s" % describe(n)[:80])
            continue
        by_cls.setdefault(cls.replace("QtLogger::", ""), []).append((c, n))

    def var_of(key):
        return reads[key]["var"] if key in reads else None

    pparam = fn.params[0]["decl"]

    def atom_for(assign):
        """assign: {key: bool}; string keys: True = non-empty; the pipeline pointer is non-null"""
        def atom(n):
            if n.get("k") == "ref" and n.get("decl") == pparam:
                return True
            for key, val in assign.items():
                if key not in reads:
                    continue
                v = var_of(key)
                if n.get("id") == reads[key]["expr"]["id"] and reads[key]["conv"] != "toString":
                    return val
                if v is None:
                    continue
                if reads[key]["conv"] == "toString":
                    if is_call(n, "QString::isEmpty") and is_ref_to(skip_copies(n).get("obj"), v):
                        return not val
                else:
                    if n.get("k") == "ref" and n.get("decl") == v:
                        return val
                    if n.get("id") == reads[key]["expr"]["id"]:
                        return val
            return None
        return atom

    def check_guard(cls, keys, pred, what, argcheck=None, count=1):
        ent = by_cls.get(cls, [])
        if len(ent) != count:
            ck.ob("C19-O2", sitestr(fn), False if len(ent) < count else None, "%s is created at %d sites (expected %d)" % (cls, len(ent), count), key="ini|create-count|%s" % cls)
            return None
        c, n = ent[0]
        site = g.site_of(n)
        bad = []
        for vals in itertools.product((False, True), repeat=len(keys)):
            assign = dict(zip(keys, vals))
            keep = g.projector(atom_for(assign))
            live = site in g.live(keep)
            must = g.must_pass({site}, keep=keep)
            want = pred(*vals)
            if (live, must) != (want, want):
                bad.append("%s -> created:%s always:%s (expected %s)" % (assign, live, must, want))
        ck.ob("C19-O2", sitestr(fn, n), not bad, "%s created iff %s" % (cls, what) if not bad else "%s guard wrong: %s" % (cls, bad[:3]), key="ini|guard|%s" % cls)
        ck.ob("C19-O2", sitestr(fn, n), not g.in_cycle(site), "%s appended at most once" % cls, key="ini|once|%s" % cls)
        if argcheck:
            argcheck(c, n)
        return site

    def arg_is_key(c, idx, key):
        a = c.get("args", [])
        return idx < len(a) and var_of(key) is not None and is_ref_to(a[idx], var_of(key))

    order = []
    s = check_guard("CategoryFilter", ["filter_rules"], lambda a: a, "filter_rules is non-empty",
                    lambda c, n: ck.ob("C19-O2", sitestr(fn, n), arg_is_key(c, 0, "filter_rules"), "CategoryFilter(filter_rules)", key="ini|arg|CategoryFilter"))
    order.append(("CategoryFilter", s))
    s = check_guard("RegExpFilter", ["regexp_filter"], lambda a: a, "regexp_filter is non-empty",
                    lambda c, n: ck.ob("C19-O2", sitestr(fn, n), arg_is_key(c, 0, "regexp_filter"), "RegExpFilter(regexp_filter)", key="ini|arg|RegExpFilter"))
    order.append(("RegExpFilter", s))
    s1 = check_guard("PatternFormatter", ["message_pattern"], lambda a: a, "message_pattern is non-empty",
                     lambda c, n: ck.ob("C19-O2", sitestr(fn, n), arg_is_key(c, 0, "message_pattern"), "PatternFormatter(message_pattern)", key="ini|arg|PatternFormatter"))
    def default_format(c, n):
        # no message_pattern: the library's default text format, i.e. what PrettyFormatter::instance() produces — the object itself or
        # a formatter constructed with the same parameters (colour, category column width)
        from rules.oth import construction_tuple
        inst = F.fn("QtLogger::PrettyFormatter::instance", optional=True)
        ref = None
        if inst is not None:
            ic = [x for x in inst.calls() if (x.get("callee") or "").startswith("QSharedPointer<QtLogger::PrettyFormatter>::create")]
            ref = construction_tuple(F, "QtLogger::PrettyFormatter", ic[0], inst) if len(ic) == 1 else None
        got = construction_tuple(F, "QtLogger::PrettyFormatter", c, fn)
        if ref is None or got is None:
            ck.ob("C19-O2", sitestr(fn, n), None, "default format: construction parameters of the formatter (%s) or of PrettyFormatter::instance() (%s) could not be tabulated" % (got, ref), key="ini|arg|PrettyFormatter")
        else:
            ck.ob("C19-O2", sitestr(fn, n), got == ref, "no message_pattern: the default format %s" % dict(ref) if got == ref else
                  "no message_pattern: the formatter is built with %s, the library's default format (PrettyFormatter::instance()) with %s" % (dict(got), dict(ref)), key="ini|arg|PrettyFormatter")
    s2 = check_guard("PrettyFormatter", ["message_pattern"], lambda a: not a, "message_pattern is empty", default_format)
    order.append(("formatter", s1))
    order.append(("formatter", s2))

    def color_arg(colorkey):
        def chk(c, n):
            a = c.get("args", [])
            v = var_of(colorkey)
            isv = lambda x: x.get("k") == "ref" and x.get("decl") == v
            got = {}
            for val in (True, False):
                leaf = resolve_value(a[0], atom_eq(isv, val), fn) if a else None
                got[val] = (leaf.get("name") or "").split("::")[-1] if isinstance(leaf, dict) and leaf.get("k") == "ref" else describe(leaf)
            ok = got == {True: "Auto", False: "Never"}
            ck.ob("C19-O2", sitestr(fn, n), ok, "colour mode: %s ? Auto : Never" % colorkey if ok else "colour mode by %s: %s" % (colorkey, got), key="ini|arg|%s" % colorkey)
        return chk
    s = check_guard("StdOutSink", ["stdout", "stdout_color"], lambda a, b: a or b, "stdout or stdout_color", color_arg("stdout_color"))
    order.append(("sink", s))
    s = check_guard("StdErrSink", ["stderr", "stderr_color"], lambda a, b: a or b, "stderr or stderr_color", color_arg("stderr_color"))
    order.append(("sink", s))
    s = check_guard("PlatformStdSink", ["platform_std_log"], lambda a: a, "platform_std_log")
    order.append(("sink", s))
    if "SyslogSink" in by_cls or "syslog_ident" in reads:
        s = check_guard("SyslogSink", ["syslog_ident"], lambda a: a, "syslog_ident is non-empty",
                        lambda c, n: ck.ob("C19-O2", sitestr(fn, n), arg_is_key(c, 0, "syslog_ident"), "SyslogSink(syslog_ident)", key="ini|arg|SyslogSink"))
        order.append(("sink", s))

    def rot_args(c, n):
        ok = arg_is_key(c, 0, "path") and arg_is_key(c, 1, "max_file_size") and arg_is_key(c, 2, "max_file_count")
        ck.ob("C19-O2", sitestr(fn, n), ok, "RotatingFileSink(path, max_file_size, max_file_count, options)" if ok else "RotatingFileSink arguments %s" % [describe(a) for a in c.get("args", [])],
              key="ini|arg|RotatingFileSink")
        # the numbers reach the sink with their meaning: the sink reads a count <= 0 as "keep every rotated file", 1 as "never rotate", a size
        # <= 0 as "no rotation by size" — a front-end that "sanitises" them (clamping to a minimum) turns one setting into another
        from engine.conc import Conc, Unknown
        for key_, cls_of in (("max_file_count", lambda v: "keep-all" if v <= 0 else "no-rotation" if v == 1 else v), ("max_file_size", lambda v: "off" if v <= 0 else v)):
            if key_ not in reads or reads[key_]["var"] is None:
                continue
            dv_ = [v_ for dn_ in fn.find(lambda x: x.get("k") == "decl") for v_ in dn_.get("vars", []) if v_.get("decl") == reads[key_]["var"]]
            if len(dv_) != 1 or not isinstance(dv_[0].get("init"), dict):
                continue
            init_ = dv_[0]["init"]
            rid_ = reads[key_]["expr"]["id"]
            inner_ = reads[key_].get("inner")
            if inner_ is not None:
                # evaluate the helper itself: the leaf is the read inside it (same source position in the helper's own body)
                pos_ = (inner_.get("l"), inner_.get("c"), inner_.get("callee"))
                rid_ = None
            if inner_ is None and skip_copies(init_).get("id") == rid_:
                ck.ob("C19-O2", sitestr(fn, reads[key_]["node"]), True, "%s reaches the sink as read" % key_, key="ini|value|%s" % key_)
                continue
            wrong = []
            try:
                for v in (-5, -1, 0, 1, 2, 5, 1024, 1048576):
                    got = Conc(F, leaf=lambda n_, env_, v=v: v if (rid_ is not None and n_.get("id") == rid_) or
                               (inner_ is not None and n_.get("k") == "call" and (n_.get("l"), n_.get("c"), n_.get("callee")) == pos_) else None).eval(init_, {"__fn__": fn})
                    if not isinstance(got, int) or cls_of(got) != cls_of(v):
                        wrong.append("%s = %d reaches the sink as %s" % (key_, v, got))
            except Unknown as e_:
                ck.ob("C19-O2", sitestr(fn, reads[key_]["node"]), None, "%s is transformed before it reaches the sink (%s) in a way that could not be tabulated: %s" % (key_, describe(init_)[:50], e_), key="ini|value|%s" % key_)
                continue
            ck.ob("C19-O2", sitestr(fn, reads[key_]["node"]), not wrong, "%s is transformed (%s) without changing what it means to the sink" % (key_, describe(init_)[:40]) if not wrong else
                  "%s (count <= 0 means 'keep every rotated file', 1 'never rotate'; size <= 0 'no rotation by size')" % "; ".join(wrong[:3]), key="ini|value|%s" % key_)
        a = c.get("args", [])
        o = skip_copies(a[3]) if len(a) > 3 else None
        if not (isinstance(o, dict) and o.get("k") == "ref" and o.get("dk") == "local"):
            ck.ob("C19-O2", sitestr(fn, n), None, "options argument is not a local")
            return
        odecl = o["decl"]
        _, ov = local_var(fn, odecl)
        base = const_int(ov.get("init")) if ov else None
        ors = []
        for r in refs_to(fn, odecl):
            p = fn.nodes.get(fn.parent.get(r["id"]))
            if p is not None and p.get("k") == "call" and p.get("op") == "|=" and p["args"][0].get("id") == r["id"]:
                ors.append((p, const_int(p["args"][1])))
            elif p is not None and p.get("id") == c.get("id"):
                pass
            elif p is not None and (write_kind(fn, r) or assignment_target(fn, r)[0] is not None):
                ck.ob("C19-O2", sitestr(fn, r), None, "options modified by an unrecognised construct")
                return
        en = F.enums.get("QtLogger::RotatingFileSink::Option")
        ck.require(en is not None, "enum RotatingFileSink::Option not found")
        ev = {e["name"]: e["value"] for e in en["enumerators"]}
        bad = []
        keys = ["rotate_on_startup", "rotate_daily", "compress_old_files"]
        csite = g.site_of(n)
        for vals in itertools.product((False, True), repeat=3):
            assign = dict(zip(keys, vals))
            assign["path"] = True
            keep = g.projector(atom_for(assign))
            live = g.live(keep)
            got = base or 0
            for p, v in ors:
                ps = g.site_of(p)
                if ps in live:
                    if v is None or not g.dominated(csite, {ps}, keep=keep):
                        got = None
                        break
                    got |= v
            want = (ev["RotationOnStartup"] if vals[0] else 0) | (ev["RotationDaily"] if vals[1] else 0) | (ev["Compression"] if vals[2] else 0)
            if got != want:
                bad.append("%s -> %s (expected %s)" % (dict(zip(keys, vals)), got, want))
        ck.ob("C19-O2", sitestr(fn, n), not bad, "8/8 combinations of rotate_on_startup / rotate_daily / compress_old_files give the documented option flags" if not bad else
              "option flags wrong: %s" % bad[:3], key="ini|options-flags")
    s = check_guard("RotatingFileSink", ["path"], lambda a: a, "path is non-empty", rot_args)
    order.append(("sink", s))
    # async
    mv = [n for n in fn.calls() if name_is(strip_tmpl(n.get("callee") or ""), "QtLogger::OwnThreadHandler::moveToOwnThread")]
    if ck.config != "nothread":
        if len(mv) != 1:
            ck.ob("C19-O2", sitestr(fn), False if not mv else None, "moveToOwnThread() called at %d sites" % len(mv), key="ini|async-missing")
        else:
            site = g.site_of(mv[0])
            o = skip_copies(mv[0].get("obj"))
            src = deref_local(fn, o)
            okc = isinstance(src, dict) and src.get("k") == "cast" and "Dynamic" in (src.get("ck") or "") and \
                (is_ref_to(src.get("e"), fn.params[0]["decl"]) or is_ref_to(skip_copies(deref_local(fn, src.get("e"))), fn.params[0]["decl"]))
            isptr = (lambda n, d=o.get("decl"): n.get("k") == "ref" and n.get("decl") == d) if o.get("k") == "ref" else (lambda n: False)
            res = {}
            for a in (False, True):
                for okcast in (False, True):
                    at = atom_for({"async": a})
                    keep = g.projector(lambda n, at=at, okcast=okcast: at(n) if at(n) is not None else (okcast if isptr(n) else None))
                    res[(a, okcast)] = (site in g.live(keep), g.must_pass({site}, keep=keep))
            ok = okc and res[(True, True)] == (True, True) and not res[(False, True)][0] and not res[(False, False)][0] and not res[(True, False)][0]
            ck.ob("C19-O2", sitestr(fn, mv[0]), ok, "async -> moveToOwnThread() on the pipeline when it is an own-thread handler" if ok else "async guard: %s, cast ok: %s" % (res, okc), key="ini|guard|async")
            order.append(("async", site))
    # order by dominance of the *decision points*: compare creation sites pairwise with reachability
    rank = {"CategoryFilter": 0, "RegExpFilter": 0, "formatter": 1, "sink": 2, "async": 3}
    sites = [(k, s) for k, s in order if s is not None]
    bad = []
    for (ka, sa), (kb, sb) in itertools.combinations(sites, 2):
        ra, rb = rank[ka], rank[kb]
        if ra < rb and g.can_reach(sb, sa):
            bad.append("%s can be appended after %s" % (ka, kb))
        if rb < ra and g.can_reach(sa, sb):
            bad.append("%s can be appended after %s" % (kb, ka))
    ck.ob("C19-O2", sitestr(fn), not bad, "%d creation sites: filters before the formatter before every sink before async" % len(sites) if not bad else "; ".join(bad[:4]), key="ini|order")
    known = {"CategoryFilter", "RegExpFilter", "PatternFormatter", "PrettyFormatter", "StdOutSink", "StdErrSink", "PlatformStdSink", "SyslogSink", "RotatingFileSink", "SdJournalSink", "HttpSink"}
    for cls in sorted(set(by_cls) - known):
        c, n = by_cls[cls][0]
        ck.ob("C19-O2", sitestr(fn, n), False, "configure(settings) also creates an undocumented handler %s" % cls, key="ini|extra-handler|%s" % cls)


def rotating_predicate(ck, fn, g, rot_site, plain_site, size_decl, opt_decl, base_atom=None):
    """truth table (size>0, startup, daily) -> 'rot' / 'plain' / other"""
    en = ck.facts.enums.get("QtLogger::RotatingFileSink::Option")
    ev = {e["value"]: e["name"] for e in en["enumerators"]}
    table = {}
    for vals in itertools.product((False, True), repeat=3):
        def atom(n, vals=vals):
            if base_atom is not None:
                b = base_atom(n)
                if b is not None:
                    return b
            if n.get("k") == "binop" and n.get("op") in (">", ">=", "!=", "<=", "<", "==") and is_ref_to(n.get("lhs"), size_decl) and const_int(n.get("rhs")) is not None:
                k = const_int(n["rhs"])
                sample = 1 if vals[0] else 0
                # the documented trigger is "size > 0"; evaluate the comparison for a representative positive / zero size
                return bool({">": sample > k, ">=": sample >= k, "!=": sample != k, "<=": sample <= k, "<": sample < k, "==": sample == k}[n["op"]])
            if n.get("k") == "call" and n.get("op") == "&" and len(n.get("args", [])) == 2:
                # mask test: options & (A | B)
                a0, a1 = skip_copies(n["args"][0]), skip_copies(n["args"][1])
                for o, m in ((a0, a1), (a1, a0)):
                    if is_ref_to(o, opt_decl):
                        mask = m.get("cv") if isinstance(m, dict) and "cv" in m else const_int(m)
                        if mask is not None:
                            byname = {nm: v for v, nm in ev.items()}
                            cur = (byname.get("RotationOnStartup", 0) if vals[1] else 0) | (byname.get("RotationDaily", 0) if vals[2] else 0)
                            if cur & mask:
                                return True
                            other = mask & ~(byname.get("RotationOnStartup", 0) | byname.get("RotationDaily", 0))
                            return None if other else False     # a bit outside the documented triggers decides: not a function of the table's inputs
            if is_call(n, "QFlags::testFlag") and is_ref_to(skip_copies(n).get("obj"), opt_decl):
                nm = ev.get(const_int(skip_copies(n)["args"][0]))
                if nm == "RotationOnStartup":
                    return vals[1]
                if nm == "RotationDaily":
                    return vals[2]
                return None
            return None
        keep = g.projector(atom)
        live = g.live(keep)
        r = rot_site in live
        p = plain_site in live
        table[vals] = "rot" if (r and not p) else "plain" if (p and not r) else "both" if (r and p) else "none"
    return table


def one_line(ck, fn):
    F = ck.facts
    g = Graph(fn)
    apps = pipeline_appends(fn)
    names = [(cls or "?").replace("QtLogger::", "") for cls, c, n in apps]
    want = ["PrettyFormatter", "PlatformStdSink", "FunctionFormatter", "RotatingFileSink", "FileSink"]
    ck.ob("C19-O3", sitestr(fn), names == want, "handlers created: %s" % names if names == want else "handlers created %s (expected %s)" % (names, want), key="oneline|handler-set")
    if names != want:
        return
    site = {nm: g.site_of(n) for nm, (cls, c, n) in zip(names, apps)}
    call = {nm: c for nm, (cls, c, n) in zip(names, apps)}
    path, size, count, opts, asyn = (p["decl"] for p in fn.params[1:6])
    pathE = lambda n: is_call(n, "QString::isEmpty") and is_ref_to(skip_copies(n).get("obj"), path)
    isp = lambda n: n.get("k") == "ref" and n.get("decl") == fn.params[0]["decl"]
    base = atoms((isp, True))
    # always: pretty(colour) then platform sink
    keep = g.projector(base)
    a = g.must_pass({site["PrettyFormatter"]}, keep=keep) and g.must_pass({site["PlatformStdSink"]}, keep=keep) and g.dominated(site["PlatformStdSink"], {site["PrettyFormatter"]})
    ck.ob("C19-O3", sitestr(fn), a, "always: PrettyFormatter then PlatformStdSink" if a else "PrettyFormatter/PlatformStdSink are not always created in this order", key="oneline|console")
    col = const_int(call["PrettyFormatter"]["args"][0]) if call["PrettyFormatter"].get("args") else None
    ck.ob("C19-O3", sitestr(fn, call["PrettyFormatter"]), col == 1, "console text is colourised" if col == 1 else "PrettyFormatter(colorize=%s)" % col, key="oneline|colour")
    for val in (True, False):
        keep = g.projector(atoms((isp, True), (pathE, not val)))
        live = g.live(keep)
        ff = site["FunctionFormatter"] in live
        anyfile = (site["RotatingFileSink"] in live) or (site["FileSink"] in live)
        ok = (ff, anyfile) == (val, val)
        if val:
            ok = ok and g.must_pass({site["FunctionFormatter"]}, keep=keep) and g.must_pass({site["RotatingFileSink"], site["FileSink"]}, keep=keep) \
                and g.dominated(site["RotatingFileSink"], {site["FunctionFormatter"]}) and g.dominated(site["FileSink"], {site["FunctionFormatter"]}) \
                and g.dominated(site["FunctionFormatter"], {site["PlatformStdSink"]})
        ck.ob("C19-O3", sitestr(fn), ok, "path %s: %s" % ("given" if val else "empty", "stripping formatter then exactly one file sink, after the console sink" if val else "no file branch") if ok else
              "path %s: file branch wrong (formatter:%s sink:%s)" % ("given" if val else "empty", ff, anyfile), key="oneline|file-branch-%s" % val)
    tab = rotating_predicate(ck, fn, g, site["RotatingFileSink"], site["FileSink"], size, opts, atoms((isp, True), (pathE, False)))
    wanttab = {v: ("rot" if any(v) else "plain") for v in itertools.product((False, True), repeat=3)}
    ck.ob("C19-O3", sitestr(fn), tab == wanttab, "rotating sink iff size > 0 or RotationOnStartup or RotationDaily (8/8 rows)" if tab == wanttab else "rotating predicate table %s" % tab, key="oneline|rotating-predicate")
    # sibling: SimplePipeline::sendToFile
    sf = F.fn("QtLogger::SimplePipeline::sendToFile")
    ck.touch(sf)
    gs = Graph(sf)
    sapps = []
    for n in sf.calls():
        if name_is(n.get("callee"), ("append",)) and n.get("args"):
            cls, c = created_class(n["args"][0])
            if cls:
                sapps.append((cls.replace("QtLogger::", ""), c, n))
    d = {cls: (c, n) for cls, c, n in sapps}
    if set(d) == {"RotatingFileSink", "FileSink"}:
        fnE = lambda n: is_call(n, "QString::isEmpty") and is_ref_to(skip_copies(n).get("obj"), sf.params[0]["decl"])
        tab2 = rotating_predicate(ck, sf, gs, gs.site_of(d["RotatingFileSink"][1]), gs.site_of(d["FileSink"][1]), sf.params[1]["decl"], sf.params[3]["decl"], atoms((fnE, False)))
        ck.ob("C19-O3", sitestr(sf), tab2 == tab, "SimplePipeline::sendToFile uses the same rotating predicate (sibling agreement)" if tab2 == tab else
              "sendToFile predicate %s differs from configure's %s" % (tab2, tab), key="oneline|sibling-predicate")
    else:
        ck.ob("C19-O3", sitestr(sf), None, "sendToFile creates %s" % sorted(d))
    ra = call["RotatingFileSink"].get("args", [])
    ok = len(ra) == 4 and all(is_ref_to(ra[i], d_) for i, d_ in enumerate((path, size, count, opts)))
    ck.ob("C19-O3", sitestr(fn, call["RotatingFileSink"]), ok, "RotatingFileSink(path, maxFileSize, maxFileCount, options)" if ok else "RotatingFileSink arguments %s" % [describe(a) for a in ra], key="oneline|rotating-args")
    fa = call["FileSink"].get("args", [])
    ok = len(fa) == 1 and is_ref_to(fa[0], path)
    ck.ob("C19-O3", sitestr(fn, call["FileSink"]), ok, "FileSink(path)", key="oneline|file-args")
    # the stripping lambda
    lam = [x for x in walk(call["FunctionFormatter"]) if x.get("k") == "lambda"]
    lf = F.fns.get(lam[0]["fn"]) if lam else None
    if lf is None:
        # a named function handed to the FunctionFormatter instead of a lambda
        fr = [x for x in walk(call["FunctionFormatter"]) if x.get("k") == "ref" and x.get("dk") == "func" and x.get("fn") in F.fns]
        if len(fr) == 1 and F.fns[fr[0]["fn"]].body is not None and len(F.fns[fr[0]["fn"]].params) == 1:
            lf = F.fns[fr[0]["fn"]]
    if lf is None:
        ck.ob("C19-O3", sitestr(fn, call["FunctionFormatter"]), None, "the stripping formatter is not a lambda")
    else:
        ck.touch(lf)
        rs = returns(lf)
        v = skip_copies(rs[0].get("e")) if len(rs) == 1 else None
        okl = False
        detail = "?"
        if isinstance(v, dict) and v.get("k") == "ref" and v.get("dk") == "local":
            hist = var_history(lf, Graph(lf), v["decl"])
            init = skip_copies(hist[0][2]) if hist and hist[0][0] == "init" else None
            starts = is_call(init, "QtLogger::LogMessage::formattedMessage") and obj_is_param(skip_copies(init), lf, 0)
            muts = [e for e in hist if e[0] in ("call", "assign")]
            okm = len(muts) == 1 and muts[0][0] == "call" and is_call(muts[0][1], "QString::remove")
            pat = None
            if okm:
                a0 = skip_copies(muts[0][1]["args"][0])
                if a0.get("k") == "ref":
                    for x in lf.all_nodes():
                        if x.get("k") == "decl":
                            for vv in x.get("vars", []):
                                if vv.get("decl") == a0.get("decl") and isinstance(vv.get("init"), dict):
                                    c = skip_copies(vv["init"])
                                    if c.get("k") == "construct" and c.get("class") == "QRegularExpression":
                                        pat = const_str(c["args"][0])
                else:
                    pat = const_str(a0)
            okl = bool(starts and okm and pat == "\x1b\\[[0-9;]*m")
            detail = "starts from formattedMessage():%s, single remove():%s, pattern %r" % (starts, okm, pat)
        ck.ob("C19-O3", sitestr(lf), okl, "file text = console text minus ANSI SGR sequences (ESC [ digits/; m)" if okl else "stripping formatter: %s" % detail, key="oneline|strip")
        # ... and what it strips is everything the pretty formatter can emit: every escape sequence in the string literals of PrettyFormatter's code is one the
        # expression removes (an erase-line or cursor sequence added to the console output would stay in the file)
        if okl:
            import re as _re
            pf = [f_ for f_ in F.fns.values() if f_.body is not None and strip_tmpl(f_.cls or "").endswith("PrettyFormatter")]
            ids_ = F.reachable_from(pf, virtual=False) if pf else set()
            left, n_lit = [], 0
            for i_ in sorted(ids_ | {f_.id for f_ in pf}):
                f_ = F.fns.get(i_)
                if f_ is None or f_.body is None or "/src/qtlogger/" not in (f_.file or ""):
                    continue
                for x in f_.all_nodes():
                    t_ = const_str(x) if x.get("k") in ("str", "qstr", "construct", "call") else None
                    if t_ is None and x.get("k") in ("char", "int") and x.get("v") == 27:
                        t_ = "\x1b"      # an escape character put together piece by piece is not followed
                    if t_ and "\x1b" in t_:
                        n_lit += 1
                        rest = _re.sub("\x1b\\[[0-9;]*m", "", t_)
                        if "\x1b" in rest:
                            left.append((sitestr(f_, x), t_))
            if pf:
                ck.ob("C19-O3", left[0][0] if left else sitestr(pf[0]), not left, "%d string literals with escape sequences in PrettyFormatter's code: all of them are SGR sequences, which the file output strips" % n_lit if not left else
                      "the pretty formatter emits %r, which is not an SGR sequence: the expression that makes the file text out of the console text leaves it in the file" % left[0][1], key="oneline|strip-covers-emitted")

    # async
    mv = [n for n in fn.calls() if name_is(strip_tmpl(n.get("callee") or ""), "QtLogger::OwnThreadHandler::moveToOwnThread")]
    if ck.config != "nothread":
        if len(mv) != 1:
            ck.ob("C19-O3", sitestr(fn), False if not mv else None, "moveToOwnThread() called at %d sites" % len(mv), key="oneline|async-missing")
        else:
            ms = g.site_of(mv[0])
            o = skip_copies(mv[0].get("obj"))
            isptr = (lambda n, d=o.get("decl"): n.get("k") == "ref" and n.get("decl") == d) if o.get("k") == "ref" else (lambda n: False)
            isa = lambda n: n.get("k") == "ref" and n.get("decl") == asyn
            res = {}
            for a in (False, True):
                keep = g.projector(atoms((isp, True), (isa, a), (isptr, True)))
                res[a] = (ms in g.live(keep), g.must_pass({ms}, keep=keep))
            last = all(not g.can_reach(ms, s) for s in site.values())
            ok = res[True] == (True, True) and not res[False][0] and last
            ck.ob("C19-O3", sitestr(fn, mv[0]), ok, "async (default true) -> moveToOwnThread() after all handlers are appended" if ok else "async branch %s, last=%s" % (res, last), key="oneline|async")
    # default argument async = true
    cfg_decl_default(ck)


def cfg_decl_default(ck):
    F = ck.facts
    lc = F.fn(LG + "::configure", sig_contains="const QString &, int, int")
    ck.touch(lc)
    calls = [n for n in lc.calls("QtLogger::configure")]
    ok = len(calls) == 1 and all(is_ref_to(a, p["decl"]) for a, p in zip(calls[0]["args"][1:], lc.params))
    ck.ob("C19-O3", sitestr(lc), ok, "Logger::configure forwards its arguments unchanged", key="oneline|logger-forward")
    inst = [n for n in lc.calls(LG + "::installMessageHandler")]
    g = Graph(lc)
    ok = len(inst) == 1 and g.must_pass({g.site_of(inst[0])}) and bool(calls) and g.dominated(g.site_of(inst[0]), {g.site_of(calls[0])})
    ck.ob("C19-O3", sitestr(lc), ok, "the pipeline is configured, then the message handler is installed", key="oneline|install-after-configure")
    ls = F.fn(LG + "::configure", sig_contains="const QSettings &")
    ck.touch(ls)
    g = Graph(ls)
    calls = [n for n in ls.calls("QtLogger::configure")]
    inst = [n for n in ls.calls(LG + "::installMessageHandler")]
    ok = len(calls) == 1 and len(inst) == 1 and g.must_pass({g.site_of(inst[0])}) and g.dominated(g.site_of(inst[0]), {g.site_of(calls[0])})
    ck.ob("C19-O2", sitestr(ls), ok, "Logger::configure(settings) configures the pipeline, then installs the message handler", key="ini|install-after-configure")


def handler_protocol(ck):
    F = ck.facts
    gs = [g for g in F.globals.values() if g["name"].endswith("g_previousMessageHandler")]
    ck.require(len(gs) == 1, "g_previousMessageHandler no longer resolves")
    gp = gs[0]["decl"]
    mh = F.fn(LG + "::messageHandler")
    inst = F.fn(LG + "::installMessageHandler")
    rest = F.fn(LG + "::restorePreviousMessageHandler")
    ck.touch(inst, rest)
    is_mh = lambda n: skip_copies(n).get("k") == "ref" and skip_copies(n).get("fn") == mh.id

    def prev_ne_ours(fn, pdecl):
        def pred(n):
            if n.get("k") == "binop" and n.get("op") in ("!=", "==") and ((is_ref_to(n.get("lhs"), pdecl) and is_mh(n.get("rhs"))) or (is_ref_to(n.get("rhs"), pdecl) and is_mh(n.get("lhs")))):
                return True
            return False
        return pred

    def cmp_atom(fn, pdecl, foreign):
        p = prev_ne_ours(fn, pdecl)
        def atom(n):
            if p(n):
                return foreign if n.get("op") == "!=" else (not foreign)
            return None
        return atom

    # ---- install
    g = Graph(inst)
    qi = [n for n in inst.calls("qInstallMessageHandler")]
    ck.require(len(qi) == 1 and is_mh(qi[0]["args"][0]), "installMessageHandler no longer installs Logger::messageHandler exactly once")
    pvar = None
    for a in inst.ancestors(qi[0]):
        if a.get("k") == "decl":
            pvar = a["vars"][0]["decl"]
    writes = [n for n in inst.find(lambda n: n.get("k") == "binop" and n.get("op") == "=" and is_ref_to(n.get("lhs"), gp))]
    if pvar is None or len(writes) != 1:
        ck.ob("C19-O4", sitestr(inst), False if (len(writes) == 1 and pvar is None) or not writes else None, "install: displaced handler %s, remembered at %d sites" % ("kept" if pvar else "discarded", len(writes)), key="install|shape")
    else:
        w = writes[0]
        ws = g.site_of(w)
        okv = is_ref_to(w.get("rhs"), pvar)
        ck.ob("C19-O4", sitestr(inst, w), okv, "the remembered handler is the one qInstallMessageHandler displaced" if okv else "remembered handler is %s" % describe(w.get("rhs")), key="install|value")
        foreign = g.projector(cmp_atom(inst, pvar, True))
        ours = g.projector(cmp_atom(inst, pvar, False))
        a = g.must_pass({ws}, keep=foreign)
        b = ws not in g.live(ours)
        ck.ob("C19-O4", sitestr(inst, w), a and b, "remembered iff the displaced handler is not ours (re-install keeps the first foreign handler)" if (a and b) else
              "remember-when-foreign=%s, untouched-when-ours=%s" % (a, b), key="install|guard")
    # ---- restore
    g = Graph(rest)
    qi = [n for n in rest.calls("qInstallMessageHandler")]
    isnull = lambda n: n.get("k") == "ref" and n.get("decl") == gp
    none = g.projector(atom_eq(isnull, False))
    some = g.projector(atom_eq(isnull, True))
    live_none = g.live(none)
    a = not any(g.site_of(q) in live_none for q in qi)
    ck.ob("C19-O4", sitestr(rest), a, "nothing remembered -> the installed handler is left alone" if a else "restore touches the handler although nothing is remembered", key="restore|noop")
    first = [q for q in qi if is_ref_to(q["args"][0], gp)]
    if len(first) != 1:
        ck.ob("C19-O4", sitestr(rest), False if not first else None, "restore installs the remembered handler at %d sites" % len(first), key="restore|reinstate")
        return
    f0 = first[0]
    fs = g.site_of(f0)
    b = g.must_pass({fs}, keep=some)
    ck.ob("C19-O4", sitestr(rest, f0), b, "remembered handler is reinstated on every path" if b else "remembered handler is not always reinstated", key="restore|reinstate")
    pvar = None
    for a_ in rest.ancestors(f0):
        if a_.get("k") == "decl":
            pvar = a_["vars"][0]["decl"]
    second = [q for q in qi if q is not f0]
    if pvar is None or len(second) != 1 or not is_ref_to(second[0]["args"][0], pvar):
        ck.ob("C19-O4", sitestr(rest), False if (pvar is None or not second) else None, "restore does not put a newer foreign handler back", key="restore|newer-foreign")
    else:
        ss = g.site_of(second[0])
        keepF = g.projector(atoms((isnull, True), (prev_ne_ours(rest, pvar), None)))
        fo = g.projector(lambda n: True if isnull(n) else cmp_atom(rest, pvar, True)(n))
        ou = g.projector(lambda n: True if isnull(n) else cmp_atom(rest, pvar, False)(n))
        c = g.must_pass({ss}, keep=fo) and g.dominated(ss, {fs})
        d = ss not in g.live(ou)
        ck.ob("C19-O4", sitestr(rest, second[0]), c and d, "a newer foreign handler displaced by the restore is put back; ours is not" if (c and d) else
              "put-back-when-foreign=%s, not-when-ours=%s" % (c, d), key="restore|newer-foreign")
    clears = [n for n in rest.find(lambda n: n.get("k") == "binop" and n.get("op") == "=" and is_ref_to(n.get("lhs"), gp) and skip_copies(n.get("rhs")).get("k") == "null_lit")]
    e = bool(clears) and g.must_pass(set(g.sites_of_nodes(clears)), keep=some) and all(not g.can_reach(g.site_of(c_), fs) for c_ in clears)
    ck.ob("C19-O4", sitestr(rest), e, "the remembered handler is forgotten after it was reinstated" if e else "the remembered handler is not cleared (or cleared before use)", key="restore|clear")
    # writers of g_previousMessageHandler elsewhere
    for f in F.fns.values():
        if f.id in (inst.id, rest.id):
            continue
        for n in f.find(lambda n: n.get("k") == "binop" and n.get("op") == "=" and is_ref_to(n.get("lhs"), gp)):
            ck.notes.append("g_previousMessageHandler also written in %s" % f.sig)


def share_ini_obligation(ck, rid, key_suffix, rule_text):
    """run the INI front-end rules on a scratch recorder and copy the obligations whose key ends with key_suffix into check `ck` under rule `rid`: the
    property of a handler ("the filter decides by the configured expression") also has to hold when the handler is built by configure(settings)"""
    import copy
    ck.rule(rid, rule_text)
    F = ck.facts
    ini = F.fn("QtLogger::configure", sig_contains="const QSettings &", optional=True)
    if ini is None:
        ck.ob(rid, "(configure)", None, "configure(Pipeline *, const QSettings &, ...) not found", key="frontend|%s" % key_suffix)
        return
    sub = copy.copy(ck)
    sub.obligations, sub.rules, sub.functions_analysed, sub.notes = [], {}, set(), []
    try:
        ini_rules(sub, ini)
    except AnalysisBroken:
        pass
    got = [o for o in sub.obligations if (o.get("key") or "").endswith(key_suffix)]
    ck.touch(ini)
    if not got:
        ck.ob(rid, sitestr(ini), None, "how '%s' travels from the settings to its handler could not be followed" % key_suffix.split("|")[-1], key="frontend|%s" % key_suffix)
    for o in got:
        ck.ob(rid, o["site"], {"discharged": True, "violated": False}.get(o["verdict"]), o["what"], key="frontend|%s" % key_suffix)


def no_virtual_dispatch_in_ctor(ck):
    """C19-O8: the colour decision of the console sinks (`stdout_color`, `stderr_color`, the one-line front-end's colour) is ColorMode::Auto -> isTty(), and
    isTty() is what StdOutSink / StdErrSink override. A virtual call made while a base-class constructor (or destructor) runs reaches the base class's
    own version, never the override: evaluated there, the decision is made without asking the stream."""
    F = ck.facts
    n_cls, n_calls = 0, 0
    for q, rec in sorted(F.records.items()):
        if not q.startswith("QtLogger::") or not F.subclasses(q):
            continue
        subs = F.subclasses(q)
        cds = [f for f in F.fns.values() if f.cls == q and f.body is not None and f.d.get("kind") in ("ctor", "dtor")]
        if not cds:
            continue
        n_cls += 1
        own = {f.id: f for f in F.fns.values() if f.cls == q and f.body is not None}
        for cd in cds:
            # calls on `this` reachable from the constructor through the class's own non-virtual methods
            seen, todo = set(), [cd]
            while todo:
                f = todo.pop()
                if f.id in seen:
                    continue
                seen.add(f.id)
                for c in f.calls():
                    o = skip_copies(c.get("obj")) if isinstance(c.get("obj"), dict) else None
                    if c.get("ck") != "member" or not (o is None or o.get("k") == "this"):
                        continue
                    n_calls += 1
                    tgt = F.fns.get(c.get("fn"))
                    if c.get("virtual") and not c.get("qualified"):
                        ovs = [F.fns[o_] for o_ in F.overriders.get(c.get("fn"), ()) if o_ in F.fns and F.fns[o_].cls in subs]
                        if ovs:
                            ck.ob("C19-O8", sitestr(f, c), False, "%s runs while a %s object is still being %s and calls the virtual %s(): the call reaches %s's own version, not the override in %s - "
                                  "the answer the subclass would give (is the stream a terminal?) is never asked" %
                                  (strip_tmpl(f.name).replace("QtLogger::", ""), q.split("::")[-1], "constructed" if cd.d.get("kind") == "ctor" else "destroyed", (c.get("callee") or "").split("::")[-1],
                                   q.split("::")[-1], ", ".join(sorted(x.cls.split("::")[-1] for x in ovs))), key="ctor-virtual|%s|%s" % (q.split("::")[-1], (c.get("callee") or "").split("::")[-1]))
                    elif tgt is not None and tgt.id in own and not c.get("virtual"):
                        todo.append(tgt)
    ck.ob("C19-O8", "src/qtlogger (classes with subclasses)", True, "%d constructors / destructors of base classes looked at (%d calls on this): summary" % (n_cls, n_calls), key="ctor-virtual|summary")
