"""C16 — built-in filters and counters follow their decision rules on every sequence (DESIGN.md section 3, C16)."""
from engine.util import *
from engine.facts import strip_tmpl

LEVEL = "other"
MIN_OBLIGATIONS = 12
TECHNIQUE = "finite-table extraction (switch -> literal map evaluated for all 25 type x threshold pairs) + two-path CFG rules for the stateful filters and the counter; adapter rule on Filter::process (returns exactly filter(lmsg), evaluated on every path); builder-fidelity rule on the SimplePipeline filter builders (three-valued); no ordering of message types by enumerator value anywhere in the library; Pipeline::process invokes handlers from one place; LogMessage keeps the text it is given; copies of a message keep its text (copy constructor: same member or pointer + length); Logger::processMessage runs the handlers for every message"
LEVEL_TEXT = ("The four mechanisms are finite tables or two-state automata, so deciding their code decides every message sequence: the severity table is extracted "
              "and all 25 (type, threshold) verdicts are evaluated on it; the duplicate filter's two paths (equal -> drop without write, different -> remember then pass), "
              "the regexp filter's return expression and the counter's single unconditional unit increment are checked on every path.")
LEVEL_NOTE = "trusts QString::operator== (exact code-unit equality) and QRegularExpression::match/hasMatch; the exclusion needed for the stateful handlers is C02"
DESIGN_REF = "DESIGN.md section 3, C16"
EXPLANATION = ("Static decision of LevelFilter::priority/filter (table + comparison, evaluated exhaustively over QtMsgType x QtMsgType on the extracted table, no code is run), "
               "DuplicateFilter::filter (CFG projected on the equality test), RegExpFilter::filter (return expression shape) and SeqNumberAttr::attributes "
               "(exactly one unit increment on all paths whose value is the attribute).")
TRUSTED = ["QString operator== compares code units exactly (no case folding / normalisation)", "QRegularExpression::match(subject).hasMatch() is true iff the expression matches somewhere in subject"]
ASSUMPTIONS = ["handlers run under the exclusion decided in C02"]
NOT_DECIDED = ["QRegularExpression's matching itself"]

SEVERITY = ["QtDebugMsg", "QtInfoMsg", "QtWarningMsg", "QtCriticalMsg", "QtFatalMsg"]
LM = "QtLogger::LogMessage"


def run(ck):
    F = ck.facts
    ck.rule("C16-O1", "LevelFilter: the priority table covers the five message types with debug<info<warning<critical<fatal, and filter() == (priority(type) >= priority(threshold)) for all 25 pairs")
    ck.rule("C16-O2", "DuplicateFilter: text equal to the remembered text -> false and nothing written; otherwise the text is remembered and true is returned; exact equality; initially empty")
    ck.rule("C16-O3", "RegExpFilter: returns m_regExp.match(message()).hasMatch() with default match options")
    ck.rule("C16-O4", "SeqNumberAttr: exactly one unit increment of the counter on every path of attributes(), and the counter value is the attribute published under the configured name")
    ck.rule("C16-O5", "a pipeline sees a filter through Filter::process, which returns exactly filter(lmsg) for every message: no verdict override, and filter() runs for every message (the duplicate filter's memory depends on it)")
    fp = F.fn("QtLogger::Filter::process")
    ck.touch(fp)
    rs = returns(fp)
    g_ = Graph(fp)
    fcalls = [n for n in fp.calls("QtLogger::Filter::filter") if n.get("virtual") and n.get("args") and is_ref_to(n["args"][0], fp.params[0]["decl"])]
    exact = bool(rs) and all(skip_copies(deref_local(fp, r.get("e"))).get("id") in {c["id"] for c in fcalls} for r in rs)
    always = bool(fcalls) and g_.must_pass(set(g_.sites_of_nodes(fcalls)))
    if exact and always:
        ck.ob("C16-O5", sitestr(fp, rs[0]), True, "Filter::process returns exactly filter(lmsg), evaluated on every path", key="Filter::process|return")
    else:
        mixed = any(any(x.get("id") in {c["id"] for c in fcalls} for x in walk(deref_local(fp, r.get("e")))) or const_int(r.get("e")) is not None for r in rs)
        ck.ob("C16-O5", sitestr(fp, rs[0]) if rs else sitestr(fp), False if (mixed or not fcalls or not always) else None,
              "Filter::process returns %s%s: the verdict of the built-in filters is overridden or filter() is not evaluated for every message (the duplicate filter then remembers a stale text)" %
              ([describe(deref_local(fp, r.get("e")))[:80] for r in rs], "" if always else "; filter() is skipped on some path"), key="Filter::process|return")
    # the counter handler is seen through AttrHandler::process: it must ask attributes(lmsg) and merge the answer for every message, whatever state the
    # message is in (already formatted, already carrying attributes) - otherwise messages pass without a number and the numbers of their neighbours no longer
    # say how many messages the handler has seen
    ck.rule("C16-O12", "Logger::processMessage runs the handler list for every message (no early verdict on behalf of a filter further down)")
    logger_runs_the_handlers(ck)
    ck.rule("C16-O11", "AttrHandler::process calls updateAttributes(attributes(lmsg)) exactly once on every path (no short cut keyed on the message's state)")
    ap_ = F.fn("QtLogger::AttrHandler::process")
    ck.touch(ap_)
    ga_ = Graph(ap_)
    inner_ = [n for n in ap_.calls("QtLogger::AttrHandler::attributes") if n.get("virtual") and n.get("args") and is_ref_to(n["args"][0], ap_.params[0]["decl"])]
    outer_ = [n for n in ap_.calls("QtLogger::LogMessage::updateAttributes") if n.get("args") and any(skip_copies(deref_local(ap_, n["args"][0])).get("id") == i_["id"] for i_ in inner_)]
    ok_ = bool(outer_) and ga_.must_pass(set(ga_.sites_of_nodes(outer_))) and ga_.must_pass(set(ga_.sites_of_nodes(inner_)))
    ck.ob("C16-O11", sitestr(ap_), ok_ if (ok_ or inner_) else None, "every message that reaches an attribute handler gets attributes(lmsg) merged in" if ok_ else
          "AttrHandler::process has a path that returns without asking attributes(lmsg): a message that takes it passes SeqNumberAttr without a number (or keeps a stale one)", key="AttrHandler::process|skipped")
    level(ck)
    duplicate(ck)
    regexp(ck)
    seq(ck)
    builders(ck)
    severity_comparisons(ck)
    evaluated_once(ck)
    ck.rule("C16-O9", "the filters decide on the text that was logged: LogMessage keeps the message text it is given (no trailing line break chopped, no trimming)")
    from rules.c19 import share_ini_obligation
    share_ini_obligation(ck, "C16-O10", "ini|text|regexp_filter", "configure(settings): the value of regexp_filter is the expression the RegExpFilter is built from, character for character")
    from rules.oth import message_text_intact
    message_text_intact(ck, ck.facts, "C16-O9", "texts that differ only in that are one text for the duplicate filter, and an expression that looks at the end of the text (\\n, \\s$, \\z) gets the wrong verdict")


def level(ck):
    F = ck.facts
    pr = F.fn("QtLogger::LevelFilter::priority")
    fl = F.fn("QtLogger::LevelFilter::filter")
    ck.touch(pr, fl)
    en = F.enums.get("QtMsgType")
    ck.require(en is not None, "enum QtMsgType not found")
    val = {e["name"]: e["value"] for e in en["enumerators"]}
    if level_by_cases(ck, F, pr, fl, val):
        level_threshold_writers(ck, F)
        return
    sws = pr.find(lambda n: n.get("k") == "switch")
    ck.require(len(sws) == 1, "LevelFilter::priority is no longer a single switch")
    sw = sws[0]
    ck.require(is_ref_to(sw.get("cond"), pr.params[0]["decl"]), "LevelFilter::priority does not switch on its parameter")
    tab = switch_table(pr, sw)
    after = [r for r in returns(pr) if not any(a.get("id") == sw["id"] for a in pr.ancestors(r))]
    fall = after[0].get("e") if len(after) == 1 else None
    prio = {}
    for name in SEVERITY:
        leaf = tab.get(val[name], tab.get("default", "fallout"))
        if leaf == "fallout":
            leaf = fall
        v = const_int(leaf) if isinstance(leaf, dict) else None
        prio[name] = v
    missing = [n for n in SEVERITY if val[n] not in tab]
    ck.ob("C16-O1", sitestr(pr, sw), not missing, "all five message types have their own case" if not missing else "message types without a case: %s" % missing, key="LevelFilter::priority|missing-case")
    if any(v is None for v in prio.values()):
        ck.ob("C16-O1", sitestr(pr), None, "priority table has non-constant entries: %s" % prio)
        return
    mono = all(prio[SEVERITY[i]] < prio[SEVERITY[i + 1]] for i in range(4))
    ck.ob("C16-O1", sitestr(pr, sw), mono, "severity table %s is strictly increasing debug<info<warning<critical<fatal" % prio if mono else
          "severity table %s does not rank debug<info<warning<critical<fatal" % prio, key="LevelFilter::priority|order")
    rs = returns(fl)
    ck.require(len(rs) == 1, "LevelFilter::filter has %d returns" % len(rs))
    bad = []
    unknown = False
    n_eval = 0
    for t in SEVERITY:
        for th in SEVERITY:
            def leaf(n, t=t, th=th):
                if n.get("k") == "call" and n.get("fn") == pr.id and n.get("args"):
                    a = skip_copies(n["args"][0])
                    if is_call(a, LM + "::type") and obj_is_param(a, fl, 0):
                        return prio[t]
                    if is_this_field(a, "QtLogger::LevelFilter::m_minLevel"):
                        return prio[th]
                return None
            got = eval_int(rs[0].get("e"), leaf)
            n_eval += 1
            if got is None:
                unknown = True
                continue
            want = SEVERITY.index(t) >= SEVERITY.index(th)
            if bool(got) != want:
                bad.append("(%s, threshold %s) -> %s" % (t, th, bool(got)))
    if unknown:
        ck.ob("C16-O1", sitestr(fl, rs[0]), None, "LevelFilter::filter's return expression %s is not a function of priority(type) and priority(threshold)" % describe(rs[0].get("e")))
    else:
        ck.ob("C16-O1", sitestr(fl, rs[0]), not bad, "%d/%d (type, threshold) pairs evaluated on the extracted table agree with severity >= threshold" % (n_eval, n_eval) if not bad else
              "wrong verdicts: %s" % bad[:6], key="LevelFilter::filter|verdict")
    level_threshold_writers(ck, F)

def builders(ck):
    """C16-O6: the fluent builder is how the filters get into a pipeline"""
    from rules.oth import builder_fidelity
    F = ck.facts
    ck.rule("C16-O6", "SimplePipeline::filterLevel / filter(regexp) / filterDuplicate / addSeqNumber add exactly one handler of the documented class, built from the caller's argument unchanged, on every path; "
                      "no merging with an earlier handler, no substitute handler for 'simple' arguments")
    SP = "QtLogger::SimplePipeline"
    n = 0
    for nm, cls, sel in (("filterLevel", "QtLogger::LevelFilter", None), ("filterDuplicate", "QtLogger::DuplicateFilter", None), ("addSeqNumber", "QtLogger::SeqNumberAttr", None),
                         ("filter", "QtLogger::RegExpFilter", lambda f: f.params and "QString" in f.params[0].get("type", ""))):
        fs = [f for f in F.fn_all(SP + "::" + nm) if f.body is not None and (sel is None or sel(f))]
        ck.require(len(fs) == 1, "SimplePipeline::%s: %d definitions found" % (nm, len(fs)))
        ck.touch(fs[0])
        builder_fidelity(ck, F, "C16-O6", F.flat(fs[0]), cls, "%s" % nm)
        n += 1
    return n


def severity_comparisons(ck):
    """C16-O7: QtMsgType's numeric order is debug(0) warning(1) critical(2) fatal(3) info(4): comparing or taking the larger of two
    message types by their enumerator values is not a comparison of severities."""
    F = ck.facts
    ck.rule("C16-O7", "no ordering of two message types by their enumerator values anywhere in the library (qMax/qMin/std::max/std::min on QtMsgType, <,>,<=,>= between two non-constant QtMsgType values): "
                      "severity is compared through LevelFilter::priority()")
    def is_mt(x):
        x = skip_copies(x) if isinstance(x, dict) else None
        while isinstance(x, dict) and x.get("k") == "cast":
            if (x.get("type") or "").replace("const ", "").strip() == "QtMsgType":
                return True
            x = skip_copies(x.get("e"))
        return isinstance(x, dict) and (x.get("type") or "").replace("const ", "").replace("&", "").strip() == "QtMsgType"
    sites = 0
    for f in F.fns.values():
        if f.body is None or not (f.file or "").startswith("src/qtlogger") and "qtlogger" not in (f.file or ""):
            continue
        for n in f.all_nodes():
            bad = None
            if n.get("k") == "call" and (n.get("callee") or "").split("::")[-1].split("<")[0] in ("qMax", "qMin", "max", "min", "qBound", "clamp") and len(n.get("args", [])) >= 2 and all(is_mt(a) for a in n["args"][:2]):
                bad = "%s of two message types" % (n.get("callee") or "").split("<")[0]
            elif n.get("k") == "binop" and n.get("op") in ("<", ">", "<=", ">=") and is_mt(n.get("lhs")) and is_mt(n.get("rhs")) and const_int(n.get("lhs")) is None and const_int(n.get("rhs")) is None:
                bad = "%s between two message types" % n.get("op")
            if bad:
                sites += 1
                ck.ob("C16-O7", sitestr(f, n), False, "%s: %s orders them by enumerator value, where info (4) ranks above fatal (3) and warning (1) below it" % (f.name.split("QtLogger::")[-1], bad),
                      key="severity-by-enum|%s" % f.name.split("::")[-1])
    if not sites:
        ck.ob("C16-O7", "(library)", True, "no ordering of message types by enumerator value in %d functions" % sum(1 for f in F.fns.values() if f.body is not None), key="severity-by-enum|none")


def duplicate(ck):
    F = ck.facts
    fn = F.fn("QtLogger::DuplicateFilter::filter")
    ck.touch(fn)
    g = Graph(fn)
    FIELD = "QtLogger::DuplicateFilter::m_lastMessage"

    def is_msg(n):
        n = deref_local(fn, n)
        return is_call(n, LM + "::message") and obj_is_param(skip_copies(n), fn, 0)

    eqs = []
    for n in fn.calls():
        a = n.get("args", [])
        if n.get("op") in ("==", "!=") and len(a) == 2 and ((is_msg(a[0]) and is_this_field(a[1], FIELD)) or (is_msg(a[1]) and is_this_field(a[0], FIELD))):
            eqs.append(n)
    if len(eqs) != 1:
        # any other comparison of the two (compare(), case-insensitive, trimmed...) is either lossy or unknown
        cmpc = [n for n in fn.calls() if name_is(n.get("callee"), ("compare", "localeAwareCompare", "startsWith", "contains"))]
        lossy = [n for n in fn.calls() if n.get("op") in ("==", "!=") and any(is_this_field(x, FIELD) for x in walk(n)) and lossy_wrappers(n)]
        if cmpc:
            ck.ob("C16-O2", sitestr(fn, cmpc[0]), False, "duplicates are detected with %s instead of exact equality" % describe(cmpc[0]), key="DuplicateFilter::filter|inexact-compare")
        elif lossy:
            ck.ob("C16-O2", sitestr(fn, lossy[0]), False, "the texts are compared after %s: %s" % (lossy_wrappers(lossy[0]), describe(lossy[0])), key="DuplicateFilter::filter|inexact-compare")
        else:
            any_text_eq = [n for n in fn.calls() if n.get("op") in ("==", "!=") and len(n.get("args", [])) == 2 and any(is_msg(a) for a in n["args"])
                           and all((skip_copies(a).get("type") or "").replace("const ", "") == "QString" for a in n["args"])]
            if any_text_eq:
                ck.ob("C16-O2", sitestr(fn, any_text_eq[0]), None, "the message text is compared with %s, not with m_lastMessage; idiom not recognised" % describe(any_text_eq[0]))
            else:
                conds = [describe(n.get("cond"))[:80] for n in fn.find(lambda n: n.get("k") == "if")]
                ck.ob("C16-O2", sitestr(fn), False, "the drop decision is not an equality of the message text with the stored previous text (conditions: %s): two different texts that agree on what is compared "
                      "(length, hash, prefix ...) are collapsed as duplicates" % conds, key="DuplicateFilter::filter|inexact-compare")
        return
    eq = eqs[0]
    exact = (eq.get("sig") or "").replace(" ", "") in ("operator==(constQString&,constQString&)", "operator!=(constQString&,constQString&)", "QString::operator==(constQString&)const", "QString::operator!=(constQString&)const")
    both_plain = all(skip_copies(a).get("type") in ("QString", "const QString") for a in eq["args"])
    ck.ob("C16-O2", sitestr(fn, eq), exact and both_plain, "exact QString equality (%s)" % eq.get("sig") if (exact and both_plain) else "comparison %s on %s is not plain QString equality" % (eq.get("sig"), [skip_copies(a).get("type") for a in eq["args"]]),
          key="DuplicateFilter::filter|inexact-compare")
    neg = eq.get("op") == "!="
    is_eq = value_pred(fn, eq)   # the comparison itself, or a flag local initialised from it
    writes = [(f, n, how) for f, n, how in field_writes(F, FIELD) if f.id == fn.id]
    wsites = set()
    for f, n, how in writes:
        asg, rhs = assignment_target(fn, n)
        if asg is None:
            ck.ob("C16-O2", sitestr(fn, n), None, "m_lastMessage is modified by %s; idiom not recognised" % how)
            return
        ok = is_msg(rhs)
        ck.ob("C16-O2", sitestr(fn, asg), ok, "remembered text is message()" if ok else "remembered text is %s" % describe(rhs), key="DuplicateFilter::filter|remembers-other")
        wsites.add(g.site_of(asg))
    for same in (True, False):
        keep = g.projector(atom_eq(is_eq, same != neg))
        live = g.live(keep)
        def retval(r):
            v = const_int(r.get("e"))
            if v is None:
                ev_ = eval_cond(r.get("e"), atom_eq(is_eq, same != neg), fn)
                v = None if ev_ is None else int(ev_)
            return v
        rv = [(r, retval(r)) for r in returns(fn) if g.site_of(r) in live]
        want = 0 if same else 1
        okr = bool(rv) and all(v == want for _, v in rv)
        ck.ob("C16-O2", sitestr(fn), okr, "%s text -> returns %s" % ("equal" if same else "different", bool(want)) if okr else
              "%s text -> returns %s" % ("equal" if same else "different", [describe(r.get("e")) for r, _ in rv]), key="DuplicateFilter::filter|verdict-%s" % ("equal" if same else "different"))
        if same:
            okw = not (wsites & live)
            ck.ob("C16-O2", sitestr(fn), okw, "equal text -> nothing is written" if okw else "equal text -> m_lastMessage is rewritten", key="DuplicateFilter::filter|write-on-equal")
        else:
            okw = bool(wsites) and g.must_pass(wsites, keep=keep)
            ck.ob("C16-O2", sitestr(fn), okw, "different text -> remembered on every path before returning" if okw else "different text is not always remembered", key="DuplicateFilter::filter|no-update")
    # the comparison happens before the update
    late = any(g.can_reach(w, g.site_of(eq)) for w in wsites)
    ck.ob("C16-O2", sitestr(fn, eq), not late, "the comparison uses the previous text (update happens after it)" if not late else "the text is updated before it is compared", key="DuplicateFilter::filter|update-before-compare")
    fd = F.field("QtLogger::DuplicateFilter", "m_lastMessage")
    init = fd.get("init")
    ok = init is None or (skip_copies(init).get("k") == "construct" and not skip_copies(init).get("args")) or const_str(init) == ""
    ck.ob("C16-O2", "duplicatefilter.h (m_lastMessage)", ok, "initially the empty text", key="DuplicateFilter|initial")
    others = [(f, n, how) for f, n, how in field_writes(F, FIELD) if f.id != fn.id]
    for f, n, how in others:
        ck.notes.append("m_lastMessage also written (%s) in %s" % (how, f.sig))


def regexp(ck):
    F = ck.facts
    fn = F.fn("QtLogger::RegExpFilter::filter")
    ck.touch(fn)
    rs = returns(fn)
    ck.require(len(rs) == 1, "RegExpFilter::filter has %d returns" % len(rs))
    e = skip_copies(deref_local(fn, rs[0].get("e")))
    ok = is_call(e, "QRegularExpressionMatch::hasMatch")
    m = skip_copies(deref_local(fn, e.get("obj"))) if ok else None
    ok = ok and is_call(m, "QRegularExpression::match") and is_this_field(m.get("obj"), "QtLogger::RegExpFilter::m_regExp")
    if not ok:
        neg = e.get("k") == "unop" and e.get("op") == "!"
        ck.ob("C16-O3", sitestr(fn, rs[0]), False if neg else None, "RegExpFilter::filter returns %s" % describe(e), key="RegExpFilter::filter|return")
        return
    a = m.get("args", [])
    subj = skip_copies(deref_local(fn, a[0])) if a else None
    oksubj = is_call(subj, LM + "::message") and obj_is_param(subj, fn, 0)
    ck.ob("C16-O3", sitestr(fn, m), oksubj, "the expression is matched against message()" if oksubj else "the expression is matched against %s" % describe(subj), key="RegExpFilter::filter|subject")
    defaults = all(x.get("k") == "defaultarg" for x in a[1:])
    ck.ob("C16-O3", sitestr(fn, m), defaults, "default offset / match type / options" if defaults else "non-default match arguments %s" % [describe(x) for x in a[1:]], key="RegExpFilter::filter|options")
    for f, n, how in field_writes(F, "QtLogger::RegExpFilter::m_regExp"):
        if f.id == fn.id:
            ck.ob("C16-O3", sitestr(f, n), False, "filter() modifies the expression (%s)" % how, key="RegExpFilter::filter|writes-regexp")
        elif how != "ctor-init":
            # the filter must match with exactly the expression it was given: no option/pattern edits after the initialiser
            ck.ob("C16-O3", sitestr(f, n), False, "%s edits the stored expression after initialising it (%s): the filter no longer matches with the caller's expression "
                  "(e.g. DontCaptureOption invalidates expressions with back-references)" % (strip_tmpl(f.name).split("::")[-1], how), key="RegExpFilter|edits-regexp|%s" % how)
    for ct in F.fn_all("QtLogger::RegExpFilter::RegExpFilter"):
        if ct.d.get("kind") != "ctor" or ct.d.get("copyctor") or ct.d.get("movector") or not ct.params:
            continue
        ck.touch(ct)
        i = [x for x in ct.inits if x.get("member") == "QtLogger::RegExpFilter::m_regExp"]
        dl = [x for x in ct.inits if x.get("delegating") and isinstance(x.get("e"), dict)]
        if not i and dl:
            # delegating constructor: RegExpFilter(const QString &s) : RegExpFilter(QRegularExpression(s)) {}
            de = skip_copies(dl[0]["e"])
            da = de.get("args", []) if de.get("k") == "construct" else []
            i = [{"e": da[0]}] if len(da) == 1 else []
        e = skip_copies(i[0]["e"]) if i else None
        ok = e is not None and (is_ref_to(e, ct.params[0]["decl"]) or (e.get("k") == "construct" and e.get("class") == "QRegularExpression" and e.get("args") and is_ref_to(e["args"][0], ct.params[0]["decl"])
                                                                    and all(x.get("k") == "defaultarg" for x in e["args"][1:])))
        if e is not None and e.get("k") == "construct" and e.get("class") == "QRegularExpression" and len(e.get("args", [])) == 1:
            inner = skip_copies(e["args"][0])
            if inner.get("k") == "construct" and inner.get("class") == "QRegularExpression":
                ok = inner.get("args") and is_ref_to(inner["args"][0], ct.params[0]["decl"]) and all(x.get("k") == "defaultarg" for x in inner["args"][1:])
        ck.ob("C16-O3", sitestr(ct), bool(ok), "m_regExp is built from the constructor argument with default pattern options" if ok else "m_regExp initialised from %s" % describe(e), key="RegExpFilter|ctor|%s" % ct.params[0]["type"])


def seq(ck, rid="C16-O4"):
    F = ck.facts
    fn = F.fn("QtLogger::SeqNumberAttr::attributes")
    ck.touch(fn)
    g = Graph(fn)
    FIELD = "QtLogger::SeqNumberAttr::m_count"
    ws = [(f, n, how) for f, n, how in field_writes(F, FIELD) if f.id == fn.id]
    if len(ws) != 1:
        ck.ob(rid, sitestr(fn), False, "attributes() modifies the counter %d times per call" % len(ws), key="SeqNumberAttr::attributes|increment-count")
        return
    f, n, how = ws[0]
    p = fn.nodes[fn.parent[n["id"]]]
    unit = how.startswith("incdec(++") or (how in ("assign(+=)",) and const_int(p.get("rhs")) == 1)
    if how == "assign(=)":
        r = skip_copies(p.get("rhs"))
        unit = r.get("k") == "binop" and r.get("op") == "+" and ((is_this_field(r.get("lhs"), FIELD) and const_int(r.get("rhs")) == 1) or (is_this_field(r.get("rhs"), FIELD) and const_int(r.get("lhs")) == 1))
    ck.ob(rid, sitestr(fn, p), unit, "the counter advances by exactly one (%s)" % how if unit else "the counter is changed by %s" % describe(p), key="SeqNumberAttr::attributes|not-unit-increment")
    site = g.site_of(p)
    ck.require(site is not None, "increment has no CFG element")
    once = g.must_pass({site}) and not g.in_cycle(site)
    ck.ob(rid, sitestr(fn, p), once, "incremented exactly once on every path" if once else "the increment is conditional or repeated", key="SeqNumberAttr::attributes|conditional-increment")
    # the attribute value is the counter
    rs = returns(fn)
    okv = bool(rs)
    for r in rs:
        has = False
        for x in walk(r.get("e")):
            if x.get("id") == p["id"] or is_this_field(x, FIELD):
                has = True
            if x.get("k") == "ref" and x.get("dk") == "local":
                dn, var = local_var(fn, x["decl"])
                if var and isinstance(var.get("init"), dict) and any(is_this_field(y, FIELD) or y.get("id") == p["id"] for y in walk(var["init"])):
                    has = True
        okv = okv and has
        named = any(is_this_field(x, "QtLogger::SeqNumberAttr::m_name") for x in walk(r.get("e")))
        ck.ob(rid, sitestr(fn, r), named, "published under the configured name" if named else "the attribute name is not m_name", key="SeqNumberAttr::attributes|name")
    ck.ob(rid, sitestr(fn), okv, "the published value is the counter" if okv else "the published value does not come from the counter", key="SeqNumberAttr::attributes|value")
    for f2, n2, how2 in field_writes(F, FIELD):
        if f2.id != fn.id and how2 != "ctor-init":
            ck.notes.append("m_count also written (%s) in %s" % (how2, f2.sig))


def level_threshold_writers(ck, F):
    fl = F.fn("QtLogger::LevelFilter::filter")
    ws = [w for w in field_writes(F, "QtLogger::LevelFilter::m_minLevel") if w[2] != "ctor-init"]
    inits = [w for w in field_writes(F, "QtLogger::LevelFilter::m_minLevel") if w[2] == "ctor-init"]
    for f, n, how in inits:
        ok = is_ref_to(n, f.params[0]["decl"]) if f.params else False
        ck.ob("C16-O1", sitestr(f), ok, "threshold is the constructor argument", key="LevelFilter|ctor")



def level_by_cases(ck, F, pr, fl, val):
    """C16-O1 by cases (engine/conc.py): priority() evaluated for the five message types and filter() for the 25 (type, threshold)
    pairs, whatever form the table has (switch, constant array, if-chain). False when the code leaves the evaluable fragment."""
    from engine.conc import Conc, Unknown
    raw_pr = F.fn("QtLogger::LevelFilter::priority", flat=False)
    raw_fl = F.fn("QtLogger::LevelFilter::filter", flat=False)
    prio = {}
    try:
        for name in SEVERITY:
            prio[name] = Conc(F).call_fn(raw_pr, [val[name]])
    except Unknown as e:
        ck.notes.append("LevelFilter::priority could not be tabulated (%s): decided by the switch rule" % e)
        return False
    if not all(isinstance(v, int) for v in prio.values()):
        return False
    distinct = len(set(prio.values())) == 5
    ck.ob("C16-O1", sitestr(pr), distinct, "all five message types have their own rank: %s" % prio if distinct else "message types share a rank: %s" % prio, key="LevelFilter::priority|missing-case")
    mono = all(prio[SEVERITY[i]] < prio[SEVERITY[i + 1]] for i in range(4))
    ck.ob("C16-O1", sitestr(pr), mono, "severity table %s is strictly increasing debug<info<warning<critical<fatal" % prio if mono else
          "severity table %s does not rank debug<info<warning<critical<fatal" % prio, key="LevelFilter::priority|order")
    bad, n_eval = [], 0

    def ctor_fields(threshold):
        """the filter's members after LevelFilter(threshold): the constructor's member initialisers evaluated by cases (the threshold itself, or
        whatever the constructor derives from it - a rank computed once)"""
        out = {"QtLogger::LevelFilter::m_minLevel": threshold}
        cts = [c_ for c_ in F.fn_all("QtLogger::LevelFilter::LevelFilter") if c_.d.get("kind") == "ctor" and not c_.d.get("copyctor") and not c_.d.get("movector") and c_.params]
        if len(cts) == 1:
            env = {"__fn__": cts[0], cts[0].params[0]["decl"]: threshold}
            for i_ in cts[0].inits:
                if i_.get("member") and isinstance(i_.get("e"), dict):
                    try:
                        v_ = Conc(F).eval(i_["e"], dict(env))
                    except Unknown:
                        continue
                    if isinstance(v_, int):
                        out[strip_tmpl(i_["member"])] = v_
                        out[strip_tmpl(i_["member"]).split("::")[-1]] = v_
        return out
    try:
        for t in SEVERITY:
            for th in SEVERITY:
                def leaf(n, env, t=t):
                    if is_call(n, LM + "::type") and obj_is_param(skip_copies(n), raw_fl, 0):
                        return val[t]
                    return None
                got = Conc(F, leaf=leaf).call_fn(raw_fl, ["<message>"], ctor_fields(val[th]))
                n_eval += 1
                if bool(got) != (SEVERITY.index(t) >= SEVERITY.index(th)):
                    bad.append("(%s, threshold %s) -> %s" % (t, th, bool(got)))
    except Unknown as e:
        ck.ob("C16-O1", sitestr(fl), None, "LevelFilter::filter could not be tabulated: %s" % e)
        return True
    ck.ob("C16-O1", sitestr(fl), not bad, "%d/%d (type, threshold) pairs evaluated from the source agree with severity >= threshold" % (n_eval, n_eval) if not bad else
          "wrong verdicts: %s" % bad[:6], key="LevelFilter::filter|verdict")
    return True


def evaluated_once(ck):
    """C16-O8: the stateful handlers (duplicate filter, sequence counter) describe the sequence of messages *they saw*; the pipeline
    shows each message to each handler once.  Two loops over the handler list that both start at its beginning show the leading
    handlers every message twice: the duplicate filter then meets its own previous text and drops everything."""
    F = ck.facts
    ck.rule("C16-O8", "Pipeline::process invokes Handler::process from one place: no second pass over the handler list (a 'pre-check' of the leading filters) shows a message to a handler twice")
    proc = F.fn("QtLogger::Pipeline::process")
    ck.touch(proc)
    vcalls = [n for n in proc.calls() if n.get("virtual") and name_is(n.get("callee"), "QtLogger::Handler::process")]
    sites = {(c.get("l"), c.get("c")) for c in vcalls}
    if len(sites) <= 1:
        ck.ob("C16-O8", sitestr(proc, vcalls[0]) if vcalls else sitestr(proc), bool(vcalls), "Pipeline::process runs the handlers from one call site", key="Pipeline::process|evaluated-once")
        return
    loops = []
    for c in vcalls:
        ls = enclosing_loops(proc, c)
        if ls and ls[0]["id"] not in [l["id"] for l in loops]:
            loops.append(ls[0])
    whole = [l for l in loops if l.get("k") == "rangefor" and any(is_this_field(x, "QtLogger::Pipeline::m_handlers") for x in walk(l.get("range") or {}))]
    definite = len(whole) >= 2
    ck.ob("C16-O8", sitestr(proc, vcalls[-1]), False if definite else None,
          "Pipeline::process has %d loops over the whole handler list that each call process(): the handlers the first loop reaches are shown every message a second time by the other — "
          "a DuplicateFilter among them compares the message with itself and drops it, a SeqNumberAttr counts it twice" % len(whole) if definite else
          "Pipeline::process invokes Handler::process from %d places" % len(sites), key="Pipeline::process|evaluated-once")


def logger_runs_the_handlers(ck):
    """C16-O12: "whether or not later handlers drop them" - the handlers in front of a filter see every message. A short cut in the logger's entry
    function that answers for a filter further down (pre-checking a LevelFilter before the message is even constructed) takes the dropped
    messages away from the attribute handlers and stateful filters in front of it: sequence numbers then count survivors only."""
    F = ck.facts
    pm = F.fn("QtLogger::Logger::processMessage")
    ck.touch(pm)
    g = Graph(pm)

    def on_this(n):
        o = n.get("obj")
        o = skip_copies(o) if isinstance(o, dict) else None
        return o is None or o.get("k") == "this" or (isinstance(o, dict) and skip_copies(deref_local(pm, unwrap_ptr(o))).get("k") == "this")
    runs = [n for n in pm.calls() if name_is(n.get("callee"), "process") and on_this(n)]
    if not runs:
        ck.ob("C16-O12", sitestr(pm), None, "processMessage: the run of the pipeline was not found", key="Logger::processMessage|every-message")
        return
    ok = g.must_pass(set(g.sites_of_nodes(runs)))
    ck.ob("C16-O12", sitestr(pm, runs[0]), ok, "every message handed to the logger is run through its handlers (no verdict is taken ahead of them)" if ok else
          "processMessage can return without running the handlers: a message rejected this way is never seen by the attribute handlers and stateful filters in front of the filter that would have "
          "dropped it - a SeqNumberAttr numbers the survivors 0,1,2 where it numbers 1,4,7 today", key="Logger::processMessage|every-message")
